----------------------------- MODULE CommitCache -----------------------------
(* C09, second part: the commit store and the caching provider in front of   *)
(* it never serve something that is not a commit of the requested key.        *)
(*                                                                           *)
(* The store keeps one JSON file per commit key.  The state is what each     *)
(* file currently holds: nothing, a well-formed commit with the digest the   *)
(* key pins, a well-formed commit with another digest, or one of the ways a  *)
(* file can be unusable (not JSON, a field missing, an old version, an       *)
(* unparsable digest, a digest of another type, an invalid module name).     *)
(* Files are written by Put (atomic, may fail), by the caching provider, and *)
(* by tampering.  A read of an unusable file is a miss and evicts the file;  *)
(* a read by module key of a commit with another digest yields a commit      *)
(* whose digest accessor reports the mismatch.  The provider asks the store, *)
(* asks the delegate for what is missing, stores it, reads it back and fails *)
(* if anything is still missing; its answer is in the order of the request.  *)
EXTENDS Naturals, Sequences, FiniteSets, TLC, Json

CONSTANTS Keys, Emit

FileStates == {"absent", "valid", "other_digest", "corrupt", "incomplete", "old_version", "bad_digest", "wrong_digest_type", "bad_name"}
WellFormed(s) == s \in {"valid", "other_digest"}
Unusable(s) == s \notin {"absent", "valid", "other_digest"}

VARIABLES file,   \* file[k]: what the store holds for key k
          last    \* label and outcome of the step that led here (hidden by the VIEW)
vars == <<file, last>>
View == file

KeySeqs == {s \in UNION {[1..n -> Keys] : n \in 1..Cardinality(Keys)} : \A i, j \in 1..Len(s) : i # j => s[i] # s[j]}
Range(s) == {s[i] : i \in 1..Len(s)}
Kinds == {"module-key", "commit-key"}

\* what a read of one key yields
ReadOne(kind, k) ==
  CASE file[k] = "absent" -> "miss"
    [] file[k] = "valid" -> "hit"
    \* by module key the digest is pinned: the commit comes back, its digest accessor reports the mismatch
    [] file[k] = "other_digest" -> IF kind = "module-key" THEN "hit-digest-mismatch" ELSE "hit"
    [] OTHER -> "miss"
\* an unusable file is deleted by the read that finds it
AfterRead(ks) == [k \in Keys |-> IF k \in Range(ks) /\ Unusable(file[k]) THEN "absent" ELSE file[k]]

Init == file = [k \in Keys |-> "absent"] /\ last = [op |-> "init"]
Tamper(k, s) == /\ s # file[k]
                /\ file' = [file EXCEPT ![k] = s]
                /\ last' = [op |-> "tamper", key |-> k, to |-> s]
Put(k, fails) == /\ file' = IF fails THEN file ELSE [file EXCEPT ![k] = "valid"]
                 /\ last' = [op |-> "put", key |-> k, fails |-> fails, result |-> IF fails THEN "error" ELSE "ok"]
Get(kind, ks) == /\ file' = AfterRead(ks)
                 /\ last' = [op |-> "get", kind |-> kind, keys |-> ks, result |-> [i \in 1..Len(ks) |-> ReadOne(kind, ks[i])]]
\* the caching provider: store, delegate for the misses, store the delegate's commits, read them back
Provide(kind, ks, delegateFails, putFails) ==
  LET missing == {k \in Range(ks) : ReadOne(kind, k) = "miss"}
      afterGet == AfterRead(ks)
      \* the delegate is asked even when nothing is missing; a failing delegate or a failing put fails the call
      failed == delegateFails \/ (putFails /\ missing # {})
  IN /\ file' = IF failed THEN afterGet ELSE [k \in Keys |-> IF k \in missing THEN "valid" ELSE afterGet[k]]
     /\ last' = [op |-> "provide", kind |-> kind, keys |-> ks, delegateFails |-> delegateFails, putFails |-> putFails,
                 result |-> IF failed THEN <<"error">>
                            ELSE [i \in 1..Len(ks) |-> IF ks[i] \in missing THEN "hit" ELSE ReadOne(kind, ks[i])]]
Next == \/ \E k \in Keys, s \in FileStates : Tamper(k, s)
        \/ \E k \in Keys, f \in BOOLEAN : Put(k, f)
        \/ \E kind \in Kinds, ks \in KeySeqs : Get(kind, ks)
        \/ \E kind \in Kinds, ks \in KeySeqs, d \in BOOLEAN, p \in BOOLEAN : Provide(kind, ks, d, p)
Spec == Init /\ [][Next]_vars

\* ---- laws ----
TypeOK == \A k \in Keys : file[k] \in FileStates
\* a read never leaves an unusable file behind for a key it looked at
ReadsEvict == [][last'.op \in {"get", "provide"} => \A k \in Range(last'.keys) : ~Unusable(file'[k])]_vars
\* a successful provider call leaves every requested key well-formed, and never reports a miss
ProvideCompletes == [][(last'.op = "provide" /\ last'.result # <<"error">>) =>
                         /\ \A k \in Range(last'.keys) : WellFormed(file'[k])
                         /\ \A i \in 1..Len(last'.result) : last'.result[i] # "miss"]_vars
\* only tampering makes a file unusable, only Put / Provide make it valid
OnlyTamperBreaks == [][\A k \in Keys : (Unusable(file'[k]) /\ file'[k] # file[k]) => last'.op = "tamper"]_vars

EmitEdge == Emit => PrintT(<<"EDGE", ToJson([from |-> file, op |-> last', to |-> file'])>>)
=============================================================================

--------------------------- MODULE MCModuleCache ---------------------------
EXTENDS ModuleCache
P2 == {"p1", "p2"}
P3 == {"p1", "p2", "p3"}
RolesPP == [p \in P2 |-> "put"]
RolesPG == [p \in P2 |-> IF p = "p1" THEN "put" ELSE "get"]
RolesPPG == [p \in P3 |-> IF p = "p3" THEN "get" ELSE "put"]
RolesPGG == [p \in P3 |-> IF p = "p1" THEN "put" ELSE "get"]
=============================================================================

---- MODULE MCCommitCache ----
EXTENDS CommitCache
KeysDef == {"k1", "k2"}
====

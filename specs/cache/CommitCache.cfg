SPECIFICATION Spec
CONSTANTS
  Keys <- KeysDef
  Emit = FALSE
INVARIANTS TypeOK
PROPERTIES ReadsEvict ProvideCompletes OnlyTamperBreaks
ACTION_CONSTRAINT EmitEdge
VIEW View
CHECK_DEADLOCK FALSE

SPECIFICATION Spec
VIEW View
INVARIANTS TypeOK NoFalseComplete Repair LockSafety NoWriteAfterComplete NoStuck
ACTION_CONSTRAINT EmitEdge
CHECK_DEADLOCK FALSE

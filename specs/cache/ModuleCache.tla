---------------------------- MODULE ModuleCache ----------------------------
(* C09: the module cache (bufmodulestore.ModuleDataStore) never serves wrong *)
(* content: crashes, write faults, concurrent processes, tampering.           *)
(*                                                                           *)
(* One cache entry (one module key) on a shared disk, several buf processes. *)
(* Every action is one storage or lock operation of putModuleData /          *)
(* getModuleDataForModuleKey (private/bufpkg/bufmodule/bufmodulestore), in   *)
(* the order the code issues them; the environment may fail a write          *)
(* operation, crash a process between any two operations (its locks are      *)
(* released, the disk stays as it is) and tamper with a complete entry.      *)
(*                                                                           *)
(* Layout "dir":  <key>/files/*, <key>/module.yaml (written last, atomically) *)
(*                guarded by <key>.lock (shared for checks, exclusive+recheck *)
(*                for writes).                                                *)
(* Layout "tar":  <key>.tar written atomically, no lock; an unreadable tar is *)
(*                deleted by the reader (named deviation TarReaderDeletes).   *)
EXTENDS Naturals, FiniteSets, Sequences, TLC, Json

CONSTANTS Procs,       \* set of process ids
          Roles,       \* [Procs -> {"put","get"}]
          NFiles,      \* module files 1..NFiles, copied in this order (parallelism 1)
          MaxFaults, MaxCrashes, MaxTampers,
          Layout,      \* "dir" | "tar"
          Emit

None == "none"
Files == 1..NFiles

VARIABLES pc,      \* program counter of each process
          idx,     \* file being copied by a put
          perr,    \* a file copy of this put has failed (storage.Copy still copies the remaining files)
          file,    \* file[f] \in {"absent","partial","good","bad"}
          extra,   \* an unexpected file exists in files/
          yaml,    \* module.yaml: "absent" | "invalid" | "valid"   (tar layout: the tar object: "absent" | "bad" | "good")
          tmp,     \* number of temp files of interrupted atomic puts lying around
          readers, writer,
          res,     \* result of each process: "none","ok","err","miss","content","mismatch","crashed"
          faults, crashes, tampers,
          lastOp
vars == <<pc, idx, perr, file, extra, yaml, tmp, readers, writer, res, faults, crashes, tampers, lastOp>>
View == <<pc, idx, perr, file, extra, yaml, tmp, readers, writer, res, faults, crashes, tampers>>

Init == /\ pc = [p \in Procs |-> "start"]
        /\ idx = [p \in Procs |-> 1]
        /\ perr = [p \in Procs |-> FALSE]
        /\ file = [f \in Files |-> "absent"]
        /\ extra = FALSE /\ yaml = "absent" /\ tmp = 0
        /\ readers = {} /\ writer = None
        /\ res = [p \in Procs |-> "none"]
        /\ faults = 0 /\ crashes = 0 /\ tampers = 0
        /\ lastOp = [op |-> "init"]

Goto(p, l) == pc' = [pc EXCEPT ![p] = l]
Finish(p, r) == /\ pc' = [pc EXCEPT ![p] = "done"] /\ res' = [res EXCEPT ![p] = r]
Op(p, name, outcome) == lastOp' = [op |-> name, p |-> p, outcome |-> outcome]
\* "depsbad": module.yaml is as well-formed as ever but the dependency pins it lists were edited (a tampering): the store
\* takes it for a complete entry, a reader must not - the digest of the key covers the pins
Valid == yaml \in {"valid", "depsbad"}
CanFault == faults < MaxFaults

\* ====================================================================== dir layout, put
\* shared lock for the first check
RLock(p) == /\ pc[p] = "start" /\ Layout = "dir" /\ writer = None
            /\ readers' = readers \cup {p} /\ Goto(p, "r1") /\ Op(p, "rlock", "ok")
            /\ UNCHANGED <<idx, perr, file, extra, yaml, tmp, writer, res, faults, crashes, tampers>>
\* read module.yaml under the shared lock
Read1(p) == /\ pc[p] = "r1"
            /\ Goto(p, IF Roles[p] = "put" THEN (IF Valid THEN "ru_done" ELSE "ru_up")
                                            ELSE (IF Valid THEN "ru_hit" ELSE "ru_miss"))
            /\ Op(p, "readyaml", yaml)
            /\ UNCHANGED <<idx, perr, file, extra, yaml, tmp, readers, writer, res, faults, crashes, tampers>>
RUnlock(p) ==
  /\ pc[p] \in {"ru_done", "ru_up", "ru_hit", "ru_miss"}
  /\ readers' = readers \ {p}
  /\ Op(p, "runlock", "ok")
  /\ CASE pc[p] = "ru_done" -> Finish(p, "ok")           \* already cached: nothing to do
       [] pc[p] = "ru_up"   -> Goto(p, "wlock") /\ UNCHANGED res
       [] pc[p] = "ru_hit"  -> Goto(p, "access") /\ UNCHANGED res
       [] pc[p] = "ru_miss" -> Finish(p, "miss")
  /\ UNCHANGED <<idx, perr, file, extra, yaml, tmp, writer, faults, crashes, tampers>>
\* exclusive lock, then the check is repeated
WLock(p) == /\ pc[p] = "wlock" /\ writer = None /\ readers = {}
            /\ writer' = p /\ Goto(p, "r2") /\ Op(p, "lock", "ok")
            /\ UNCHANGED <<idx, perr, file, extra, yaml, tmp, readers, res, faults, crashes, tampers>>
Read2(p) == /\ pc[p] = "r2"
            /\ Goto(p, IF Valid THEN "unlock_ok" ELSE "open")
            /\ idx' = [idx EXCEPT ![p] = 1] /\ perr' = [perr EXCEPT ![p] = FALSE]
            /\ Op(p, "readyaml", yaml)
            /\ UNCHANGED <<file, extra, yaml, tmp, readers, writer, res, faults, crashes, tampers>>
\* copy of one module file: Put (creates/truncates the object), then Write+Close
Open(p) == /\ pc[p] = "open"
           /\ file' = [file EXCEPT ![idx[p]] = "partial"]
           /\ Goto(p, "write") /\ Op(p, "open", "ok")
           /\ UNCHANGED <<idx, perr, extra, yaml, tmp, readers, writer, res, faults, crashes, tampers>>
\* storage.Copy runs every file job even when one failed (no cancel-on-failure); the error is
\* reported after the last file
AfterFile(p, failed) ==
  IF idx[p] < NFiles THEN "open"
  ELSE IF failed THEN (IF Layout = "dir" THEN "unlock_err" ELSE "fail") ELSE "yopen"
Advance(p) == idx' = [idx EXCEPT ![p] = IF idx[p] < NFiles THEN idx[p] + 1 ELSE idx[p]]
OpenFail(p) == /\ pc[p] = "open" /\ CanFault
               /\ faults' = faults + 1
               /\ perr' = [perr EXCEPT ![p] = TRUE]
               /\ Goto(p, AfterFile(p, TRUE)) /\ Advance(p) /\ Op(p, "open", "fail")
               /\ UNCHANGED <<file, extra, yaml, tmp, readers, writer, res, crashes, tampers>>
Write(p) == /\ pc[p] = "write"
            /\ file' = [file EXCEPT ![idx[p]] = "good"]
            /\ Goto(p, AfterFile(p, perr[p])) /\ Advance(p)
            /\ Op(p, "write", "ok")
            /\ UNCHANGED <<perr, extra, yaml, tmp, readers, writer, res, faults, crashes, tampers>>
\* a failing write leaves a truncated object; the store must fail
WriteFail(p) == /\ pc[p] = "write" /\ CanFault
                /\ faults' = faults + 1
                /\ perr' = [perr EXCEPT ![p] = TRUE]
                /\ Goto(p, AfterFile(p, TRUE)) /\ Advance(p) /\ Op(p, "write", "fail")
                /\ UNCHANGED <<file, extra, yaml, tmp, readers, writer, res, crashes, tampers>>
\* the Close of a file copy fails after all the data went out: the object is complete, but the store was told that
\* it is not durable - it must fail exactly as for a failing write, and above all not write the marker
CloseFail(p) == /\ pc[p] = "write" /\ CanFault /\ Layout = "dir"
                /\ faults' = faults + 1
                /\ file' = [file EXCEPT ![idx[p]] = "good"]
                /\ perr' = [perr EXCEPT ![p] = TRUE]
                /\ Goto(p, AfterFile(p, TRUE)) /\ Advance(p) /\ Op(p, "write", "closefail")
                /\ UNCHANGED <<extra, yaml, tmp, readers, writer, res, crashes, tampers>>
\* The context of the store is cancelled while the files are being copied (the store is interrupted, not killed): the
\* copy that has just been started still completes, no further file is copied, and the store must fail - above all it
\* must not write the marker over an incomplete set of files.
Cancel(p) == /\ pc[p] = "open" /\ CanFault /\ Layout = "dir" /\ idx[p] < NFiles
             /\ faults' = faults + 1
             /\ file' = [file EXCEPT ![idx[p]] = "partial"]
             /\ Goto(p, "write_c") /\ Op(p, "open", "cancel")
             /\ UNCHANGED <<idx, perr, extra, yaml, tmp, readers, writer, res, crashes, tampers>>
WriteCancelled(p) == /\ pc[p] = "write_c"
                     /\ file' = [file EXCEPT ![idx[p]] = "good"]
                     /\ perr' = [perr EXCEPT ![p] = TRUE]
                     /\ Goto(p, "unlock_err") /\ Op(p, "write", "ok")
                     /\ UNCHANGED <<idx, extra, yaml, tmp, readers, writer, res, faults, crashes, tampers>>
\* the marker: atomic put = temp file, write, rename
YOpen(p) == /\ pc[p] = "yopen" /\ tmp' = tmp + 1 /\ Goto(p, "ywrite") /\ Op(p, "yopen", "ok")
            /\ UNCHANGED <<idx, perr, file, extra, yaml, readers, writer, res, faults, crashes, tampers>>
YOpenFail(p) == /\ pc[p] = "yopen" /\ CanFault /\ faults' = faults + 1
                /\ Goto(p, IF Layout = "dir" THEN "unlock_err" ELSE "fail") /\ Op(p, "yopen", "fail")
                /\ UNCHANGED <<idx, perr, file, extra, yaml, tmp, readers, writer, res, crashes, tampers>>
YWrite(p) == /\ pc[p] = "ywrite" /\ Goto(p, "yrename") /\ Op(p, "ywrite", "ok")
             /\ UNCHANGED <<idx, perr, file, extra, yaml, tmp, readers, writer, res, faults, crashes, tampers>>
YRename(p) == /\ pc[p] = "yrename"
              /\ yaml' = IF Layout = "dir" THEN "valid" ELSE "good"
              /\ tmp' = tmp - 1
              /\ Goto(p, IF Layout = "dir" THEN "unlock_ok" ELSE "putdone") /\ Op(p, "yrename", "ok")
              /\ UNCHANGED <<idx, perr, file, extra, readers, writer, res, faults, crashes, tampers>>
Unlock(p) == /\ pc[p] \in {"unlock_ok", "unlock_err"}
             /\ writer' = None
             /\ Op(p, "unlock", "ok")
             /\ Finish(p, IF pc[p] = "unlock_ok" THEN "ok" ELSE "err")
             /\ UNCHANGED <<idx, perr, file, extra, yaml, tmp, readers, faults, crashes, tampers>>

\* ====================================================================== tar layout
\* the module is assembled in memory (not visible), then the tar is put atomically: the in-memory
\* copy cannot fail, so the only steps are yopen / ywrite / yrename on the tar object
TarPutStart(p) == /\ pc[p] = "start" /\ Layout = "tar" /\ Roles[p] = "put"
                  /\ Goto(p, "yopen") /\ Op(p, "begin", "ok")
                  /\ UNCHANGED <<idx, perr, file, extra, yaml, tmp, readers, writer, res, faults, crashes, tampers>>
TarPutDone(p) == /\ pc[p] \in {"putdone", "fail"}
                 /\ Op(p, "return", "ok")
                 /\ Finish(p, IF pc[p] = "putdone" THEN "ok" ELSE "err")
                 /\ UNCHANGED <<idx, perr, file, extra, yaml, tmp, readers, writer, faults, crashes, tampers>>
TarGet(p) == /\ pc[p] = "start" /\ Layout = "tar" /\ Roles[p] = "get"
             /\ Op(p, "readtar", yaml)
             /\ CASE yaml = "absent" -> Finish(p, "miss")
                  [] yaml = "good"   -> Goto(p, "access") /\ UNCHANGED res
                  [] yaml = "bad"    -> Goto(p, "tdelete") /\ UNCHANGED res
             /\ UNCHANGED <<idx, perr, file, extra, yaml, tmp, readers, writer, faults, crashes, tampers>>
\* TarReaderDeletes: an unreadable tar is removed and reported as a miss
TarDelete(p) == /\ pc[p] = "tdelete"
                /\ yaml' = "absent" /\ Op(p, "deletetar", "ok") /\ Finish(p, "miss")
                /\ UNCHANGED <<idx, perr, file, extra, tmp, readers, writer, faults, crashes, tampers>>

\* ====================================================================== access (lazy digest check)
\* dir layout: the files are read lazily, at access time; tar layout: the tar was read (into memory)
\* by TarGet, so what is served is what was on disk then, and that was good
EntryGood == IF Layout = "dir" THEN (\A f \in Files : file[f] = "good") /\ ~extra /\ yaml # "depsbad" ELSE TRUE
Access(p) == /\ pc[p] = "access"
             /\ Op(p, "access", IF EntryGood THEN "content" ELSE "mismatch")
             /\ Finish(p, IF EntryGood THEN "content" ELSE "mismatch")
             /\ UNCHANGED <<idx, perr, file, extra, yaml, tmp, readers, writer, faults, crashes, tampers>>

\* ====================================================================== environment
Crash(p) == /\ pc[p] \notin {"start", "done"} /\ crashes < MaxCrashes
            /\ crashes' = crashes + 1
            /\ readers' = readers \ {p}
            /\ writer' = IF writer = p THEN None ELSE writer
            /\ Op(p, "crash", pc[p])
            /\ Finish(p, "crashed")
            /\ UNCHANGED <<idx, perr, file, extra, yaml, tmp, faults, tampers>>
TamperKinds == IF Layout = "dir" THEN {"flip", "truncate", "delete", "add", "yaml-corrupt", "yaml-delete", "yaml-deps"} ELSE {"flip"}
Tamper(k, f) ==
  /\ tampers < MaxTampers
  /\ IF Layout = "dir" THEN Valid ELSE yaml = "good"
  /\ tampers' = tampers + 1
  /\ lastOp' = [op |-> "tamper", kind |-> k, f |-> f]
  /\ CASE k \in {"flip", "truncate"} /\ Layout = "dir" -> file' = [file EXCEPT ![f] = "bad"] /\ UNCHANGED <<extra, yaml>>
       [] k = "delete"       -> file' = [file EXCEPT ![f] = "absent"] /\ UNCHANGED <<extra, yaml>>
       [] k = "add"          -> extra' = TRUE /\ UNCHANGED <<file, yaml>>
       [] k = "yaml-corrupt" -> yaml' = "invalid" /\ UNCHANGED <<file, extra>>
       [] k = "yaml-delete"  -> yaml' = "absent" /\ UNCHANGED <<file, extra>>
       \* (the pins are read together with the marker: a reader that has already read it holds the pins as they were,
       \*  so this tampering is explored while no reader is between its read of the marker and its access)
       [] k = "yaml-deps"    -> (\A q \in Procs : pc[q] \notin {"ru_hit", "access"}) /\ yaml' = "depsbad" /\ UNCHANGED <<file, extra>>
       [] k = "flip" /\ Layout = "tar" -> yaml' = "bad" /\ UNCHANGED <<file, extra>>
  /\ UNCHANGED <<pc, idx, perr, tmp, readers, writer, res, faults, crashes>>

Step(p) == \/ RLock(p) \/ Read1(p) \/ RUnlock(p) \/ WLock(p) \/ Read2(p)
           \/ Open(p) \/ OpenFail(p) \/ Write(p) \/ WriteFail(p) \/ CloseFail(p) \/ Cancel(p) \/ WriteCancelled(p)
           \/ YOpen(p) \/ YOpenFail(p) \/ YWrite(p) \/ YRename(p) \/ Unlock(p)
           \/ TarPutStart(p) \/ TarPutDone(p) \/ TarGet(p) \/ TarDelete(p)
           \/ Access(p) \/ Crash(p)
Next == (\E p \in Procs : Step(p)) \/ (\E k \in TamperKinds : \E f \in Files : Tamper(k, f))
Spec == Init /\ [][Next]_vars

\* ====================================================================== properties
TypeOK == /\ \A f \in Files : file[f] \in {"absent", "partial", "good", "bad"}
          /\ yaml \in {"absent", "invalid", "valid", "depsbad", "good", "bad"}
\* a failed or interrupted store never leaves the entry marked complete
NoFalseComplete == (Layout = "dir" /\ Valid /\ tampers = 0) => \A f \in Files : file[f] = "good"
\* a store that reports success leaves (untampered) the entry complete and good
Repair == \A p \in Procs : (Roles[p] = "put" /\ res[p] = "ok" /\ tampers = 0) =>
             IF Layout = "dir" THEN Valid /\ \A f \in Files : file[f] = "good" ELSE yaml = "good"
\* content is only ever served from a good entry (by construction of Access; kept as documentation)
LockSafety == /\ writer # None => readers = {}
              /\ \A p \in Procs : pc[p] \in {"r2", "open", "write", "write_c", "yopen", "ywrite", "yrename", "unlock_ok", "unlock_err"}
                                   => (Layout = "tar" \/ writer = p)
              /\ \A p \in Procs : pc[p] \in {"r1", "ru_done", "ru_up", "ru_hit", "ru_miss"} => p \in readers
\* nobody writes files of an entry that is marked complete
NoWriteAfterComplete == \A p \in Procs : (Layout = "dir" /\ pc[p] \in {"write", "ywrite", "yrename"}) => (~Valid \/ tampers > 0)
\* without crashes every process terminates (no lock is leaked): checked as deadlock-freedom of the
\* bounded model: a state without successor has all processes done
AllDone == \A p \in Procs : pc[p] = "done"
NoStuck == (~ENABLED Next) => AllDone

\* ====================================================================== emission
\* the record carries every variable of the VIEW so that the harness can rebuild the state graph
Cur == [file |-> file, yaml |-> yaml, extra |-> extra, tmp |-> tmp, pc |-> pc, res |-> res, readers |-> readers,
        writer |-> writer, idx |-> idx, perr |-> perr, faults |-> faults, crashes |-> crashes, tampers |-> tampers]
Nxt == [file |-> file', yaml |-> yaml', extra |-> extra', tmp |-> tmp', pc |-> pc', res |-> res', readers |-> readers',
        writer |-> writer', idx |-> idx', perr |-> perr', faults |-> faults', crashes |-> crashes', tampers |-> tampers']
EmitEdge == Emit => PrintT(<<"EDGE", ToJson([from |-> Cur, op |-> lastOp', to |-> Nxt])>>)
=============================================================================

-------------------------- MODULE ParallelizeTrace --------------------------
(* Trace validation of the real thread.Parallelize: the events logged at the  *)
(* verif hooks (one JSON object per line, several calls one after the other)  *)
(* must be a behaviour of Parallelize.tla.  Cancel(i) and External are not    *)
(* logged and are taken as silent steps.  The dispatch hook fires after the   *)
(* context check it belongs to, so one dispatch may be logged after the       *)
(* cancellation that raced with it ("late").                                  *)
(* Acceptance: the invariant TraceNotFinished is VIOLATED (the whole log was  *)
(* consumed).                                                                 *)
EXTENDS Parallelize, Json

TLog == ndJsonDeserialize("trace.ndjson")

VARIABLES l, late
tvars == <<vars, l, late>>

Ev == TLog[l]
IsEvent(e) == l <= Len(TLog) /\ TLog[l].e = e /\ l' = l + 1

TraceInit ==
  /\ l = 1 /\ late = FALSE
  /\ par = [n |-> 2, cap |-> 1, cof |-> FALSE, ext |-> FALSE, mayFail |-> {}]
  /\ next = 3 /\ sem = 0 /\ st = [i \in AllJobs |-> "finished"]
  /\ errs = <<>> /\ ctxDone = FALSE /\ stop = FALSE /\ ret = <<>> /\ done = TRUE

TraceBegin ==
  /\ IsEvent("begin") /\ done
  /\ Ev.n <= MaxN
  /\ par' = [n |-> Ev.n, cap |-> Ev.cap, cof |-> Ev.cof, ext |-> Ev.ext, mayFail |-> 1..Ev.n]
  /\ next' = 1 /\ sem' = 0 /\ st' = [i \in AllJobs |-> "idle"]
  /\ errs' = <<>> /\ ctxDone' = FALSE /\ stop' = FALSE /\ ret' = <<>> /\ done' = FALSE
  /\ late' = FALSE

TraceDispatch ==
  /\ IsEvent("dispatch") /\ Ev.j = next
  /\ Dispatching /\ sem < Cap /\ (~ctxDone \/ ~late)
  /\ late' = (late \/ ctxDone)
  /\ DispatchEffect
TraceStart  == IsEvent("start") /\ Start(Ev.j) /\ UNCHANGED late
TraceFail   == IsEvent("fail") /\ Fail(Ev.j) /\ UNCHANGED late
TraceAddError ==
  /\ IsEvent("adderror") /\ Ev.len = Len(errs) + 1 /\ UNCHANGED late
  /\ \/ \E i \in Jobs : AddError(i)
     \/ DispatcherSeesCtx
TraceFinish == IsEvent("finish") /\ Finish(Ev.j) /\ UNCHANGED late
TraceReturn == IsEvent("return") /\ Ev.len = Len(errs) /\ Return /\ UNCHANGED late

Silent == /\ UNCHANGED <<l, late>>
          /\ \/ \E i \in Jobs : Cancel(i)
             \/ External

TraceNext == TraceBegin \/ TraceDispatch \/ TraceStart \/ TraceFail \/ TraceAddError
             \/ TraceFinish \/ TraceReturn \/ Silent
TraceSpec == TraceInit /\ [][TraceNext]_tvars

TraceNotFinished == l <= Len(TLog)
TraceView == <<vars, l, late>>
=============================================================================

SPECIFICATION Spec
CONSTANTS
  MaxN = 5
  Params <- ThoroughParams
INVARIANTS Bound ErrorsComplete NotStartedOnlyIfCancelled NilIffClean AllRunWithoutCancel
PROPERTY Terminates
CHECK_DEADLOCK FALSE

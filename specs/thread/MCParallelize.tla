--------------------------- MODULE MCParallelize ---------------------------
EXTENDS Parallelize
QuickParams == {[n |-> n, cap |-> c, cof |-> cof, ext |-> ext, mayFail |-> mf] :
                  n \in {2, 4}, c \in {1, 2, 3}, cof \in BOOLEAN, ext \in BOOLEAN, mf \in {{}, {2}, {1, 3}}}
ThoroughParams == {[n |-> n, cap |-> c, cof |-> cof, ext |-> ext, mayFail |-> mf] :
                  n \in {2, 3, 5}, c \in {1, 2, 3, 6}, cof \in BOOLEAN, ext \in BOOLEAN, mf \in {{}, {2}, {1, 3}, {1, 2, 3, 4, 5}}}
=============================================================================

SPECIFICATION TraceSpec
CONSTANTS
  MaxN = 512
  Params = {}
INVARIANTS Bound ErrorsComplete NilIffClean TraceNotFinished
CHECK_DEADLOCK FALSE

---------------------------- MODULE Parallelize ----------------------------
(* thread.Parallelize (private/pkg/thread/thread.go), one action per step    *)
(* that the code takes between two observation points (verif hooks):         *)
(*   dispatcher: acquire the semaphore / see the cancelled context           *)
(*   job goroutine: start, fail, add error (under the lock), cancel, finish  *)
(*   (release the semaphore), and the final return after wg.Wait().          *)
(* C02 uses it for "every job error is in the result, nothing is lost or     *)
(* duplicated whatever the completion order"; C15 uses ErrorsComplete.       *)
EXTENDS Naturals, FiniteSets, Sequences, TLC

CONSTANTS MaxN,    \* largest number of jobs considered
          Params   \* set of call parameters [n, cap, cof, ext, mayFail]:
                   \*   n: number of jobs (>= 2: 0 and 1 job are handled without goroutines)
                   \*   cap: Parallelism() * multiplier;  cof: cancel on failure
                   \*   ext: the caller's context may be cancelled at any time
                   \*   mayFail: set of jobs that may return an error on their own

VARIABLE par       \* the parameters of this call (chosen initially, never changed)
N == par.n
Cap == par.cap
CancelOnFailure == par.cof
ExternalCancel == par.ext
MayFail == par.mayFail
Jobs == 1..N
AllJobs == 1..MaxN
CtxErr == 0   \* the error recorded by the dispatcher (ctx.Err()); job errors are the job ids

VARIABLES next,     \* index of the next job the dispatcher will look at
          sem,      \* semaphore tokens held
          st,       \* st[i] \in {"idle","dispatched","running","failing","erradded","cancelled","finished"}
          errs,     \* sequence of recorded errors: a job id, or CtxErr
          ctxDone,  \* the (derived) context is cancelled
          stop,     \* dispatcher saw the cancelled context
          ret,      \* the returned error list (valid once done)
          done      \* Parallelize returned
vars == <<next, sem, st, errs, ctxDone, stop, ret, done, par>>

InitCall(p) == /\ par = p /\ next = 1 /\ sem = 0
               /\ st = [i \in AllJobs |-> "idle"]
               /\ errs = <<>> /\ ctxDone = FALSE /\ stop = FALSE /\ ret = <<>> /\ done = FALSE
Init == \E p \in Params : InitCall(p)

Dispatching == ~stop /\ next <= N /\ ~done

\* outer or inner select sees ctx.Done(): record ctx.Err() and stop
DispatcherSeesCtx ==
  /\ Dispatching /\ ctxDone
  /\ stop' = TRUE
  /\ errs' = Append(errs, CtxErr)
  /\ UNCHANGED <<next, sem, st, ctxDone, ret, done, par>>

\* semaphore acquired while the context is live: the job's goroutine is created
DispatchEffect ==
  /\ sem' = sem + 1
  /\ st' = [st EXCEPT ![next] = "dispatched"]
  /\ next' = next + 1
  /\ UNCHANGED <<errs, ctxDone, stop, ret, done, par>>
Dispatch ==
  /\ Dispatching /\ ~ctxDone /\ sem < Cap
  /\ sem' = sem + 1
  /\ st' = [st EXCEPT ![next] = "dispatched"]
  /\ next' = next + 1
  /\ UNCHANGED <<errs, ctxDone, stop, ret, done, par>>

Start(i) == /\ st[i] = "dispatched"
            /\ st' = [st EXCEPT ![i] = "running"]
            /\ UNCHANGED <<next, sem, errs, ctxDone, stop, ret, done, par>>

\* the job returns a non-nil error (its own, or because it saw the cancelled context)
Fail(i) == /\ st[i] = "running" /\ (i \in MayFail \/ ctxDone)
           /\ st' = [st EXCEPT ![i] = "failing"]
           /\ UNCHANGED <<next, sem, errs, ctxDone, stop, ret, done, par>>

AddError(i) == /\ st[i] = "failing"
               /\ errs' = Append(errs, i)
               /\ st' = [st EXCEPT ![i] = "erradded"]
               /\ UNCHANGED <<next, sem, ctxDone, stop, ret, done, par>>

Cancel(i) == /\ st[i] = "erradded" /\ CancelOnFailure
             /\ ctxDone' = TRUE
             /\ st' = [st EXCEPT ![i] = "cancelled"]
             /\ UNCHANGED <<next, sem, errs, stop, ret, done, par>>

\* the job goroutine is done: release the semaphore
Finish(i) == /\ \/ st[i] = "running"
                \/ (st[i] = "erradded" /\ ~CancelOnFailure)
                \/ st[i] = "cancelled"
             /\ st' = [st EXCEPT ![i] = "finished"]
             /\ sem' = sem - 1
             /\ UNCHANGED <<next, errs, ctxDone, stop, ret, done, par>>

External == /\ ExternalCancel /\ ~ctxDone /\ ~done
            /\ ctxDone' = TRUE
            /\ UNCHANGED <<next, sem, st, errs, stop, ret, done, par>>

\* wg.Wait() returned: every created goroutine is done
Return == /\ ~done /\ (stop \/ next > N)
          /\ \A i \in Jobs : st[i] \in {"idle", "finished"}
          /\ ret' = errs /\ done' = TRUE
          /\ UNCHANGED <<next, sem, st, errs, ctxDone, stop, par>>

Next == DispatcherSeesCtx \/ Dispatch \/ External \/ Return
        \/ \E i \in Jobs : Start(i) \/ Fail(i) \/ AddError(i) \/ Cancel(i) \/ Finish(i)
Fairness == WF_vars(DispatcherSeesCtx \/ Dispatch) /\ WF_vars(Return)
            /\ \A i \in AllJobs : WF_vars(Start(i) \/ Fail(i) \/ AddError(i) \/ Cancel(i) \/ Finish(i))
Spec == Init /\ [][Next]_vars /\ Fairness

\* ------------------------------------------------------------------ properties
InFlight == {i \in Jobs : st[i] \notin {"idle", "finished"}}
Bound == Cardinality(InFlight) <= Cap /\ sem <= Cap /\ Cardinality(InFlight) <= sem
ErrSet == {errs[k] : k \in 1..Len(errs)}
Failed == {i \in Jobs : st[i] \in {"erradded", "cancelled"}} \cup {i \in Jobs : st[i] = "finished" /\ i \in ErrSet}
\* every job error is in the result exactly once; nothing else is, except ctx.Err() at most once
ErrorsComplete == done =>
   /\ \A i \in Jobs : Cardinality({k \in 1..Len(ret) : ret[k] = i}) <= 1
   /\ Cardinality({k \in 1..Len(ret) : ret[k] = CtxErr}) <= 1
   /\ \A k \in 1..Len(ret) : ret[k] = CtxErr \/ st[ret[k]] = "finished"
\* a job that was never started is explained by a recorded context error
NotStartedOnlyIfCancelled == done => ((\E i \in Jobs : st[i] = "idle") => CtxErr \in {ret[k] : k \in 1..Len(ret)})
\* nil is returned iff no job failed and the context was never seen cancelled
NilIffClean == done => (ret = <<>> <=> (\A i \in Jobs : st[i] = "finished") /\ ErrSet = {})
\* without cancellation every job runs
AllRunWithoutCancel == (done /\ ~CancelOnFailure /\ ~ExternalCancel) => \A i \in Jobs : st[i] = "finished"
Terminates == <>done
=============================================================================

SPECIFICATION Spec
CONSTANTS
  MaxN = 5
  Params <- QuickParams
INVARIANTS Bound ErrorsComplete NotStartedOnlyIfCancelled NilIffClean AllRunWithoutCancel
PROPERTY Terminates
CHECK_DEADLOCK FALSE

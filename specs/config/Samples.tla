------------------------------- MODULE Samples -------------------------------
(* C16 (buf.gen.yaml / buf.work.yaml): the documents are feature sets; every  *)
(* subset of up to MaxFeatures features of each file kind is a document.      *)
EXTENDS Naturals, FiniteSets, TLC, Json
CONSTANTS MaxFeatures, Emit
Features == [ gen_v2 |-> {"clean", "managed", "plugin-opts", "remote-plugin", "plugin-types", "in-dir", "in-module", "in-git-branch",
                          "in-git-branch-ref", "in-git-tag", "in-tar", "in-zip", "in-protofile", "in-image",
                          \* a strategy on a plugin that is not given as a local path
                          "builtin-strategy"},
              gen_v1 |-> {"managed", "plugin-opts", "remote-plugin", "name-strategy", "protoc-path-strategy"},
              work   |-> {"three"} ]
VARIABLES kind, features
vars == <<kind, features>>
Small(S, n) == {T \in ({{}} \cup {{a} : a \in S} \cup {{a, b} : a \in S, b \in S} \cup {{a, b, c} : a \in S, b \in S, c \in S}) : Cardinality(T) <= n}
Init == kind \in DOMAIN Features /\ features \in Small(Features[kind], MaxFeatures)
Next == UNCHANGED vars
Spec == Init /\ [][Next]_vars
\* every input kind of buf.gen.yaml is among the features
AllInputKindsCovered == {"in-dir", "in-module", "in-git-branch", "in-git-tag", "in-tar", "in-zip", "in-protofile", "in-image"} \subseteq Features.gen_v2
EmitCase == Emit => PrintT(<<"CASE", ToJson([kind |-> kind, features |-> features])>>)
=============================================================================

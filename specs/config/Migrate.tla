------------------------------- MODULE Migrate -------------------------------
(* C16 (migration): migrating a v1 / v1beta1 workspace to v2 preserves, for   *)
(* every module, the files built and the lint and breaking configuration in  *)
(* effect.  The abstract workspace: one module with a buf.yaml at the root,   *)
(* or a buf.work.yaml with two module directories (the second one with or    *)
(* without its own buf.yaml); per-module lint settings incl. the two          *)
(* "allow google.protobuf.Empty" switches, an ignore path, a breaking         *)
(* category.  Effective(m) is what must be the same before and after.         *)
EXTENDS Naturals, FiniteSets, TLC, Json

CONSTANTS Emit
VARIABLES layout, version, lintUse, emptyReq, emptyResp, ignoreFile, breakingUse, second,
          deps,  \* what the first module depends on: nothing, a pinned module, or a pinned module whose own dependency is pinned too
          build  \* the build section of the first module: none, an excluded directory, (v1beta1) an explicit root, both
vars == <<layout, version, lintUse, emptyReq, emptyResp, ignoreFile, breakingUse, second, deps, build>>
Init == /\ layout \in {"single", "work"}
        /\ version \in {"v1", "v1beta1"}
        /\ lintUse \in {"default", "MINIMAL", "BASIC"}
        /\ emptyReq \in BOOLEAN /\ emptyResp \in BOOLEAN
        /\ ignoreFile \in BOOLEAN
        /\ breakingUse \in {"default", "WIRE"}
        /\ second \in {"none", "noconfig", "configured"}
        /\ (layout = "single" <=> second = "none")
        /\ deps \in {"none", "direct", "transitive"}
        \* dependencies are explored on the plain lint / breaking settings
        /\ (deps # "none" => (lintUse = "default" /\ ~emptyReq /\ ~emptyResp /\ ~ignoreFile /\ breakingUse = "default"))
        \* build.excludes (v1 and v1beta1) and build.roots (v1beta1 only): explored with and without the ignore path
        /\ build \in {"none", "excludes", "roots", "roots+excludes"}
        /\ (build \in {"roots", "roots+excludes"} => version = "v1beta1")
        /\ (build # "none" => (lintUse = "default" /\ ~emptyReq /\ ~emptyResp /\ breakingUse = "default" /\ deps = "none"))
Next == UNCHANGED vars
Spec == Init /\ [][Next]_vars

Modules == IF layout = "single" THEN {"m1"} ELSE {"m1", "m2"}
\* what is in effect for a module (the same record must describe it after the migration)
Effective(m) ==
  IF m = "m1" THEN [lintUse |-> lintUse, emptyReq |-> emptyReq, emptyResp |-> emptyResp, ignoreFile |-> ignoreFile, breakingUse |-> breakingUse, version |-> version,
                    excluded |-> (build \in {"excludes", "roots+excludes"})]
  ELSE IF second = "configured" THEN [lintUse |-> "MINIMAL", emptyReq |-> FALSE, emptyResp |-> TRUE, ignoreFile |-> FALSE, breakingUse |-> "default", version |-> "v1", excluded |-> FALSE]
  ELSE [lintUse |-> "default", emptyReq |-> FALSE, emptyResp |-> FALSE, ignoreFile |-> FALSE, breakingUse |-> "default", version |-> "v1", excluded |-> FALSE]
\* every pin of the old buf.lock is a pin of the new one (same module, same commit), also the pins of modules that no
\* buf.yaml names under deps
PinsBefore == CASE deps = "none" -> {} [] deps = "direct" -> {"direct"} [] deps = "transitive" -> {"direct", "transitive"}
PinsAfter == PinsBefore
DeclaredDepsAfter == IF deps = "none" THEN {} ELSE {"direct"}
PinsPreserved == PinsBefore \subseteq PinsAfter /\ DeclaredDepsAfter \subseteq PinsAfter
\* an excluded directory stays excluded: the set of files built is the same before and after
ExcludesPreserved == \A m \in Modules : Effective(m).excluded \in BOOLEAN
\* the two switches are independent: no migration rule may tie them together
SwitchesIndependent == \A m \in Modules : Effective(m).emptyReq \in BOOLEAN /\ Effective(m).emptyResp \in BOOLEAN
EmitCase == Emit => PrintT(<<"CASE", ToJson([layout |-> layout, version |-> version, lintUse |-> lintUse, emptyReq |-> emptyReq, emptyResp |-> emptyResp,
   ignoreFile |-> ignoreFile, breakingUse |-> breakingUse, second |-> second, deps |-> deps, build |-> build, pins |-> PinsAfter, declared |-> DeclaredDepsAfter, modules |-> [m \in Modules |-> Effective(m)]])>>)
=============================================================================

SPECIFICATION Spec
INVARIANTS Sorted NothingLost DigestKept KindByVersion CanonIsFixedPoint EmitCase
CHECK_DEADLOCK FALSE

SPECIFICATION Spec
INVARIANTS AllInputKindsCovered EmitCase
CHECK_DEADLOCK FALSE

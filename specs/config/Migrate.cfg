SPECIFICATION Spec
INVARIANTS SwitchesIndependent EmitCase
CHECK_DEADLOCK FALSE

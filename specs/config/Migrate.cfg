SPECIFICATION Spec
INVARIANTS SwitchesIndependent PinsPreserved EmitCase
CHECK_DEADLOCK FALSE

SPECIFICATION Spec
INVARIANTS TopLevelPathsStayInTheirModule TopLevelReachesLaterModules EmitCase
CHECK_DEADLOCK FALSE

SPECIFICATION Spec
INVARIANTS TopLevelPathsStayInTheirModule TopLevelReachesLaterModules TopLevelBreakingReachesModule2 EmitCase
CHECK_DEADLOCK FALSE

------------------------------- MODULE BufYAML -------------------------------
(* C16 (buf.yaml v2): what a document means after it has been read.           *)
(*                                                                           *)
(* An abstract v2 buf.yaml: one or two modules (directories may be ".", may  *)
(* overlap), optional name, includes/excludes, per-module and top-level lint  *)
(* and breaking sections drawn from a few shapes (rules, ignore paths inside  *)
(* a module, ignore_only maps, "switched off" = the ignore list names the     *)
(* module directory itself).  Effective(m) transcribes readBufYAMLFile: a     *)
(* module's own section wins over the top-level one; top-level paths that do  *)
(* not lie inside the module are dropped, the others are re-based onto the    *)
(* module directory.  The harness requires (1) the real reader to produce     *)
(* Effective, (2) write-then-read to preserve it, (3) writing to be           *)
(* idempotent.                                                                *)
EXTENDS Naturals, Sequences, FiniteSets, TLC, Json

CONSTANTS Emit

IsPrefixSeq(a, b) == Len(a) <= Len(b) /\ SubSeq(b, 1, Len(a)) = a
Strip(p, n) == SubSeq(p, n + 1, Len(p))
None == "none"
Root == <<>>     \* the directory "."

VARIABLES dir1, dir2,        \* module directories; dir2 = <<"-">> when there is one module only
          named1,
          inc1, exc1,        \* module 1: has an include / an exclude
          lint1, lint2, lintTop,
          br1, brTop
vars == <<dir1, dir2, named1, inc1, exc1, lint1, lint2, lintTop, br1, brTop>>
NoMod == <<"-">>
Init == /\ dir1 \in {Root, <<"a">>}
        /\ dir2 \in {NoMod, <<"b">>, <<"a", "sub">>}
        /\ named1 \in BOOLEAN
        /\ inc1 \in BOOLEAN /\ exc1 \in BOOLEAN
        /\ lint1 \in {None, "c1", "c2", "off"} /\ lint2 \in {None, "c1", "c2", "off"}
        /\ lintTop \in {None, "c1", "c2top"}
        /\ br1 \in {None, "b1", "b2", "off"} /\ brTop \in {None, "b1", "b2top"}
        /\ (dir2 = NoMod => lint2 = None)
Next == UNCHANGED vars
Spec == Init /\ [][Next]_vars

Mods == IF dir2 = NoMod THEN {1} ELSE {1, 2}
DirOf(m) == IF m = 1 THEN dir1 ELSE dir2
\* sections: [present, use, ignore (workspace-relative paths), ignoreOnly (key -> workspace-relative paths)]
NoSection == [present |-> FALSE, use |-> {}, ignore |-> {}, ignoreOnly |-> {}]
Section(kind, d) ==
  CASE kind = "c1"    -> [present |-> TRUE, use |-> {"MINIMAL"}, ignore |-> {}, ignoreOnly |-> {}]
    [] kind = "c2"    -> [present |-> TRUE, use |-> {"BASIC"}, ignore |-> {d \o <<"ign">>}, ignoreOnly |-> {}]
    [] kind = "off"   -> [present |-> TRUE, use |-> {}, ignore |-> {d}, ignoreOnly |-> {}]
    [] kind = "b1"    -> [present |-> TRUE, use |-> {"WIRE"}, ignore |-> {}, ignoreOnly |-> {}]
    \* breaking sections with paths: an ignore and an ignore_only entry inside the module (own section) or inside
    \* the second module (top-level section)
    [] kind = "b2"    -> [present |-> TRUE, use |-> {"FILE"}, ignore |-> {d \o <<"ign">>},
                          ignoreOnly |-> {<<"FIELD_NO_DELETE", d \o <<"legacy">>>>}]
    [] kind = "b2top" -> [present |-> TRUE, use |-> {"FILE"},
                          ignore |-> {(IF dir2 = NoMod THEN <<"b">> ELSE dir2) \o <<"ign2">>},
                          ignoreOnly |-> {<<"FIELD_NO_DELETE", (IF dir2 = NoMod THEN <<"b">> ELSE dir2) \o <<"legacy">>>>}]
    \* a top-level section whose paths point into the second module (or nowhere when there is none)
    [] kind = "c2top" -> [present |-> TRUE, use |-> {"BASIC"},
                          ignore |-> {(IF dir2 = NoMod THEN <<"b">> ELSE dir2) \o <<"ign2">>},
                          ignoreOnly |-> {<<"ENUM_PASCAL_CASE", (IF dir2 = NoMod THEN <<"b">> ELSE dir2) \o <<"legacy">>>>}]
    [] OTHER          -> NoSection
OwnLint(m) == Section(IF m = 1 THEN lint1 ELSE lint2, DirOf(m))
TopLint == Section(lintTop, Root)
OwnBreaking(m) == IF m = 1 THEN Section(br1, dir1) ELSE NoSection
TopBreaking == Section(brTop, Root)

Inside(d, p) == IsPrefixSeq(d, p)
\* the effective check configuration of a module: own section, else the top-level one, else the default
EffectiveOf(own, top, d) ==
  LET s == IF own.present THEN own ELSE top IN
  IF ~s.present THEN [kind |-> "default"]
  ELSE IF d \in s.ignore THEN [kind |-> "disabled"]
  ELSE [kind |-> "enabled", use |-> s.use,
        ignore |-> {Strip(p, Len(d)) : p \in {q \in s.ignore : Inside(d, q)}},
        ignoreOnly |-> {<<e[1], Strip(e[2], Len(d))>> : e \in {x \in s.ignoreOnly : Inside(d, x[2])}}]
EffectiveLint(m) == EffectiveOf(OwnLint(m), TopLint, DirOf(m))
EffectiveBreaking(m) == EffectiveOf(OwnBreaking(m), TopBreaking, DirOf(m))

\* an own section must keep its paths inside the module (always true for these shapes); module
\* directories must differ
Accepted == dir1 # dir2

\* ---- laws ----
\* a path of the top-level section that lies in module 2 never ends up in module 1 unless module 1 contains it
TopLevelPathsStayInTheirModule ==
  (dir2 # NoMod /\ lintTop = "c2top" /\ lint1 = None /\ ~Inside(dir1, dir2)) => EffectiveLint(1).kind = "enabled" /\ EffectiveLint(1).ignore = {}
\* every module gets the top-level entries that lie inside it, whatever the order of the modules
TopLevelReachesLaterModules ==
  (dir2 # NoMod /\ lintTop = "c2top" /\ lint2 = None) => EffectiveLint(2).kind = "enabled" /\ EffectiveLint(2).ignoreOnly # {}

\* the same for breaking: the top-level entries reach the module they lie in, relative to it
TopLevelBreakingReachesModule2 ==
  (dir2 # NoMod /\ brTop = "b2top") => EffectiveBreaking(2).kind = "enabled" /\ EffectiveBreaking(2).ignoreOnly = {<<"FIELD_NO_DELETE", <<"legacy">>>>}
ModRec(m) == [dir |-> DirOf(m), named |-> (m = 1 /\ named1), include |-> (m = 1 /\ inc1), exclude |-> (m = 1 /\ exc1),
              lint |-> EffectiveLint(m), breaking |-> EffectiveBreaking(m)]
EmitCase == (Emit /\ Accepted) => PrintT(<<"CASE", ToJson(
  [dir1 |-> dir1, dir2 |-> dir2, named1 |-> named1, inc1 |-> inc1, exc1 |-> exc1, lint1 |-> lint1, lint2 |-> lint2, lintTop |-> lintTop,
   br1 |-> br1, brTop |-> brTop, modules |-> [m \in Mods |-> ModRec(m)]])>>)
=============================================================================

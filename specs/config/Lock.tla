-------------------------------- MODULE Lock --------------------------------
(* C16, buf.lock: what a lock document means after reading, and its round     *)
(* trip.                                                                      *)
(*                                                                           *)
(* A document is a version key (possibly absent), an ordered list of          *)
(* dependency entries and (v2) an ordered list of plugin entries.  Each       *)
(* entry has a name, a commit (possibly missing) and a digest that is of the  *)
(* b4 kind, of the b5 kind, of a deprecated kind (b1 / b3) or missing.        *)
(* Outcome transcribes readBufLockFile + newBufLockFile: which documents are  *)
(* refused, and for the others the pins the reader must report: sorted by     *)
(* the *string* of the full name (the names are chosen so that sorting by     *)
(* component would give another order), with the digest as written, or, for   *)
(* a v1 entry without usable digest, the digest the resolver supplies.        *)
(* Round trip: the written form of an accepted document is the canonical      *)
(* document (explicit version, entries in pin order, legacy keys dropped),    *)
(* which reads back to the same pins and is a fixed point of the writer.      *)
EXTENDS Integers, Sequences, FiniteSets, TLC, Json

CONSTANTS MaxDeps, Emit

\* rank = position in the order of the full-name strings ('-' sorts before '/')
Names == {"buf.test/acme-x/alpha", "buf.test/acme/alpha", "buf.test/acme/zeta"}
Rank(n) == CASE n = "buf.test/acme-x/alpha" -> 1 [] n = "buf.test/acme/alpha" -> 2 [] n = "buf.test/acme/zeta" -> 3
Commits == {"c1", "c2", "missing"}
Digests == {"b4", "b5", "deprecated", "missing"}
Entry == [name : Names, commit : Commits, digest : Digests]
Versions == {"absent", "v1beta1", "v1", "v2"}
\* plugin section shapes of the document
PluginShapes == {"none", "one", "two-unsorted", "no-commit", "no-digest", "duplicate"}

VARIABLES version, deps, plugins, legacy, resolver
vars == <<version, deps, plugins, legacy, resolver>>

SeqsUpTo(S, n) == UNION {[1..k -> S] : k \in 0..n}
IsV1(v) == v \in {"absent", "v1beta1", "v1"}
Init ==
  /\ version \in Versions
  /\ deps \in SeqsUpTo(Entry, MaxDeps)
  \* (the plugin section does not interact with the dependency entries: it is varied on short documents only)
  /\ plugins \in PluginShapes /\ (plugins # "none" => Len(deps) <= 1)
  \* (a document that has neither a version key nor any entry is an empty YAML stream, not a lock document)
  /\ (version = "absent" => Len(deps) > 0 \/ plugins # "none")
  \* legacy: the v1 entries also carry the `branch` and `create_time` keys old clients wrote
  /\ legacy \in BOOLEAN /\ (legacy => IsV1(version) /\ Len(deps) > 0)
  \* resolver: the caller supplies a digest resolver (only matters for a v1 entry without usable digest)
  /\ resolver \in BOOLEAN /\ (resolver => IsV1(version) /\ \E i \in 1..Len(deps) : deps[i].digest \in {"missing", "deprecated"})
Next == UNCHANGED vars
Spec == Init /\ [][Next]_vars

\* ------------------------------------------------------------------ what the reader must do
\* the file version a document without version key is read as
EffectiveVersion == IF version = "absent" THEN "v1beta1" ELSE version
DupNames == \E i, j \in 1..Len(deps) : i # j /\ deps[i].name = deps[j].name
\* the digest kind an entry ends up with
KindOf(e) ==
  IF IsV1(version) /\ e.digest \in {"missing", "deprecated"} THEN (IF resolver THEN "resolved-b4" ELSE "none") ELSE e.digest
Expected == IF IsV1(version) THEN {"b4", "resolved-b4"} ELSE {"b5"}
Reject ==
  \/ \E i \in 1..Len(deps) : deps[i].commit = "missing"
  \/ \E i \in 1..Len(deps) : KindOf(deps[i]) \notin Expected
  \/ DupNames
  \/ (IsV1(version) /\ plugins # "none")       \* the key is unknown to a v1 document
  \/ plugins \in {"no-commit", "no-digest", "duplicate"}
\* pins in the order the reader reports and the writer writes them
RECURSIVE Insert(_, _)
Insert(s, e) == IF s = <<>> THEN <<e>> ELSE IF Rank(e.name) < Rank(Head(s).name) THEN <<e>> \o s ELSE <<Head(s)>> \o Insert(Tail(s), e)
RECURSIVE SortByName(_)
SortByName(s) == IF s = <<>> THEN <<>> ELSE Insert(SortByName(Tail(s)), Head(s))
Pins == [i \in 1..Len(deps) |-> LET e == SortByName(deps)[i] IN [name |-> e.name, commit |-> e.commit, digest |-> KindOf(e)]]
PluginPins == CASE plugins = "one" -> <<"plug-a">> [] plugins = "two-unsorted" -> <<"plug-a", "plug-b">> [] OTHER -> <<>>

\* ------------------------------------------------------------------ laws
Sorted == ~Reject => \A i \in 1..(Len(Pins) - 1) : Rank(Pins[i].name) < Rank(Pins[i + 1].name)
\* every pin of the document survives with its commit; nothing is invented
NothingLost == ~Reject => /\ Len(Pins) = Len(deps)
                          /\ \A i \in 1..Len(deps) : \E j \in 1..Len(Pins) : Pins[j].name = deps[i].name /\ Pins[j].commit = deps[i].commit
\* a digest is only ever replaced when the document did not carry a usable one
DigestKept == ~Reject => \A i \in 1..Len(deps) : deps[i].digest \in {"b4", "b5"} =>
                \E j \in 1..Len(Pins) : Pins[j].name = deps[i].name /\ Pins[j].digest = deps[i].digest
\* the version decides the digest kind
KindByVersion == ~Reject => \A j \in 1..Len(Pins) : Pins[j].digest \in Expected
\* the canonical document of an accepted one is accepted, and is its own canonical document (idempotence of the writer)
CanonDeps == [i \in 1..Len(Pins) |-> [name |-> Pins[i].name, commit |-> Pins[i].commit, digest |-> IF Pins[i].digest = "resolved-b4" THEN "b4" ELSE Pins[i].digest]]
CanonIsFixedPoint == ~Reject => SortByName(CanonDeps) = CanonDeps

EmitCase == Emit => PrintT(<<"CASE", ToJson(
  [version |-> version, deps |-> deps, plugins |-> plugins, legacy |-> legacy, resolver |-> resolver,
   reject |-> Reject, effectiveVersion |-> EffectiveVersion,
   pins |-> IF Reject THEN <<>> ELSE Pins, pluginPins |-> IF Reject THEN <<>> ELSE PluginPins])>>)
=============================================================================

------------------------------- MODULE Breaking -------------------------------
(* C03 / C04: what `buf breaking` owes the user.                              *)
(*                                                                           *)
(* A schema version is a valuation of slots (one slot per editable aspect of *)
(* a fixed skeleton of five files: types, names, cardinalities, oneof        *)
(* membership, defaults, options, existence of declarations, reservations,   *)
(* RPC signatures, file package / syntax / options, cosmetic style).  A      *)
(* history is a sequence of versions; every edit appends a version.  For any *)
(* two versions p (older) and c (newer) Expected(p, c) is the set of         *)
(* annotations the documentation promises (rule, the names the message must  *)
(* carry, the element it must be located at); Compatible(p, c) says that the *)
(* step is purely additive or cosmetic, for which nothing may be reported in *)
(* any category.  The harness renders the versions, runs the real detector   *)
(* for every configuration version x category and for single-rule            *)
(* configurations, and requires Expected to be reported (C03), nothing to be *)
(* reported for compatible steps and for p = c (C04), and the category       *)
(* ordering FILE => PACKAGE => WIRE_JSON => WIRE on every pair (C04).        *)
EXTENDS Naturals, Sequences, FiniteSets, TLC, Json, BreakingTables

CONSTANTS MaxLen,        \* versions per history
          MaxBreaking,   \* edits per history that are not additive / cosmetic
          VaryBase,      \* TRUE: the first version may differ from the base in one slot (gives every value pair of a slot)
          Emit

\* ------------------------------------------------------------------ slots (first value = base)
Scalars == <<"int32", "int64", "uint32", "uint64", "sint32", "sint64", "fixed32", "fixed64", "sfixed32", "sfixed64",
             "bool", "string", "bytes", "float", "double">>
Existing == <<"present", "absent">>
Addable == <<"absent", "present">>
Deletion == <<"present", "deleted", "deleted_num", "deleted_name", "deleted_both">>
Dom == [
  style |-> <<"plain", "commented", "reformatted">>,
  \* a.proto (proto3, package acme.v1), message M
  a_type |-> Scalars, a_name |-> <<"a", "a_renamed">>, a_json |-> <<"default", "custom">>,
  n_type |-> <<"msg:M.N", "msg:M.N2", "string", "enum:M.K">>,
  k_type |-> <<"enum:M.K", "enum:KWide.K", "enum:E", "int32", "enum:KSwap.K">>,
  mp_val |-> <<"int32", "int64", "string", "sint32">>,
  c_oneof |-> <<"o", "none", "o2">>,
  ph_state |-> <<"oneof", "plain">>,
  e_card |-> <<"implicit", "optional", "repeated">>,
  x_state |-> Deletion,
  z_state |-> Addable, added_nested |-> Addable, added_oneof |-> Addable,
  m_res |-> Existing, m_res_new |-> Addable,
  inner_state |-> Existing, k2_state |-> Existing,
  \* enum E (allow_alias): E_UNSPECIFIED = 0, E_A = 1, E_B = 1, E_C = 2
  ec_state |-> Deletion, ec_name |-> <<"E_C", "E_C_RENAMED">>,
  alias_state |-> <<"present", "deleted", "deleted_name_one", "deleted_name_all", "deleted_num">>,
  e_new |-> Addable, e_res |-> Existing,
  e2_state |-> Existing, added_enum |-> Addable, added_msg |-> Addable,
  \* service S, rpc R
  r_req |-> <<"M", "M.N">>, r_resp |-> <<"M.N", "M">>, r_cs |-> <<"unary", "stream">>, r_ss |-> <<"unary", "stream">>,
  r_idem |-> <<"unknown", "no_side_effects", "idempotent">>,
  r2_state |-> Existing, r3_state |-> Addable, s2_state |-> Existing, s3_state |-> Addable,
  \* tracked file options of a.proto
  o_java_package |-> <<"com.acme.v1", "com.changed">>, o_java_multiple_files |-> <<"true", "false">>,
  o_go_package |-> <<"acme/v1;acmev1", "changed/v1;acmev1">>, o_optimize_for |-> <<"SPEED", "CODE_SIZE">>,
  o_csharp_namespace |-> <<"Acme.V1", "Changed.V1">>, o_objc_class_prefix |-> <<"AXX", "CXX">>,
  o_php_namespace |-> <<"AcmeV1", "ChangedV1">>, o_ruby_package |-> <<"Acme::V1", "Changed::V1">>,
  o_swift_prefix |-> <<"Acme", "Changed">>, o_cc_enable_arenas |-> <<"true", "false">>,
  o_java_outer_classname |-> <<"AProto", "ChangedProto">>, o_php_class_prefix |-> <<"A", "C">>,
  o_php_metadata_namespace |-> <<"AcmeV1Meta", "ChangedMeta">>,
  o_cc_generic_services |-> <<"false", "true">>, o_java_generic_services |-> <<"false", "true">>, o_py_generic_services |-> <<"false", "true">>,
  \* b.proto (proto2, package acme.v1), message P, extension ext, message Q
  pr_label |-> <<"required", "optional">>, pc_card |-> <<"optional", "repeated", "required">>,
  pf_default |-> <<"nan", "1.5", "none", "inf">>, ps_default |-> <<"x", "y", "none">>,
  pbig_js |-> <<"JS_STRING", "JS_NORMAL", "JS_NUMBER">>,
  p_extrange |-> Existing, p_newreq |-> Addable,
  ext_state |-> Existing, q_state |-> Existing, q_nsda |-> <<"false", "true">>,
  \* b2.proto (package acme.v1): messages B2 and B2Other
  b2_home |-> <<"b2.proto", "a.proto">>, b2_file |-> Existing,
  \* c.proto (its own package), d.proto (new file of acme.v1)
  c_syntax |-> <<"proto3", "proto2", "unspecified">>, c_pkg |-> <<"acme.other.v1", "acme.other.v2">>, c_file |-> Existing,
  \* the only message and the only enum of that package
  c_msg |-> Existing, c_enum |-> Existing,
  d_file |-> Addable,
  \* P.u: a 64-bit integer field with a default at the edge of its range
  pu |-> <<"int64:-1", "uint64:18446744073709551615", "uint64:1", "int64:1">>,
  \* 8*P+7 more files (P = parallelism of the machine), one message each; "edited": every one of them lost a field
  fillers |-> <<"none", "present", "edited">> ]
Slots == DOMAIN Dom
Vals(s) == {Dom[s][i] : i \in 1..Len(Dom[s])}
Base == [s \in Slots |-> Dom[s][1]]
ASSUME Emit => PrintT(<<"BASE", ToJson(Base)>>)

\* ------------------------------------------------------------------ additive / cosmetic steps (C04)
AdditiveSlots == {"z_state", "added_nested", "added_oneof", "m_res_new", "e_new", "added_enum", "added_msg", "r3_state", "s3_state", "d_file"}
\* a file without a syntax statement is a proto2 file
NormSyntax(v) == IF v = "unspecified" THEN "proto2" ELSE v
CompatStep(s, v1, v2) == \/ v1 = v2 \/ s = "style" \/ (s \in AdditiveSlots /\ v1 = "absent" /\ v2 = "present")
                         \/ (s = "c_syntax" /\ NormSyntax(v1) = NormSyntax(v2))
                         \/ (s = "fillers" /\ v1 = "none" /\ v2 = "present")
Compatible(p, c) == \A s \in Slots : CompatStep(s, p[s], c[s])

\* ------------------------------------------------------------------ documented compatibility groups
IsMsg(t) == t \in {"msg:M.N", "msg:M.N2"}
IsEnum(t) == t \in {"enum:M.K", "enum:KWide.K", "enum:E", "enum:KSwap.K"}
WireGroup(t) == IF IsMsg(t) THEN 10 ELSE IF IsEnum(t) THEN 11 ELSE
  CASE t \in {"int32", "int64", "uint32", "uint64", "bool"} -> 1 [] t \in {"sint32", "sint64"} -> 2
    [] t = "string" -> 3 [] t = "bytes" -> 4 [] t \in {"fixed32", "sfixed32"} -> 5 [] t \in {"fixed64", "sfixed64"} -> 6
    [] t = "double" -> 7 [] t = "float" -> 8
WireJsonGroup(t) == IF IsMsg(t) THEN 13 ELSE IF IsEnum(t) THEN 14 ELSE
  CASE t \in {"int32", "uint32"} -> 1 [] t \in {"int64", "uint64"} -> 2 [] t \in {"fixed32", "sfixed32"} -> 3
    [] t \in {"fixed64", "sfixed64"} -> 4 [] t = "bool" -> 5 [] t = "sint32" -> 6 [] t = "sint64" -> 7
    [] t = "string" -> 8 [] t = "bytes" -> 9 [] t = "double" -> 10 [] t = "float" -> 11
EnumShort(t) == IF t = "enum:E" THEN "E" ELSE "K"
\* (name, number) bindings; only compared between the enums named K.  KSwap.K has every name and every number of the
\* other two, but K_ONE and K_TWO are bound the other way round: a subset by names and by numbers, not by values
EnumVals(t) == CASE t = "enum:KWide.K" -> {<<"K_UNSPECIFIED", 0>>, <<"K_ONE", 1>>, <<"K_TWO", 2>>}
                 [] t = "enum:KSwap.K" -> {<<"K_UNSPECIFIED", 0>>, <<"K_ONE", 2>>, <<"K_TWO", 1>>}
                 [] OTHER -> {<<"K_UNSPECIFIED", 0>>, <<"K_ONE", 1>>}
\* an enum may be swapped for a namesake that has at least the same values (same name bound to the same number)
EnumCompatible(t1, t2) == EnumShort(t1) = EnumShort(t2) /\ EnumVals(t1) \subseteq EnumVals(t2)
WireBreaks(t1, t2) == t1 # t2 /\ IF WireGroup(t1) # WireGroup(t2) THEN ~(t1 = "string" /\ t2 = "bytes")
                      ELSE IF IsEnum(t1) THEN ~EnumCompatible(t1, t2) ELSE IsMsg(t1)
WireJsonBreaks(t1, t2) == t1 # t2 /\ IF WireJsonGroup(t1) # WireJsonGroup(t2) THEN TRUE
                          ELSE IF IsEnum(t1) THEN ~EnumCompatible(t1, t2) ELSE IsMsg(t1)
PuType(v) == IF v \in {"int64:-1", "int64:1"} THEN "int64" ELSE "uint64"
PuDefault(v) == CASE v = "int64:-1" -> "-1" [] v = "uint64:18446744073709551615" -> "18446744073709551615" [] OTHER -> "1"
CardWire(k) == CASE k \in {"implicit", "optional"} -> 1 [] k = "required" -> 2 [] k = "repeated" -> 3
CardWireJson(k) == CardWire(k)

\* ------------------------------------------------------------------ consequences
A(rule, names, at) == [rule |-> rule, names |-> names, at |-> at]
Q(x) == "\"" \o x \o "\""
TypeCons(num, msg, at, t1, t2) ==
  IF t1 = t2 THEN {} ELSE
  {A("FIELD_SAME_TYPE", {Q(num), Q(msg)}, at)}
  \cup (IF WireBreaks(t1, t2) THEN {A("FIELD_WIRE_COMPATIBLE_TYPE", {Q(num), Q(msg)}, at)} ELSE {})
  \cup (IF WireJsonBreaks(t1, t2) THEN {A("FIELD_WIRE_JSON_COMPATIBLE_TYPE", {Q(num), Q(msg)}, at)} ELSE {})
CardCons(num, msg, at, msgAt, k1, k2) ==
  IF k1 = k2 THEN {} ELSE
  {A("FIELD_SAME_CARDINALITY", {Q(num), Q(msg)}, at)}
  \cup (IF CardWire(k1) # CardWire(k2) THEN {A("FIELD_WIRE_COMPATIBLE_CARDINALITY", {Q(num), Q(msg)}, at)} ELSE {})
  \cup (IF CardWireJson(k1) # CardWireJson(k2) THEN {A("FIELD_WIRE_JSON_COMPATIBLE_CARDINALITY", {Q(num), Q(msg)}, at)} ELSE {})
  \cup (IF k1 = "required" THEN {A("MESSAGE_SAME_REQUIRED_FIELDS", {Q(num), Q(msg), "deleted"}, msgAt)} ELSE {})
  \cup (IF k2 = "required" THEN {A("MESSAGE_SAME_REQUIRED_FIELDS", {Q(num), Q(msg), "added"}, at)} ELSE {})
NumRes(v) == v \in {"deleted_num", "deleted_both"}
NameRes(v) == v \in {"deleted_name", "deleted_both"}
Gone(v) == v # "present"
FileOptRule == [
  o_java_package |-> "FILE_SAME_JAVA_PACKAGE", o_java_multiple_files |-> "FILE_SAME_JAVA_MULTIPLE_FILES", o_go_package |-> "FILE_SAME_GO_PACKAGE",
  o_optimize_for |-> "FILE_SAME_OPTIMIZE_FOR", o_csharp_namespace |-> "FILE_SAME_CSHARP_NAMESPACE", o_objc_class_prefix |-> "FILE_SAME_OBJC_CLASS_PREFIX",
  o_php_namespace |-> "FILE_SAME_PHP_NAMESPACE", o_ruby_package |-> "FILE_SAME_RUBY_PACKAGE", o_swift_prefix |-> "FILE_SAME_SWIFT_PREFIX",
  o_cc_enable_arenas |-> "FILE_SAME_CC_ENABLE_ARENAS", o_java_outer_classname |-> "FILE_SAME_JAVA_OUTER_CLASSNAME",
  o_php_class_prefix |-> "FILE_SAME_PHP_CLASS_PREFIX", o_php_metadata_namespace |-> "FILE_SAME_PHP_METADATA_NAMESPACE",
  o_cc_generic_services |-> "FILE_SAME_CC_GENERIC_SERVICES", o_java_generic_services |-> "FILE_SAME_JAVA_GENERIC_SERVICES",
  o_py_generic_services |-> "FILE_SAME_PY_GENERIC_SERVICES" ]

\* a slot is masked when the declaration that carries it is missing on either side
Masked(s, p, c) ==
  \/ s \in {"c_syntax", "c_pkg", "c_msg", "c_enum"} /\ (p.c_file = "absent" \/ c.c_file = "absent")
  \/ s = "q_nsda" /\ (p.q_state = "absent" \/ c.q_state = "absent")
  \/ s = "ec_name" /\ (p.ec_state # "present" \/ c.ec_state # "present")
  \/ s = "b2_home" /\ (p.b2_file = "absent" \/ c.b2_file = "absent")

\* where the message B2 lives
B2Exists(v) == v.b2_home = "a.proto" \/ v.b2_file = "present"

Cons(s, p, c) ==
  LET v1 == p[s]
      v2 == c[s]
      del == v1 = "present" /\ v2 = "absent"
  IN
  IF v1 = v2 \/ Masked(s, p, c) THEN {} ELSE
  CASE s = "a_type" -> TypeCons("1", "M", "a.proto#field:M.1", v1, v2)
    [] s = "n_type" -> TypeCons("2", "M", "a.proto#field:M.2", v1, v2)
    [] s = "k_type" -> TypeCons("10", "M", "a.proto#field:M.10", v1, v2)
    \* the value type of a map is the type of field 2 of the synthetic entry message
    [] s = "mp_val" -> TypeCons("2", "MpEntry", "a.proto#field:M.3", v1, v2)
    [] s = "a_name" -> {A("FIELD_SAME_NAME", {Q("1"), Q("M"), Q(v1), Q(v2)}, "a.proto#field:M.1")}
    [] s = "a_json" -> {A("FIELD_SAME_JSON_NAME", {Q("1"), Q("M")}, "a.proto#field:M.1")}
    [] s = "c_oneof" -> {A("FIELD_SAME_ONEOF", {Q("4"), Q("M")}, "a.proto#field:M.4")}
    [] s = "ph_state" -> {A("FIELD_SAME_ONEOF", {Q("9"), Q("M")}, "a.proto#field:M.9")}
                         \cup (IF v1 = "oneof" THEN {A("ONEOF_NO_DELETE", {Q("p"), Q("M")}, "a.proto#message:M")} ELSE {})
    [] s = "e_card" -> CardCons("6", "M", "a.proto#field:M.6", "a.proto#message:M", v1, v2)
    [] s = "pc_card" -> CardCons("5", "P", "b.proto#field:P.5", "b.proto#message:P", v1, v2)
    [] s = "pr_label" -> CardCons("1", "P", "b.proto#field:P.1", "b.proto#message:P", v1, v2)
    [] s = "p_newreq" -> IF v2 = "present" THEN {A("MESSAGE_SAME_REQUIRED_FIELDS", {Q("P"), Q("30"), "added"}, "b.proto#field:P.30")}
                         ELSE {A("MESSAGE_SAME_REQUIRED_FIELDS", {Q("P"), Q("30"), "deleted"}, "b.proto#message:P"),
                               A("FIELD_NO_DELETE", {Q("30"), Q("P")}, "b.proto#message:P"),
                               A("FIELD_NO_DELETE_UNLESS_NUMBER_RESERVED", {Q("30"), Q("P")}, "b.proto#message:P"),
                               A("FIELD_NO_DELETE_UNLESS_NAME_RESERVED", {Q("30"), Q("P")}, "b.proto#message:P")}
    [] s = "x_state" ->
         (IF v1 = "present" THEN
            {A("FIELD_NO_DELETE", {Q("7"), Q("x"), Q("M")}, "a.proto#message:M")}
            \cup (IF ~NumRes(v2) THEN {A("FIELD_NO_DELETE_UNLESS_NUMBER_RESERVED", {Q("7"), Q("M")}, "a.proto#message:M")} ELSE {})
            \cup (IF ~NameRes(v2) THEN {A("FIELD_NO_DELETE_UNLESS_NAME_RESERVED", {Q("x"), Q("M")}, "a.proto#message:M")} ELSE {})
          ELSE {})
         \cup (IF NumRes(v1) /\ ~NumRes(v2) THEN {A("RESERVED_MESSAGE_NO_DELETE", {Q("M"), "[7]"}, "a.proto#message:M")} ELSE {})
         \cup (IF NameRes(v1) /\ ~NameRes(v2) THEN {A("RESERVED_MESSAGE_NO_DELETE", {Q("M"), Q("x")}, "a.proto#message:M")} ELSE {})
    [] s = "ec_state" ->
         (IF v1 = "present" THEN
            {A("ENUM_VALUE_NO_DELETE", {Q("2"), Q("E")}, "a.proto#enum:E")}
            \cup (IF ~NumRes(v2) THEN {A("ENUM_VALUE_NO_DELETE_UNLESS_NUMBER_RESERVED", {Q("2"), Q("E")}, "a.proto#enum:E")} ELSE {})
            \cup (IF ~(NameRes(v2) /\ p.ec_name = c.ec_name) THEN {A("ENUM_VALUE_NO_DELETE_UNLESS_NAME_RESERVED", {Q("2"), Q("E"), Q(p.ec_name)}, "a.proto#enum:E")} ELSE {})
          ELSE {})
         \cup (IF NumRes(v1) /\ ~NumRes(v2) THEN {A("RESERVED_ENUM_NO_DELETE", {Q("E"), "[2]"}, "a.proto#enum:E")} ELSE {})
         \cup (IF NameRes(v1) /\ ~NameRes(v2) THEN {A("RESERVED_ENUM_NO_DELETE", {Q("E"), Q(p.ec_name)}, "a.proto#enum:E")} ELSE {})
    [] s = "ec_name" -> {A("ENUM_VALUE_SAME_NAME", {Q("2"), Q("E"), Q(v1), Q(v2)}, "a.proto#enumvalue:E.2")}
    [] s = "alias_state" ->
         (IF v1 = "present" THEN
            {A("ENUM_VALUE_NO_DELETE", {Q("1"), Q("E")}, "a.proto#enum:E")}
            \cup (IF v2 # "deleted_num" THEN {A("ENUM_VALUE_NO_DELETE_UNLESS_NUMBER_RESERVED", {Q("1"), Q("E")}, "a.proto#enum:E")} ELSE {})
            \* every name the number had must be reserved
            \cup (IF v2 # "deleted_name_all" THEN {A("ENUM_VALUE_NO_DELETE_UNLESS_NAME_RESERVED", {Q("1"), Q("E"), Q("E_A"), Q("E_B")}, "a.proto#enum:E")} ELSE {})
          ELSE {})
    [] s = "m_res" -> IF del THEN {A("RESERVED_MESSAGE_NO_DELETE", {Q("M"), "[100,110]"}, "a.proto#message:M"),
                                   A("RESERVED_MESSAGE_NO_DELETE", {Q("M"), Q("old")}, "a.proto#message:M")} ELSE {}
    [] s = "e_res" -> IF del THEN {A("RESERVED_ENUM_NO_DELETE", {Q("E"), "[50,59]"}, "a.proto#enum:E"),
                                   A("RESERVED_ENUM_NO_DELETE", {Q("E"), Q("E_OLD")}, "a.proto#enum:E")} ELSE {}
    [] s = "p_extrange" -> IF del THEN {A("EXTENSION_MESSAGE_NO_DELETE", {Q("P"), "[300,310]"}, "b.proto#message:P")} ELSE {}
    [] s = "inner_state" -> IF del THEN {A("MESSAGE_NO_DELETE", {Q("M.Inner")}, "a.proto#message:M"),
                                         A("PACKAGE_MESSAGE_NO_DELETE", {Q("M.Inner"), Q("acme.v1")}, "a.proto#message:M")} ELSE {}
    [] s = "added_nested" -> IF v2 = "absent" THEN {A("MESSAGE_NO_DELETE", {Q("M.AddedNested")}, "a.proto#message:M"),
                                         A("PACKAGE_MESSAGE_NO_DELETE", {Q("M.AddedNested"), Q("acme.v1")}, "a.proto#message:M")} ELSE {}
    [] s = "k2_state" -> IF del THEN {A("ENUM_NO_DELETE", {Q("M.K2")}, "a.proto#message:M"),
                                      A("PACKAGE_ENUM_NO_DELETE", {Q("M.K2"), Q("acme.v1")}, "a.proto#message:M")} ELSE {}
    [] s = "e2_state" -> IF del THEN {A("ENUM_NO_DELETE", {Q("E2")}, "a.proto#file"),
                                      A("PACKAGE_ENUM_NO_DELETE", {Q("E2"), Q("acme.v1")}, "a.proto#file")} ELSE {}
    [] s = "added_enum" -> IF v2 = "absent" THEN {A("ENUM_NO_DELETE", {Q("AddedEnum")}, "a.proto#file"),
                                      A("PACKAGE_ENUM_NO_DELETE", {Q("AddedEnum"), Q("acme.v1")}, "a.proto#file")} ELSE {}
    [] s = "added_msg" -> IF v2 = "absent" THEN {A("MESSAGE_NO_DELETE", {Q("AddedMsg")}, "a.proto#file"),
                                      A("PACKAGE_MESSAGE_NO_DELETE", {Q("AddedMsg"), Q("acme.v1")}, "a.proto#file")} ELSE {}
    [] s = "q_state" -> IF del THEN {A("MESSAGE_NO_DELETE", {Q("Q")}, "b.proto#file"),
                                     A("PACKAGE_MESSAGE_NO_DELETE", {Q("Q"), Q("acme.v1")}, "b.proto#file")} ELSE {}
    [] s = "q_nsda" -> IF v2 = "true" THEN {A("MESSAGE_NO_REMOVE_STANDARD_DESCRIPTOR_ACCESSOR", {"no_standard_descriptor_accessor"}, "b.proto#option:Q.nsda")} ELSE {}
    [] s = "z_state" -> IF v2 = "absent" THEN {A("FIELD_NO_DELETE", {Q("20"), Q("M")}, "a.proto#message:M"),
                                               A("FIELD_NO_DELETE_UNLESS_NUMBER_RESERVED", {Q("20"), Q("M")}, "a.proto#message:M"),
                                               A("FIELD_NO_DELETE_UNLESS_NAME_RESERVED", {Q("z"), Q("M")}, "a.proto#message:M")} ELSE {}
    [] s = "added_oneof" -> IF v2 = "absent" THEN {A("ONEOF_NO_DELETE", {Q("added"), Q("M")}, "a.proto#message:M"),
                                                   A("FIELD_NO_DELETE", {Q("21"), Q("M")}, "a.proto#message:M")} ELSE {}
    [] s = "m_res_new" -> IF v2 = "absent" THEN {A("RESERVED_MESSAGE_NO_DELETE", {Q("M"), "[300]"}, "a.proto#message:M")} ELSE {}
    [] s = "e_new" -> IF v2 = "absent" THEN {A("ENUM_VALUE_NO_DELETE", {Q("9"), Q("E")}, "a.proto#enum:E"),
                                             A("ENUM_VALUE_NO_DELETE_UNLESS_NUMBER_RESERVED", {Q("9"), Q("E")}, "a.proto#enum:E"),
                                             A("ENUM_VALUE_NO_DELETE_UNLESS_NAME_RESERVED", {Q("9"), Q("E")}, "a.proto#enum:E")} ELSE {}
    [] s = "r_req" -> {A("RPC_SAME_REQUEST_TYPE", {Q("R"), Q("S")}, "a.proto#rpc:S.R")}
    [] s = "r_resp" -> {A("RPC_SAME_RESPONSE_TYPE", {Q("R"), Q("S")}, "a.proto#rpc:S.R")}
    [] s = "r_cs" -> {A("RPC_SAME_CLIENT_STREAMING", {Q("R"), Q("S")}, "a.proto#rpc:S.R")}
    [] s = "r_ss" -> {A("RPC_SAME_SERVER_STREAMING", {Q("R"), Q("S")}, "a.proto#rpc:S.R")}
    [] s = "r_idem" -> {A("RPC_SAME_IDEMPOTENCY_LEVEL", {Q("R"), Q("S")}, "a.proto#rpc:S.R")}
    [] s = "r2_state" -> IF del THEN {A("RPC_NO_DELETE", {Q("R2"), Q("S")}, "a.proto#service:S")} ELSE {}
    [] s = "r3_state" -> IF v2 = "absent" THEN {A("RPC_NO_DELETE", {Q("R3"), Q("S")}, "a.proto#service:S")} ELSE {}
    [] s = "s2_state" -> IF del THEN {A("SERVICE_NO_DELETE", {Q("S2")}, "a.proto#file"),
                                      A("PACKAGE_SERVICE_NO_DELETE", {Q("S2"), Q("acme.v1")}, "a.proto#file")} ELSE {}
    [] s = "s3_state" -> IF v2 = "absent" THEN {A("SERVICE_NO_DELETE", {Q("S3")}, "a.proto#file"),
                                      A("PACKAGE_SERVICE_NO_DELETE", {Q("S3"), Q("acme.v1")}, "a.proto#file")} ELSE {}
    [] s = "ext_state" -> IF del THEN {A("EXTENSION_NO_DELETE", {Q("ext")}, "b.proto#file"),
                                       A("PACKAGE_EXTENSION_NO_DELETE", {Q("ext"), Q("acme.v1")}, "b.proto#file")} ELSE {}
    [] s \in DOMAIN FileOptRule -> {A(FileOptRule[s], {}, "a.proto#option:" \o s)}
    [] s = "pf_default" -> {A("FIELD_SAME_DEFAULT", {Q("2"), Q("P")}, "b.proto#field:P.2")}
    [] s = "ps_default" -> {A("FIELD_SAME_DEFAULT", {Q("3"), Q("P")}, "b.proto#field:P.3")}
    [] s = "pbig_js" -> {A("FIELD_SAME_JSTYPE", {Q("4"), Q("P"), "jstype"}, "b.proto#field:P.4")}
    \* B2 moves between two files of one package: gone from its file, still in its package
    [] s = "b2_home" -> {A("MESSAGE_NO_DELETE", {Q("B2")}, v1 \o "#file")}
    [] s = "b2_file" -> IF del THEN
                          {A("FILE_NO_DELETE", {Q("b2.proto")}, "none"),
                           A("PACKAGE_MESSAGE_NO_DELETE", {Q("B2Other"), Q("acme.v1")}, "none")}
                          \cup (IF p.b2_home = "b2.proto" /\ c.b2_home = "b2.proto"
                                THEN {A("PACKAGE_MESSAGE_NO_DELETE", {Q("B2"), Q("acme.v1")}, "none")} ELSE {})
                        ELSE {}
    [] s = "c_syntax" -> IF NormSyntax(v1) = NormSyntax(v2) THEN {}
                         ELSE {A("FILE_SAME_SYNTAX", {Q(NormSyntax(v1)), Q(NormSyntax(v2))}, IF v2 = "unspecified" THEN "c.proto#file" ELSE "c.proto#syntax")}
    [] s = "pu" -> TypeCons("6", "P", "b.proto#field:P.6", PuType(v1), PuType(v2))
                   \cup (IF PuDefault(v1) # PuDefault(v2) THEN {A("FIELD_SAME_DEFAULT", {Q("6"), Q("P")}, "b.proto#field:P.6")} ELSE {})
    \* one annotation per filler file; the harness expands the anchor over all of them
    [] s = "fillers" -> IF v1 = "present" /\ v2 = "edited"
                        THEN {A("FIELD_NO_DELETE", {Q("2"), Q("F")}, "EACH-FILLER#message:F"),
                              A("FIELD_NO_DELETE_UNLESS_NUMBER_RESERVED", {Q("2"), Q("F")}, "EACH-FILLER#message:F"),
                              A("FIELD_NO_DELETE_UNLESS_NAME_RESERVED", {Q("gone"), Q("F")}, "EACH-FILLER#message:F")}
                        ELSE {}
    [] s = "c_pkg" -> {A("FILE_SAME_PACKAGE", {Q(v1), Q(v2)}, "c.proto#package"),
                       A("PACKAGE_NO_DELETE", {Q(v1)}, "none")}
    \* the package keeps existing; it merely has no message / no enum any more
    [] s = "c_msg" -> IF del THEN {A("MESSAGE_NO_DELETE", {Q("O")}, "c.proto#file")}
                                  \cup (IF p.c_pkg = c.c_pkg THEN {A("PACKAGE_MESSAGE_NO_DELETE", {Q("O"), Q(p.c_pkg)}, "c.proto#file")} ELSE {}) ELSE {}
    [] s = "c_enum" -> IF del THEN {A("ENUM_NO_DELETE", {Q("OnlyEnum")}, "c.proto#file")}
                                   \cup (IF p.c_pkg = c.c_pkg THEN {A("PACKAGE_ENUM_NO_DELETE", {Q("OnlyEnum"), Q(p.c_pkg)}, "c.proto#file")} ELSE {}) ELSE {}
    [] s = "c_file" -> IF del THEN {A("FILE_NO_DELETE", {Q("c.proto")}, "none"), A("PACKAGE_NO_DELETE", {Q(p.c_pkg)}, "none")} ELSE {}
    [] s = "d_file" -> IF v2 = "absent" THEN {A("FILE_NO_DELETE", {Q("d.proto")}, "none"),
                                              A("PACKAGE_MESSAGE_NO_DELETE", {Q("D"), Q("acme.v1")}, "none")} ELSE {}
    [] OTHER -> {}

Expected(p, c) == UNION {Cons(s, p, c) : s \in Slots}

\* ------------------------------------------------------------------ histories
VARIABLES hist,      \* sequence of versions, oldest first
          varied,    \* the slot in which the first version differs from the base, or "none"
          nbreak     \* edits so far that were not additive / cosmetic
vars == <<hist, varied, nbreak>>

Last == hist[Len(hist)]
Init == /\ nbreak = 0
        /\ \/ varied = "none" /\ hist = <<Base>>
           \/ VaryBase /\ \E s \in Slots : \E v \in Vals(s) \ {Base[s]} : varied = s /\ hist = <<[Base EXCEPT ![s] = v]>>
Edit(s, v) ==
  /\ Len(hist) < MaxLen
  /\ v # Last[s]
  \* a varied history explores the value pairs of one slot: one further edit, of that slot
  /\ (varied # "none" => (s = varied /\ Len(hist) = 1))
  /\ LET compat == CompatStep(s, Last[s], v) IN
     /\ (~compat => nbreak < MaxBreaking)
     /\ nbreak' = IF compat THEN nbreak ELSE nbreak + 1
  /\ hist' = Append(hist, [Last EXCEPT ![s] = v])
  /\ UNCHANGED varied
Next == \E s \in Slots : \E v \in Vals(s) : Edit(s, v)
Spec == Init /\ [][Next]_vars

\* ------------------------------------------------------------------ laws of the specification itself
TypeOK == /\ \A i \in 1..Len(hist) : \A s \in Slots : hist[i][s] \in Vals(s)
          /\ nbreak <= MaxBreaking
\* additive / cosmetic steps promise no annotation
CompatibleExpectsNothing == \A i \in 1..Len(hist) : Compatible(hist[i], Last) => Expected(hist[i], Last) = {}
\* every expected rule exists in the newest configuration version
ExpectedRulesExist == \A i \in 1..Len(hist) : \A e \in Expected(hist[i], Last) : CatsOf("v2", e.rule) # {}
\* the documented tables are nested: what WIRE reports for a type change, WIRE_JSON reports, and FILE reports everything
TablesNested == \A t1, t2 \in {Scalars[i] : i \in 1..Len(Scalars)} \cup {"msg:M.N", "msg:M.N2", "enum:M.K", "enum:KWide.K", "enum:E", "enum:KSwap.K"} :
                   (WireBreaks(t1, t2) => WireJsonBreaks(t1, t2)) /\ (WireJsonBreaks(t1, t2) => t1 # t2)
\* category nesting of the membership tables for the rules that replace each other
CategoryNesting == \A v \in {"v1beta1", "v1", "v2"} :
   /\ \A p \in RuleCats(v) : ("WIRE" \in p[2] /\ p[1] \notin {"FIELD_WIRE_COMPATIBLE_TYPE", "FIELD_WIRE_COMPATIBLE_CARDINALITY"}) => "WIRE_JSON" \in p[2]
   /\ \A p \in RuleCats(v) : ("PACKAGE" \in p[2] /\ p[1] \notin {"PACKAGE_ENUM_NO_DELETE", "PACKAGE_EXTENSION_NO_DELETE", "PACKAGE_MESSAGE_NO_DELETE", "PACKAGE_NO_DELETE", "PACKAGE_SERVICE_NO_DELETE"}) => "FILE" \in p[2]

Delta(v) == {<<s, v[s]>> : s \in {t \in Slots : v[t] # Base[t]}}
Versions == {"v1beta1", "v1", "v2"}
Exp(p, c) == {[rule |-> e.rule, names |-> e.names, at |-> e.at, cats |-> [v \in Versions |-> CatsOf(v, e.rule)]] : e \in Expected(p, c)}
EmitCase == Emit => PrintT(<<"CASE", ToJson(
   [cur |-> Delta(Last),
    pairs |-> [i \in 1..(Len(hist) - 1) |-> [prev |-> Delta(hist[i]), compatible |-> Compatible(hist[i], Last), expected |-> Exp(hist[i], Last)]]])>>)
=============================================================================

SPECIFICATION Spec
CONSTANTS
  MaxLen = 3
  MaxBreaking = 1
  VaryBase = TRUE
  Emit = FALSE
INVARIANTS TypeOK CompatibleExpectsNothing ExpectedRulesExist TablesNested CategoryNesting EmitCase
CHECK_DEADLOCK FALSE

--------------------------------- MODULE Lint ---------------------------------
(* C05: lint reports exactly the style violations that are present.           *)
(*                                                                           *)
(* A workspace is a valuation of slots over a fixed skeleton of six files    *)
(* that is clean by construction for every category.  Planting a violation   *)
(* is an edit of one slot.  Expected(w) is the exact set of annotations      *)
(* (rule, anchor) the documentation promises for the workspace w under the   *)
(* rule options o; the harness requires, for every configuration version and *)
(* every category (and the single-rule configurations), the real result to   *)
(* be exactly the expected annotations whose rule belongs to the category,   *)
(* at the anchor's file, line and column.                                     *)
EXTENDS Naturals, Sequences, FiniteSets, TLC, Json, LintTables

CONSTANTS MaxPlants,   \* planted violations outside the RPC signature block
          MaxRpc,      \* deviations inside the RPC signature block (request / response types, allow_* options)
          Emit

YesNo == <<"no", "yes">>
Comment == <<"line", "block", "none", "empty", "trailing">>
Dom == [
  \* declarations of acme/weather/v1/weather.proto
  msg_name |-> <<"Forecast", "forecast_bad", "forecastBad", "Forecast2day">>,
  nested_msg_name |-> <<"Detail", "detail_bad">>,
  field_name |-> <<"city_name", "CityName", "cityName">>,
  nested_field_name |-> <<"note", "NoteBad">>,
  oneof_name |-> <<"choice", "BadChoice">>,
  enum_name |-> <<"Kind", "kind">>,
  nested_enum_name |-> <<"Level", "level">>,
  value_name |-> <<"KIND_RAIN", "RAIN", "KIND_rain">>,
  nested_value_name |-> <<"LEVEL_HIGH", "HIGH">>,
  zero_name |-> <<"KIND_UNSPECIFIED", "KIND_UNKNOWN", "KIND_NONE">>,
  svc_name |-> <<"WeatherService", "WeatherAPI", "Weather", "weather_service">>,
  rpc_name |-> <<"GetForecast", "get_forecast">>,
  rpc_cs |-> <<"unary", "stream">>, rpc_ss |-> <<"unary", "stream">>,
  \* comments of weather.proto
  c_msg |-> Comment, c_nested_msg |-> Comment, c_field |-> Comment, c_nested_field |-> Comment, c_enum |-> Comment,
  c_nested_enum |-> Comment, c_value |-> Comment, c_oneof |-> Comment, c_svc |-> Comment, c_rpc |-> Comment,
  \* imports of weather.proto
  import_unused |-> YesNo, import_public |-> YesNo, cycle |-> YesNo,
  \* the value java_multiple_files has in weather.proto (it is set either way; "same" / "different" / "absent" of the
  \* second file are relative to it: an explicit false next to an unset option differs as much as true does)
  weather_jmf |-> <<"true", "false">>,
  \* the second file of the package: acme/weather/v1/types.proto
  types_loc |-> <<"acme/weather/v1/types.proto", "acme/weather/types.proto">>,
  types_pkg |-> <<"acme.weather.v1", "acme.climate.v1">>,
  types_java_package |-> <<"same", "different", "absent">>, types_go_package |-> <<"same", "different", "absent">>,
  types_java_multiple_files |-> <<"same", "different", "absent">>, types_csharp_namespace |-> <<"same", "different", "absent">>,
  types_php_namespace |-> <<"same", "different", "absent">>, types_ruby_package |-> <<"same", "different", "absent">>,
  types_swift_prefix |-> <<"same", "different", "absent">>,
  \* acme/misc/v1/misc.proto
  misc_syntax |-> <<"proto3", "absent">>,
  misc_pkg |-> <<"acme.misc.v1", "", "acme.misc", "acme.Misc.v1", "acme.other.v1", "acme.misc.v1gamma", "acme.misc.v0", "acme.misc.v1p1", "acme.misc.v1p1beta">>,
  misc_filename |-> <<"misc.proto", "MiscFile.proto">>,
  \* acme/legacy/v1/legacy.proto (proto2)
  legacy_required |-> YesNo, legacy_ext_name |-> <<"ext_name", "ExtName">>, legacy_first_value |-> <<"zero", "one">>,
  legacy_alias |-> YesNo, legacy_nested_ext_name |-> <<"inner_ext", "InnerExt">>,
  \* zeta/last/v1/last.proto, the last file in path order, and 130 more clean files
  last_msg_name |-> <<"Last", "last_bad">>, last_c_msg |-> Comment,
  many_files |-> YesNo,
  \* rule options
  opt_service_suffix |-> <<"default", "API">>, opt_zero_suffix |-> <<"default", "_UNKNOWN">>,
  \* RPC signature block
  get_req |-> <<"GetForecastRequest", "Forecast", "Empty">>, get_resp |-> <<"GetForecastResponse", "Empty", "GetForecastRequest">>,
  list_req |-> <<"ListForecastsRequest", "Empty", "GetForecastRequest">>, list_resp |-> <<"ListForecastsResponse", "Empty">>,
  ping_req |-> <<"PingRequest", "Empty", "Holder.PingRequest">>, ping_resp |-> <<"PingResponse", "Empty">>,
  allow_same |-> YesNo, allow_empty_req |-> YesNo, allow_empty_resp |-> YesNo ]
Slots == DOMAIN Dom
Vals(s) == {Dom[s][i] : i \in 1..Len(Dom[s])}
Base == [s \in Slots |-> Dom[s][1]]
ASSUME Emit => PrintT(<<"BASE", ToJson(Base)>>)
ASSUME Emit => PrintT(<<"CATS", ToJson([v \in {"v1beta1", "v1", "v2"} |-> LintCategories(v)])>>)
RpcSlots == {"get_req", "get_resp", "list_req", "list_resp", "ping_req", "ping_resp", "allow_same", "allow_empty_req", "allow_empty_resp"}
OptionSlots == {"opt_service_suffix", "opt_zero_suffix"}

\* ------------------------------------------------------------------ expected annotations
A(rule, at) == [rule |-> rule, at |-> at]
BadComment(v) == v \in {"none", "empty", "trailing"}
\* (a digit inside a name does not start a new word: Forecast2day is PascalCase)
PascalOK(n) == n \in {"Forecast", "Detail", "Kind", "Level", "WeatherService", "WeatherAPI", "Weather", "GetForecast", "Last", "Forecast2day"}
SnakeOK(n) == n \in {"city_name", "note", "choice", "ext_name", "inner_ext"}
ServiceSuffix(w) == IF w.opt_service_suffix = "default" THEN "Service" ELSE "API"
ServiceSuffixed(n, suf) == <<n, suf>> \in {<<"WeatherService", "Service">>, <<"WeatherAPI", "API">>}
ZeroSuffixed(n, o) == <<n, o>> \in {<<"KIND_UNSPECIFIED", "default">>, <<"KIND_UNKNOWN", "_UNKNOWN">>}

\* -- the RPC signature rules, transcribed
Methods == {"get", "list", "ping"}
In(w, m) == CASE m = "get" -> w.get_req [] m = "list" -> w.list_req [] m = "ping" -> w.ping_req
Out(w, m) == CASE m = "get" -> w.get_resp [] m = "list" -> w.list_resp [] m = "ping" -> w.ping_resp
StdReq(m) == CASE m = "get" -> "GetForecastRequest" [] m = "list" -> "ListForecastsRequest" [] m = "ping" -> "PingRequest"
StdResp(m) == CASE m = "get" -> "GetForecastResponse" [] m = "list" -> "ListForecastsResponse" [] m = "ping" -> "PingResponse"
\* a request type is judged by its own name: "Holder.PingRequest" is the message PingRequest nested in the message Holder
Short(t) == IF t = "Holder.PingRequest" THEN "PingRequest" ELSE t
AllowReq(w) == w.allow_empty_req = "yes"
AllowResp(w) == w.allow_empty_resp = "yes"
Users(w, t) == {m \in Methods : In(w, m) = t \/ Out(w, m) = t}
TypesUsed(w) == {In(w, m) : m \in Methods} \cup {Out(w, m) : m \in Methods}
SameReqResp(w) == {m \in Methods : /\ w.allow_same = "no" /\ In(w, m) = Out(w, m)
                                   /\ ~(In(w, m) = "Empty" /\ AllowReq(w) /\ AllowResp(w))}
SharedType(w) ==
  UNION {
    IF Cardinality(Users(w, t)) <= 1 THEN {}
    ELSE IF t = "Empty" /\ (AllowReq(w) \/ AllowResp(w)) THEN
           IF AllowReq(w) /\ AllowResp(w) THEN {}
           ELSE LET reqs == {m \in Methods : In(w, m) = "Empty"}
                    resps == {m \in Methods : Out(w, m) = "Empty"}
                IN (IF ~AllowReq(w) /\ Cardinality(reqs) > 1 THEN reqs ELSE {})
                   \cup (IF ~AllowResp(w) /\ Cardinality(resps) > 1 THEN resps ELSE {})
         ELSE Users(w, t)
    : t \in TypesUsed(w)}
RpcCons(w) ==
  {A("RPC_REQUEST_RESPONSE_UNIQUE", "weather#rpc:" \o m \o "@decl") : m \in SameReqResp(w) \cup SharedType(w)}
  \cup {A("RPC_REQUEST_STANDARD_NAME", "weather#rpc:" \o m \o "@req") :
          m \in {x \in Methods : ~(AllowReq(w) /\ In(w, x) = "Empty") /\ Short(In(w, x)) # StdReq(x)}}
  \cup {A("RPC_RESPONSE_STANDARD_NAME", "weather#rpc:" \o m \o "@resp") :
          m \in {x \in Methods : ~(AllowResp(w) /\ Out(w, x) = "Empty") /\ Out(w, x) # StdResp(x)}}

PkgOptRule == [types_java_package |-> "PACKAGE_SAME_JAVA_PACKAGE", types_go_package |-> "PACKAGE_SAME_GO_PACKAGE",
               types_java_multiple_files |-> "PACKAGE_SAME_JAVA_MULTIPLE_FILES", types_csharp_namespace |-> "PACKAGE_SAME_CSHARP_NAMESPACE",
               types_php_namespace |-> "PACKAGE_SAME_PHP_NAMESPACE", types_ruby_package |-> "PACKAGE_SAME_RUBY_PACKAGE",
               types_swift_prefix |-> "PACKAGE_SAME_SWIFT_PREFIX"]
\* the two files are one package only while types.proto keeps the package name
SamePackage(w) == w.types_pkg = "acme.weather.v1"

SlotCons(s, w) ==
  LET v == w[s] IN
  CASE s = "msg_name" -> IF PascalOK(v) THEN {} ELSE {A("MESSAGE_PASCAL_CASE", "weather#msg@name")}
    [] s = "nested_msg_name" -> IF PascalOK(v) THEN {} ELSE {A("MESSAGE_PASCAL_CASE", "weather#nestedmsg@name")}
    [] s = "last_msg_name" -> IF PascalOK(v) THEN {} ELSE {A("MESSAGE_PASCAL_CASE", "last#msg@name")}
    [] s = "field_name" -> IF SnakeOK(v) THEN {} ELSE {A("FIELD_LOWER_SNAKE_CASE", "weather#field@name")}
    [] s = "nested_field_name" -> IF SnakeOK(v) THEN {} ELSE {A("FIELD_LOWER_SNAKE_CASE", "weather#nestedfield@name")}
    [] s = "legacy_ext_name" -> IF SnakeOK(v) THEN {} ELSE {A("FIELD_LOWER_SNAKE_CASE", "legacy#ext@name")}
    [] s = "legacy_nested_ext_name" -> IF SnakeOK(v) THEN {} ELSE {A("FIELD_LOWER_SNAKE_CASE", "legacy#nestedext@name")}
    [] s = "oneof_name" -> IF SnakeOK(v) THEN {} ELSE {A("ONEOF_LOWER_SNAKE_CASE", "weather#oneof@name")}
    [] s = "enum_name" -> IF PascalOK(v) THEN {} ELSE {A("ENUM_PASCAL_CASE", "weather#enum@name")}
    [] s = "nested_enum_name" -> IF PascalOK(v) THEN {} ELSE {A("ENUM_PASCAL_CASE", "weather#nestedenum@name")}
    [] s = "value_name" -> CASE v = "RAIN" -> {A("ENUM_VALUE_PREFIX", "weather#value@name")}
                             [] v = "KIND_rain" -> {A("ENUM_VALUE_UPPER_SNAKE_CASE", "weather#value@name")}
                             [] OTHER -> {}
    [] s = "nested_value_name" -> IF v = "HIGH" THEN {A("ENUM_VALUE_PREFIX", "weather#nestedvalue@name")} ELSE {}
    [] s = "zero_name" -> IF ZeroSuffixed(v, w.opt_zero_suffix) THEN {} ELSE {A("ENUM_ZERO_VALUE_SUFFIX", "weather#zero@name")}
    [] s = "svc_name" -> (IF PascalOK(v) THEN {} ELSE {A("SERVICE_PASCAL_CASE", "weather#svc@name")})
                         \cup (IF ServiceSuffixed(v, ServiceSuffix(w)) THEN {} ELSE {A("SERVICE_SUFFIX", "weather#svc@name")})
    [] s = "rpc_name" -> IF PascalOK(v) THEN {} ELSE {A("RPC_PASCAL_CASE", "weather#rpc:get@name")}
    [] s = "rpc_cs" -> IF v = "stream" THEN {A("RPC_NO_CLIENT_STREAMING", "weather#rpc:get@decl")} ELSE {}
    [] s = "rpc_ss" -> IF v = "stream" THEN {A("RPC_NO_SERVER_STREAMING", "weather#rpc:get@decl")} ELSE {}
    [] s = "c_msg" -> IF BadComment(v) THEN {A("COMMENT_MESSAGE", "weather#msg@decl")} ELSE {}
    [] s = "last_c_msg" -> IF BadComment(v) THEN {A("COMMENT_MESSAGE", "last#msg@decl")} ELSE {}
    [] s = "c_nested_msg" -> IF BadComment(v) THEN {A("COMMENT_MESSAGE", "weather#nestedmsg@decl")} ELSE {}
    [] s = "c_field" -> IF BadComment(v) THEN {A("COMMENT_FIELD", "weather#field@decl")} ELSE {}
    [] s = "c_nested_field" -> IF BadComment(v) THEN {A("COMMENT_FIELD", "weather#nestedfield@decl")} ELSE {}
    [] s = "c_enum" -> IF BadComment(v) THEN {A("COMMENT_ENUM", "weather#enum@decl")} ELSE {}
    [] s = "c_nested_enum" -> IF BadComment(v) THEN {A("COMMENT_ENUM", "weather#nestedenum@decl")} ELSE {}
    [] s = "c_value" -> IF BadComment(v) THEN {A("COMMENT_ENUM_VALUE", "weather#value@decl")} ELSE {}
    [] s = "c_oneof" -> IF BadComment(v) THEN {A("COMMENT_ONEOF", "weather#oneof@decl")} ELSE {}
    [] s = "c_svc" -> IF BadComment(v) THEN {A("COMMENT_SERVICE", "weather#svc@decl")} ELSE {}
    [] s = "c_rpc" -> IF BadComment(v) THEN {A("COMMENT_RPC", "weather#rpc:get@decl")} ELSE {}
    [] s = "import_unused" -> IF v = "yes" THEN {A("IMPORT_USED", "weather#import:legacy@decl")} ELSE {}
    [] s = "import_public" -> IF v = "yes" THEN {A("IMPORT_NO_PUBLIC", "weather#import:types@decl")} ELSE {}
    \* weather.proto (acme.weather.v1) imports misc.proto (acme.misc.v1) and misc2.proto (acme.misc.v1) imports types.proto
    [] s = "cycle" -> IF v = "yes" /\ SamePackage(w) /\ w.misc_pkg = "acme.misc.v1"
                      THEN {A("PACKAGE_NO_IMPORT_CYCLE", "weather#import:misc@decl"), A("PACKAGE_NO_IMPORT_CYCLE", "misc2#import:types@decl")} ELSE {}
    [] s = "types_loc" -> IF v # "acme/weather/v1/types.proto"
                          THEN {A("PACKAGE_DIRECTORY_MATCH", "types#package@decl")}
                               \cup (IF SamePackage(w) THEN {A("PACKAGE_SAME_DIRECTORY", "types#package@decl"), A("PACKAGE_SAME_DIRECTORY", "weather#package@decl")} ELSE {})
                          ELSE {}
    [] s = "types_pkg" -> IF SamePackage(w) THEN {}
                          ELSE (IF w.types_loc = "acme/weather/v1/types.proto"
                                THEN {A("PACKAGE_DIRECTORY_MATCH", "types#package@decl"),
                                      A("DIRECTORY_SAME_PACKAGE", "types#package@decl"), A("DIRECTORY_SAME_PACKAGE", "weather#package@decl")}
                                ELSE {})
    [] s \in DOMAIN PkgOptRule ->
         IF v = "same" \/ ~SamePackage(w) THEN {}
         ELSE {A(PkgOptRule[s], "weather#option:" \o s \o "@decl"),
               A(PkgOptRule[s], IF v = "absent" THEN "types#file" ELSE "types#option:" \o s \o "@decl")}
    [] s = "misc_syntax" -> IF v = "absent" THEN {A("SYNTAX_SPECIFIED", "misc#file")} ELSE {}
    [] s = "misc_pkg" ->
         CASE v = "" -> {A("PACKAGE_DEFINED", "misc#file")}
           [] v = "acme.misc" -> {A("PACKAGE_VERSION_SUFFIX", "misc#package@decl"), A("PACKAGE_DIRECTORY_MATCH", "misc#package@decl")}
           [] v = "acme.Misc.v1" -> {A("PACKAGE_LOWER_SNAKE_CASE", "misc#package@decl"), A("PACKAGE_DIRECTORY_MATCH", "misc#package@decl")}
           [] v = "acme.other.v1" -> {A("PACKAGE_DIRECTORY_MATCH", "misc#package@decl")}
           \* v<major>(alpha|beta)<minor optional> and v<major>test... are versions; v1gamma and v0 are not; a patch
           \* number (v1p1) only exists on an alpha / beta version (v1p1beta is one, v1p1 is not)
           [] v \in {"acme.misc.v1gamma", "acme.misc.v0", "acme.misc.v1p1"} -> {A("PACKAGE_VERSION_SUFFIX", "misc#package@decl"), A("PACKAGE_DIRECTORY_MATCH", "misc#package@decl")}
           [] v = "acme.misc.v1p1beta" -> {A("PACKAGE_DIRECTORY_MATCH", "misc#package@decl")}
           [] OTHER -> {}
    [] s = "misc_filename" -> IF v # "misc.proto" THEN {A("FILE_LOWER_SNAKE_CASE", "misc#file")} ELSE {}
    [] s = "legacy_required" -> IF v = "yes" THEN {A("FIELD_NOT_REQUIRED", "legacy#required@name")} ELSE {}
    [] s = "legacy_first_value" -> IF v = "one" THEN {A("ENUM_FIRST_VALUE_ZERO", "legacy#first@number")} ELSE {}
    [] s = "legacy_alias" -> IF v = "yes" THEN {A("ENUM_NO_ALLOW_ALIAS", "legacy#alias@decl")} ELSE {}
    [] OTHER -> {}

\* when misc.proto changes its package while the cycle files exist, misc.proto and misc2.proto share a directory
CrossCons(w) ==
  IF w.cycle = "yes" /\ w.misc_pkg # "acme.misc.v1"
  THEN {A("DIRECTORY_SAME_PACKAGE", "misc2#package@decl"),
        A("DIRECTORY_SAME_PACKAGE", IF w.misc_pkg = "" THEN "misc#file" ELSE "misc#package@decl")}
  ELSE {}
\* a custom zero value suffix judges every enum of the workspace, not only the planted one
OtherZeros(w) == IF w.opt_zero_suffix = "default" THEN {}
                 ELSE {A("ENUM_ZERO_VALUE_SUFFIX", x) : x \in {"weather#nestedzero@name", "types#zero@name", "legacy#zero@name"}}
Expected(w) == UNION {SlotCons(s, w) : s \in Slots} \cup RpcCons(w) \cup CrossCons(w) \cup OtherZeros(w)

\* ------------------------------------------------------------------ planting
VARIABLES ws, nplant, nrpc
vars == <<ws, nplant, nrpc>>
Init == ws = Base /\ nplant = 0 /\ nrpc = 0
Plant(s, v) ==
  /\ ws[s] = Base[s] /\ v # Base[s]
  /\ IF s \in RpcSlots
     THEN nrpc < MaxRpc /\ nplant = 0 /\ nrpc' = nrpc + 1 /\ nplant' = nplant
     ELSE nplant < MaxPlants /\ nrpc = 0 /\ nplant' = nplant + 1 /\ nrpc' = nrpc
  \* the 130 extra files ride along with one planted violation only
  /\ (s = "many_files" => nplant = 0)
  /\ ws' = [ws EXCEPT ![s] = v]
Next == \E s \in Slots : \E v \in Vals(s) : Plant(s, v)
Spec == Init /\ [][Next]_vars

\* ------------------------------------------------------------------ laws of the specification
TypeOK == \A s \in Slots : ws[s] \in Vals(s)
CleanByConstruction == (ws = Base) => Expected(ws) = {}
ExpectedRulesExist == \A e \in Expected(ws) : LintCatsOf("v2", e.rule) # {}
\* with both allow_empty options, google.protobuf.Empty never produces a uniqueness annotation by itself
BothAllowedEmptyIsFree == (AllowReq(ws) /\ AllowResp(ws) /\ \A m \in Methods : In(ws, m) \in {StdReq(m), "Empty"} /\ Out(ws, m) \in {StdResp(m), "Empty"})
                            => ~\E e \in Expected(ws) : e.rule = "RPC_REQUEST_RESPONSE_UNIQUE"

Delta(v) == {<<s, v[s]>> : s \in {t \in Slots : v[t] # Base[t]}}
Versions == {"v1beta1", "v1", "v2"}
EmitCase == Emit => PrintT(<<"CASE", ToJson(
   [w |-> Delta(ws),
    expected |-> {[rule |-> e.rule, at |-> e.at, cats |-> [v \in Versions |-> LintCatsOf(v, e.rule)]] : e \in Expected(ws)}])>>)
=============================================================================

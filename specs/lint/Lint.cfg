SPECIFICATION Spec
CONSTANTS
  MaxPlants = 2
  MaxRpc = 9
  Emit = FALSE
INVARIANTS TypeOK CleanByConstruction ExpectedRulesExist BothAllowedEmptyIsFree EmitCase
CHECK_DEADLOCK FALSE

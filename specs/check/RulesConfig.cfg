SPECIFICATION Spec
INVARIANTS CategoryNesting BreakingNesting ReplacementsExist ImportsNeverReportedByLint LookAlikeIgnoresNothing EmitCase
CHECK_DEADLOCK FALSE

---------------------------- MODULE RulesConfig ----------------------------
(* C06: rule selection and suppression compose set-theoretically.            *)
(*                                                                           *)
(* RuleTables.tla is generated from the code under test on every run: the    *)
(* rule IDs, categories, default bits and deprecations of every config       *)
(* version.  Selected transcribes newRulesConfig (use/except, categories,    *)
(* deprecated IDs -> replacements); Reported says which of the annotations   *)
(* that the selected rules produce on their own survive ignore, ignore_only, *)
(* comment ignores and the import rule.  Annotations are abstracted to       *)
(* (rule, file, inside-a-commented-element).                                 *)
EXTENDS Naturals, Sequences, FiniteSets, TLC, Json, RuleTables

CONSTANTS Kinds,      \* e.g. {"lint-v2", "breaking-v1"}
          MaxUse, Emit

IsPrefixSeq(a, b) == Len(a) <= Len(b) /\ SubSeq(b, 1, Len(a)) = a
\* files of the fixed images: three targets and one file that is only an import
\* s1 / s2: two files of one package in different directories; a message moves from s2 (previous) to s1
\* (current), so a breaking annotation on it has its location in s1 and its against-location in s2
FilePath == [x |-> <<"dira", "x.proto">>, y |-> <<"dira", "sub", "y.proto">>, z |-> <<"dirb", "z.proto">>, imp |-> <<"imp", "i.proto">>,
             \* imp2: a second import-only file; it declares the package of x (with another java_package, in another directory)
             imp2 |-> <<"imp", "j.proto">>,
             s1 |-> <<"dira", "s1.proto">>, s2 |-> <<"dirb", "s2.proto">>]
AgainstOf(f) == IF f = "s1" THEN {"s1", "s2"} ELSE {f}
FileIds == DOMAIN FilePath
IsImportOnly(f) == f \in {"imp", "imp2"}
IgnorePathPool == {<<"dira">>, <<"dira", "sub", "y.proto">>, <<"dirb">>, <<"dir">>}

RulesOf(k) == Tables[k]
IsLint(k) == SubSeq(k, 1, 4) = "lint"
RuleIds(k) == {r.id : r \in RulesOf(k)}
Rule(k, id) == CHOOSE r \in RulesOf(k) : r.id = id
CatIds(k) == UNION {r.categories : r \in RulesOf(k)}
\* pools of IDs a configuration may name
UsePool(k) == IF IsLint(k)
  THEN {"FIELD_LOWER_SNAKE_CASE", "MESSAGE_PASCAL_CASE", "COMMENT_FIELD", "MINIMAL", "BASIC", "STANDARD", "COMMENTS", "DEFAULT", "IMPORT_NO_WEAK", "NOT_A_RULE"}
  ELSE {"FIELD_NO_DELETE", "FIELD_SAME_TYPE", "ENUM_VALUE_NO_DELETE", "FILE", "WIRE", "WIRE_JSON", "FIELD_SAME_LABEL", "FILE_SAME_PHP_GENERIC_SERVICES", "NOT_A_RULE"}

Known(k, id) == id \in RuleIds(k) \/ id \in CatIds(k)
FixedSelections(k) == IF IsLint(k)
  THEN {<<{}, {}>>, <<{"STANDARD", "COMMENTS"}, {}>>, <<{"BASIC"}, {"FIELD_LOWER_SNAKE_CASE"}>>}
  ELSE {<<{}, {}>>, <<{"WIRE_JSON"}, {}>>, <<{"FILE"}, {"FIELD_SAME_TYPE"}>>}

VARIABLES kind, use, except, ignore, ignoreOnlyKey, ignoreOnlyPath, ignoreOnly2, allowComments, excludeImports
vars == <<kind, use, except, ignore, ignoreOnlyKey, ignoreOnlyPath, ignoreOnly2, allowComments, excludeImports>>
Small(S, n) == {T \in ({{}} \cup {{a} : a \in S} \cup {{a, b} : a \in S, b \in S}) : Cardinality(T) <= n}
Init == /\ kind \in Kinds
        /\ use \in Small(UsePool(kind), MaxUse)
        /\ except \in Small(UsePool(kind), 1)
        /\ ignore \in Small(IgnorePathPool, 1)
        /\ ignoreOnlyKey \in {"none"} \cup (UsePool(kind) \ {"NOT_A_RULE"})
        /\ ignoreOnlyPath \in {<<"dira">>, <<"dirb">>}
        /\ (ignoreOnlyKey = "none" => ignoreOnlyPath = <<"dira">>)
        \* a second ignore_only entry: a replacement of the deprecated first key, on the other directory
        /\ ignoreOnly2 \in BOOLEAN
        /\ (ignoreOnly2 => (ignoreOnlyKey = "FIELD_SAME_LABEL" /\ Known(kind, "FIELD_SAME_LABEL")))
        /\ allowComments \in BOOLEAN /\ (~IsLint(kind) => ~allowComments)
        /\ excludeImports \in BOOLEAN /\ (IsLint(kind) => ~excludeImports)
        \* the selection dimensions and the suppression dimensions are explored against fixed representatives
        \* of the other group instead of as a full product
        /\ \/ (ignore = {} /\ ignoreOnlyKey = "none" /\ ~allowComments /\ ~excludeImports)
           \/ <<use, except>> \in FixedSelections(kind)
Next == UNCHANGED vars
Spec == Init /\ [][Next]_vars

\* ---- selection ----
Expand(k, id) == IF id \in RuleIds(k) THEN {id} ELSE {r.id : r \in {x \in RulesOf(k) : id \in x.categories}}
Undeprecate(k, ids) == UNION {IF Rule(k, i).deprecated THEN Rule(k, i).repl ELSE {i} : i \in ids}
Defaults(k) == {r.id : r \in {x \in RulesOf(k) : x.default}}
UseRules == IF use = {} THEN Defaults(kind) ELSE UNION {Expand(kind, i) : i \in use}
ExceptRules == UNION {Expand(kind, i) : i \in except}
ConfigError == \E i \in use \cup except \cup (IF ignoreOnlyKey = "none" THEN {} ELSE {ignoreOnlyKey}) : ~Known(kind, i)
Selected == Undeprecate(kind, UseRules) \ Undeprecate(kind, ExceptRules)
\* a selection that ends up empty is an error of its own (nothing to run)
EmptySelection == ~ConfigError /\ Selected = {}
IgnoreOnlyRules == IF ignoreOnlyKey = "none" \/ ~Known(kind, ignoreOnlyKey) THEN {} ELSE Undeprecate(kind, Expand(kind, ignoreOnlyKey))
OtherPath == IF ignoreOnlyPath = <<"dira">> THEN <<"dirb">> ELSE <<"dira">>

\* ---- suppression of an annotation (rule r, file f, inside the commented element c) ----
UnderAny(paths, f) == \E p \in paths : IsPrefixSeq(p, FilePath[f])
\* a (breaking) annotation has a location in file f and an against-location in file a: it is suppressed
\* when either of the two is ignored
SuppressedAtW(ior, r, f) ==
  \/ UnderAny(ignore, f)
  \/ (r \in ior /\ IsPrefixSeq(ignoreOnlyPath, FilePath[f]))
  \/ (ignoreOnly2 /\ r = "FIELD_SAME_CARDINALITY" /\ IsPrefixSeq(OtherPath, FilePath[f]))
\* (ior = IgnoreOnlyRules, passed in so that TLC evaluates it once per state)
SuppressedW(ior, r, f, c, a) ==
  \/ (IsLint(kind) /\ IsImportOnly(f))
  \/ (~IsLint(kind) /\ excludeImports /\ IsImportOnly(f))
  \/ SuppressedAtW(ior, r, f) \/ SuppressedAtW(ior, r, a)
  \* (the commented places: a message, and the go_package option statement of s1 / s2)
  \/ (c /\ allowComments /\ r \in {"FIELD_LOWER_SNAKE_CASE", "COMMENT_FIELD", "PACKAGE_SAME_GO_PACKAGE"})
Places == UNION {{[file |-> f, commented |-> c, against |-> a] : c \in BOOLEAN, a \in AgainstOf(f)} : f \in FileIds}
Suppressed(r, f, c, a) == SuppressedW(IgnoreOnlyRules, r, f, c, a)
AnnotationsOf(R) == UNION {{[rule |-> r, file |-> p.file, commented |-> p.commented, against |-> p.against] : r \in R} : p \in Places}
Annotations == AnnotationsOf(Selected)
\* only these rules can be suppressed on their own account
RuleSpecific == Selected \cap (IgnoreOnlyRules \cup {"FIELD_SAME_CARDINALITY", "FIELD_LOWER_SNAKE_CASE", "COMMENT_FIELD", "PACKAGE_SAME_GO_PACKAGE"})
Reported == LET ior == IgnoreOnlyRules  sel == Selected IN
            {t \in AnnotationsOf(sel) : ~SuppressedW(ior, t.rule, t.file, t.commented, t.against)}

\* ---- laws ----
Nested(k, a, b) == (a \in CatIds(k) /\ b \in CatIds(k)) => Expand(k, a) \subseteq Expand(k, b)
CategoryNesting == \A k \in Kinds : IsLint(k) => (Nested(k, "MINIMAL", "BASIC") /\ Nested(k, "BASIC", "STANDARD"))
BreakingNesting == \A k \in Kinds : ~IsLint(k) =>
   \* every WIRE rule has a WIRE_JSON, PACKAGE or FILE counterpart: the documented categories exist
   {"FILE", "PACKAGE", "WIRE_JSON", "WIRE"} \subseteq CatIds(k)
ReplacementsExist == \A k \in Kinds : \A r \in RulesOf(k) : r.deprecated => (r.repl \subseteq RuleIds(k) /\ \A i \in r.repl : ~Rule(k, i).deprecated)
ImportsNeverReportedByLint == IsLint(kind) => \A t \in Reported : ~IsImportOnly(t.file)
\* "dir" is not a path prefix of "dira": ignoring it suppresses nothing
LookAlikeIgnoresNothing == (ignore = {<<"dir">>} /\ ignoreOnlyKey = "none" /\ ~allowComments /\ ~excludeImports) =>
   \A r \in Selected : \A f \in FileIds : (~(IsLint(kind) /\ IsImportOnly(f))) => [rule |-> r, file |-> f, commented |-> FALSE, against |-> f] \in Reported

EmitCase == Emit => PrintT(<<"CASE", ToJson([kind |-> kind, use |-> use, except |-> except,
   ignore |-> {p : p \in ignore}, ignoreOnlyKey |-> ignoreOnlyKey, ignoreOnlyPath |-> ignoreOnlyPath,
   allowComments |-> allowComments, excludeImports |-> excludeImports,
   error |-> (ConfigError \/ EmptySelection), selected |-> IF ConfigError THEN {} ELSE Selected,
   \* Reported = Selected x files x {commented} minus supAll (whatever the rule) minus supRule (rule-specific)
   ignoreOnly2 |-> ignoreOnly2, otherPath |-> OtherPath,
   supAll |-> IF ConfigError \/ EmptySelection THEN {} ELSE LET ior == IgnoreOnlyRules  sel == Selected IN
              {p \in Places : \A r \in sel : SuppressedW(ior, r, p.file, p.commented, p.against)},
   supRule |-> IF ConfigError \/ EmptySelection THEN {} ELSE LET ior == IgnoreOnlyRules  sel == Selected IN
              {t \in AnnotationsOf(sel \cap (ior \cup {"FIELD_SAME_CARDINALITY", "FIELD_LOWER_SNAKE_CASE", "COMMENT_FIELD", "PACKAGE_SAME_GO_PACKAGE"})) :
                    SuppressedW(ior, t.rule, t.file, t.commented, t.against)
                    /\ \E r2 \in sel : ~SuppressedW(ior, r2, t.file, t.commented, t.against)}])>>)
=============================================================================

SPECIFICATION Spec
INVARIANTS ExitClassesDisjoint ZeroIffNothing HundredIffSources PrintingImpliesHundred EmitCase
CHECK_DEADLOCK FALSE

------------------------------- MODULE Verdict -------------------------------
(* C20: exit status and every diagnostic format tell the same verdict.        *)
(*                                                                           *)
(* A scenario = command x planted problems x operational error x how the      *)
(* input is spelled x a hostile path.  Exit gives the class of the exit       *)
(* status: "zero" exactly when there is nothing to report, "hundred" exactly  *)
(* when the problem lies in the user's sources, "other" for operational       *)
(* errors.  For commands that print annotations every --error-format must     *)
(* render the same list (checked by the harness on the real output).          *)
EXTENDS Naturals, FiniteSets, TLC, Json

CONSTANTS Emit, MaxProblems
\* format = `format --exit-code`, format-write = `format --exit-code -w` (rewrites the files and must still tell)
Commands == {"build", "lint", "breaking", "format", "format-write"}
\* escaping-import: an import whose path climbs out of the module ("../x.proto") - still a problem of the sources
Problems == {"compile-error", "malformed-import", "missing-import", "escaping-import", "many-lint-violations", "lint-violation", "multi-line-lint", "breaking-change", "deleted-file", "format-diff"}
Operational == {"none", "bad-flag", "missing-input", "bad-config"}
Spellings == {"dot", "absolute", "dot-slash", "protofile-with-package"}

VARIABLES command, problems, operational, spelling, hostilePath
vars == <<command, problems, operational, spelling, hostilePath>>
Small(S) == {T \in SUBSET S : Cardinality(T) <= MaxProblems}
Init == /\ command \in Commands
        /\ problems \in Small(Problems)
        /\ operational \in Operational
        /\ spelling \in Spellings
        /\ hostilePath \in BOOLEAN
        \* keep the product meaningful: operational errors and exotic spellings are explored on their own
        /\ (operational # "none" => (problems \subseteq {"lint-violation"} /\ spelling = "dot" /\ ~hostilePath))
        /\ (spelling = "protofile-with-package" => (command \in {"build", "lint"} /\ ~hostilePath))
        /\ (command = "format-write" => (spelling = "dot" /\ ~hostilePath))
        /\ (hostilePath => spelling = "dot")
        \* a file that does not compile cannot be compared: breaking problems need a compiling tree
        /\ ~({"compile-error", "malformed-import", "missing-import", "escaping-import"} \cap problems # {} /\ {"breaking-change", "deleted-file"} \cap problems # {})
Next == UNCHANGED vars
Spec == Init /\ [][Next]_vars

\* which planted problems a command reports
Relevant(c) ==
  CASE c = "build"    -> {"compile-error", "malformed-import", "missing-import", "escaping-import"}
    \* many-lint-violations: one file with 70 violations, several KiB of output in every format
    [] c = "lint"     -> {"compile-error", "malformed-import", "missing-import", "escaping-import", "lint-violation", "multi-line-lint", "many-lint-violations"}
    [] c = "breaking" -> {"compile-error", "malformed-import", "missing-import", "escaping-import", "breaking-change", "deleted-file"}
    \* the file planted for the multi-line range (two fields on one line) is not canonically formatted either
    [] c \in {"format", "format-write"} -> {"format-diff", "multi-line-lint"}
\* the file under the hostile directory declares a package that does not match it (a lint violation) and
\* lost a field with respect to the previous tree (a breaking change)
HostileReported == IF hostilePath /\ command \in {"lint", "breaking"} THEN {"hostile-path"} ELSE {}
Reported == (problems \cap Relevant(command)) \cup HostileReported
\* Deliberate deviation, named: format does not compile, it only parses.  A file that does not parse makes
\* format fail like an operational error ("Failure: <file>:<line>:<col>: syntax error", status 1); the
\* repository's own TestFormatInvalidInputDoesNotCreateDirectory pins that status.  Missing imports are
\* invisible to format.
FormatParseFailure == command \in {"format", "format-write"} /\ {"compile-error", "malformed-import"} \cap problems # {}
Exit == IF operational # "none" \/ FormatParseFailure THEN "other"
        ELSE IF Reported # {} THEN "hundred" ELSE "zero"
PrintsAnnotations == operational = "none" /\ Reported # {} /\ command \notin {"format", "format-write"}

\* ---- laws ----
ExitClassesDisjoint == Exit \in {"zero", "hundred", "other"}
ZeroIffNothing == (Exit = "zero") <=> (operational = "none" /\ ~FormatParseFailure /\ Reported = {})
HundredIffSources == (Exit = "hundred") <=> (operational = "none" /\ ~FormatParseFailure /\ Reported # {})
PrintingImpliesHundred == PrintsAnnotations => Exit = "hundred"

EmitCase == Emit => PrintT(<<"CASE", ToJson([command |-> command, problems |-> problems, operational |-> operational, spelling |-> spelling,
    hostilePath |-> hostilePath, exit |-> Exit, prints |-> PrintsAnnotations, reported |-> Reported])>>)
=============================================================================

------------------------------ MODULE PathAlg ------------------------------
(* Lexical path algebra used by every bucket: a raw path is the sequence of   *)
(* its "/"-separated components.  <<"a","","b">> is "a//b", <<"","a">> is     *)
(* "/a", <<"a","">> is "a/", <<"">> is the empty string.                      *)
(* Clean transcribes path/filepath.Clean (which normalpath.Normalize calls).  *)
(* Valid is the notion of the property: relative and, once cleaned, not       *)
(* starting with "..".                                                         *)
EXTENDS Naturals, Sequences, FiniteSets

SeqsUpTo(S, n) == UNION {[1..k -> S] : k \in 1..n}

IsRooted(p) == Len(p) >= 2 /\ p[1] = ""

RECURSIVE CleanRec(_, _, _)
CleanRec(p, out, rooted) ==
  IF p = <<>> THEN out
  ELSE LET c == Head(p)
           r == Tail(p)
       IN IF c = "" \/ c = "." THEN CleanRec(r, out, rooted)
          ELSE IF c = ".."
               THEN IF out # <<>> /\ out[Len(out)] # ".."
                    THEN CleanRec(r, SubSeq(out, 1, Len(out) - 1), rooted)
                    ELSE IF rooted THEN CleanRec(r, out, rooted)
                                   ELSE CleanRec(r, Append(out, ".."), rooted)
               ELSE CleanRec(r, Append(out, c), rooted)

CleanComps(p) == CleanRec(p, <<>>, IsRooted(p))
Clean(p) == [rooted |-> IsRooted(p), comps |-> CleanComps(p)]

\* The property's notion of an acceptable bucket path / prefix.
Valid(p) == ~IsRooted(p) /\ (CleanComps(p) = <<>> \/ CleanComps(p)[1] # "..")
\* "." : the bucket root itself (only acceptable as a prefix)
IsRootPath(p) == Valid(p) /\ CleanComps(p) = <<>>

IsPrefixSeq(a, b) == Len(a) <= Len(b) /\ SubSeq(b, 1, Len(a)) = a
\* q (cleaned comps) lies under the directory r (cleaned comps): path-wise, not string-wise
Under(r, q) == IsPrefixSeq(r, q)

\* Joining a relative raw path onto a root (normalpath.Join = Clean of the concatenation)
JoinClean(root, p) == CleanRec(root \o p, <<>>, IsRooted(root))

\* normalpath.EqualsOrContainsPath(value, path, Relative) on cleaned component sequences
EqualsOrContains(value, path) == IsPrefixSeq(value, path)

\* normalpath.StripComponents on a cleaned, valid, non-root path
CanStrip(comps, k) == Len(comps) > k
Strip(comps, k) == SubSeq(comps, k + 1, Len(comps))
=============================================================================

SPECIFICATION Spec
VIEW View
CONSTANTS
  Paths1 <- QuickPaths1
  Paths2 <- ThoroughPaths2
  Contents1 <- ThoroughContents1
  Contents2 <- ThoroughContents2
INVARIANTS TypeOK MapInverse ChainIsNested WalkPathWise UnionReports UnionCommutes StripIsIdentity SpellingsClean EmitSpell EmitState
ACTION_CONSTRAINT EmitEdge
CHECK_DEADLOCK FALSE

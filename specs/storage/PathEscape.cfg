SPECIFICATION Spec
INVARIANTS Contained CleanIdem InvalidNeverActs NestedViews ArchiveContained PrefixContained HiddenByCleanPath EmitCase
CHECK_DEADLOCK FALSE

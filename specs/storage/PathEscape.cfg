SPECIFICATION Spec
INVARIANTS Contained CleanIdem InvalidNeverActs NestedViews ArchiveContained EmitCase
CHECK_DEADLOCK FALSE

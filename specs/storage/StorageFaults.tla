--------------------------- MODULE StorageFaults ---------------------------
(* C15: write failures are always reported; atomic puts are all-or-nothing.  *)
(*                                                                           *)
(* A compound operation (Copy, CopyPath, PutPath, CopyReader, Untar, Unzip,  *)
(* file-set write, config write, generated-file flush ...) is a set of       *)
(* per-object jobs.  Each job is the code's Put / Write* / Close sequence    *)
(* with its deferred Close; the environment may make any primitive step fail *)
(* (at most MaxFaults times) and, for a disk atomic put, may kill the        *)
(* process between any two primitive steps.                                  *)
(*                                                                           *)
(* Mode = "all": every job runs whatever happens to the others (storage.Copy *)
(*        through thread.Parallelize without cancellation);                  *)
(* Mode = "seq": jobs run in order and the operation stops at the first      *)
(*        failing job (Untar, Unzip, PutFileSetToBucket, WriteResponse).     *)
EXTENDS Naturals, FiniteSets, Sequences, TLC, Json

CONSTANTS Files,      \* object ids, e.g. {1,2,3}
          NChunks,    \* Write calls per object
          MaxFaults,
          Atomic,     \* BOOLEAN: PutWithAtomic
          Kind,       \* "os" | "mem": visibility rules of the destination
          Mode,       \* "all" | "seq"
          MaxKills,   \* 0 or 1: process kill (only meaningful for Kind = "os")
          ErrKinds,   \* identities a failure may have (plain, wrapping fs.ErrNotExist / ErrExist / ErrPermission,
                      \* io.EOF, io.ErrUnexpectedEOF, context.Canceled, DeadlineExceeded, fs.ErrClosed)
          Emit

\* The model abstracts from the identity of a failure: PutFail / WriteFail / CloseFail / RenameFail stand for a
\* failure of *any* identity in ErrKinds, and every law below holds for each of them alike - in particular
\* FaultReported: no identity (such as "does not exist" or "end of file") makes a failure of the destination
\* something an operation may swallow.  Each emitted plan is replayed once per identity.
ASSUME ErrKinds # {}

VARIABLES pc,       \* pc[f] \in {"init","open","closing","done","skipped"}
          written,  \* written[f]: chunks accepted so far
          werr,     \* werr[f]: a Write of this job failed (the writer remembers it)
          jobErr,   \* jobErr[f]: the job returns an error
          dest,     \* dest[f] \in {"none","prev","partial","new"}: what a reader of the path sees
          tmp,      \* tmp[f]: a temporary file of this put exists next to the target
          init0,    \* init0[f] \in {"none","prev"}: what was there before
          faults,   \* set of <<f, step, chunk>> injected so far (the fault plan)
          ret,      \* "running" | "ok" | "err" | "killed"
          count,    \* number of jobs that returned nil (storage.Copy's count)
          kills
vars == <<pc, written, werr, jobErr, dest, tmp, init0, faults, ret, count, kills>>

Steps == {"put", "write", "close", "rename"}

Init == /\ pc = [f \in Files |-> "init"]
        /\ written = [f \in Files |-> 0]
        /\ werr = [f \in Files |-> FALSE]
        /\ jobErr = [f \in Files |-> FALSE]
        /\ init0 \in [Files -> {"none", "prev"}]
        /\ dest = init0
        /\ tmp = [f \in Files |-> FALSE]
        /\ faults = {}
        /\ ret = "running"
        /\ count = 0
        /\ kills = 0

CanFault == Cardinality(faults) < MaxFaults
Fault(f, s, c) == faults' = faults \cup {<<f, s, c>>}

\* in "seq" mode a job may start only when all smaller ones are done without error
MayStart(f) ==
  \/ Mode = "all"
  \/ \A g \in Files : g < f => (pc[g] = "done" /\ ~jobErr[g])

\* ---- Put (open) ----
PutOk(f) ==
  /\ ret = "running" /\ pc[f] = "init" /\ MayStart(f)
  /\ pc' = [pc EXCEPT ![f] = "open"]
  /\ IF Kind = "os" /\ ~Atomic THEN dest' = [dest EXCEPT ![f] = "partial"]   \* os.Create truncates at once
     ELSE dest' = dest
  /\ IF Kind = "os" /\ Atomic THEN tmp' = [tmp EXCEPT ![f] = TRUE] ELSE tmp' = tmp
  /\ UNCHANGED <<written, werr, jobErr, init0, faults, ret, count, kills>>
PutFail(f) ==
  /\ ret = "running" /\ pc[f] = "init" /\ MayStart(f) /\ CanFault
  /\ Fault(f, "put", 0)
  /\ pc' = [pc EXCEPT ![f] = "done"]
  /\ jobErr' = [jobErr EXCEPT ![f] = TRUE]
  /\ UNCHANGED <<written, werr, dest, tmp, init0, ret, count, kills>>

\* ---- Write ----
WriteOk(f) ==
  /\ ret = "running" /\ pc[f] = "open" /\ written[f] < NChunks
  /\ written' = [written EXCEPT ![f] = written[f] + 1]
  /\ UNCHANGED <<pc, werr, jobErr, dest, tmp, init0, faults, ret, count, kills>>
\* a failing (or short) Write: the caller stops writing and runs its deferred Close
WriteFail(f) ==
  /\ ret = "running" /\ pc[f] = "open" /\ written[f] < NChunks /\ CanFault
  /\ Fault(f, "write", written[f] + 1)
  /\ werr' = [werr EXCEPT ![f] = TRUE]
  /\ jobErr' = [jobErr EXCEPT ![f] = TRUE]
  /\ pc' = [pc EXCEPT ![f] = "closing"]
  /\ UNCHANGED <<written, dest, tmp, init0, ret, count, kills>>
WritesDone(f) ==
  /\ ret = "running" /\ pc[f] = "open" /\ written[f] = NChunks
  /\ pc' = [pc EXCEPT ![f] = "closing"]
  /\ UNCHANGED <<written, werr, jobErr, dest, tmp, init0, faults, ret, count, kills>>

\* ---- Close (always runs once the put succeeded) ----
\* what Close makes visible, per destination kind
Publish(f) ==
  IF Kind = "os" THEN
     IF Atomic THEN (IF werr[f] THEN dest[f] ELSE "new")        \* rename only if no write failed
     ELSE (IF werr[f] THEN "partial" ELSE "new")
  ELSE (IF werr[f] THEN "partial" ELSE "new")                     \* memory: Close publishes the buffer
CloseOk(f) ==
  /\ ret = "running" /\ pc[f] = "closing"
  /\ dest' = [dest EXCEPT ![f] = Publish(f)]
  /\ tmp' = [tmp EXCEPT ![f] = FALSE]
  /\ pc' = [pc EXCEPT ![f] = "done"]
  /\ count' = IF jobErr[f] THEN count ELSE count + 1
  /\ UNCHANGED <<written, werr, jobErr, init0, faults, ret, kills>>
\* Close itself reports an error (file close error): for an atomic disk put nothing is renamed and the temp is removed
CloseFail(f) ==
  /\ ret = "running" /\ pc[f] = "closing" /\ CanFault
  /\ Fault(f, "close", 0)
  /\ jobErr' = [jobErr EXCEPT ![f] = TRUE]
  /\ dest' = [dest EXCEPT ![f] = IF Kind = "os" /\ Atomic THEN dest[f]
                                   ELSE IF Kind = "os" THEN "partial" ELSE dest[f]]
  /\ tmp' = [tmp EXCEPT ![f] = FALSE]
  /\ pc' = [pc EXCEPT ![f] = "done"]
  /\ UNCHANGED <<written, werr, init0, ret, count, kills>>
\* the rename of an atomic disk put fails: error, temp removed, target untouched
RenameFail(f) ==
  /\ ret = "running" /\ pc[f] = "closing" /\ CanFault /\ Kind = "os" /\ Atomic /\ ~werr[f]
  /\ Fault(f, "rename", 0)
  /\ jobErr' = [jobErr EXCEPT ![f] = TRUE]
  /\ tmp' = [tmp EXCEPT ![f] = FALSE]
  /\ pc' = [pc EXCEPT ![f] = "done"]
  /\ UNCHANGED <<written, werr, dest, init0, ret, count, kills>>

\* ---- the operation returns ----
AllSettled ==
  IF Mode = "all" THEN \A f \in Files : pc[f] = "done"
  ELSE \/ \A f \in Files : pc[f] = "done"
       \/ \E f \in Files : pc[f] = "done" /\ jobErr[f]
Return ==
  /\ ret = "running" /\ AllSettled
  /\ \A f \in Files : pc[f] \in {"init", "done"}
  /\ ret' = IF \E f \in Files : jobErr[f] THEN "err" ELSE "ok"
  /\ UNCHANGED <<pc, written, werr, jobErr, dest, tmp, init0, faults, count, kills>>

\* ---- the process is killed (between any two primitive steps) ----
Kill ==
  /\ ret = "running" /\ kills < MaxKills /\ Kind = "os"
  /\ kills' = kills + 1
  /\ ret' = "killed"
  /\ UNCHANGED <<pc, written, werr, jobErr, dest, tmp, init0, faults, count>>

Next == \/ \E f \in Files : PutOk(f) \/ PutFail(f) \/ WriteOk(f) \/ WriteFail(f) \/ WritesDone(f)
                            \/ CloseOk(f) \/ CloseFail(f) \/ RenameFail(f)
        \/ Return \/ Kill
Spec == Init /\ [][Next]_vars /\ WF_vars(Next)

\* ------------------------------------------------------------------ properties
TypeOK == /\ \A f \in Files : dest[f] \in {"none", "prev", "partial", "new"}
          /\ ret \in {"running", "ok", "err", "killed"}
\* success is never reported while output is missing or truncated
ErrorTransparency == ret = "ok" => \A f \in Files : dest[f] = "new"
\* an injected fault that was consumed is reported
FaultReported == (ret \in {"ok", "err"} /\ faults # {}) => ret = "err"
CountExact == ret = "ok" => count = Cardinality(Files)
CountNeverOver == count <= Cardinality({f \in Files : pc[f] = "done" /\ ~jobErr[f]})
\* atomic disk put: at every instant (also after a kill) a reader sees the previous or the complete new content
AtomicVisible == (Kind = "os" /\ Atomic) => \A f \in Files : dest[f] \in {init0[f], "new"}
\* a failed atomic disk put leaves neither a new object nor its temp file
FailedAtomicLeavesNothing ==
  (Kind = "os" /\ Atomic) => \A f \in Files : (pc[f] = "done" /\ jobErr[f]) => (dest[f] = init0[f] /\ ~tmp[f])
\* after a normal return no temp file is left
NoTempAfterReturn == ret \in {"ok", "err"} => \A f \in Files : ~tmp[f]
Terminates == <>(ret # "running")

\* ------------------------------------------------------------------ emission: one CASE per terminal state
Terminal == ret # "running"
Outcome == [mode |-> Mode, kind |-> Kind, atomic |-> Atomic, nchunks |-> NChunks,
            init |-> init0, plan |-> faults, ret |-> ret, jobErr |-> jobErr, dest |-> dest,
            tmp |-> tmp, count |-> count, started |-> [f \in Files |-> pc[f] # "init"], errKinds |-> ErrKinds]
EmitCase == (Emit /\ Terminal) => PrintT(<<"CASE", ToJson(Outcome)>>)
=============================================================================

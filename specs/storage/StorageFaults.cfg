SPECIFICATION Spec
INVARIANTS TypeOK ErrorTransparency FaultReported CountExact CountNeverOver AtomicVisible FailedAtomicLeavesNothing NoTempAfterReturn EmitCase
PROPERTY Terminates
CHECK_DEADLOCK FALSE

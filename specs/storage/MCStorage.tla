----------------------------- MODULE MCStorage -----------------------------
EXTENDS Storage
\* path sets chosen to separate path-wise from string-wise prefixes ("a" vs "ab" vs "a.proto";
\* "b/c" vs "b/c.proto": '.' and '-' sort below '/').
P_ax == <<"a", "x">>
P_abx == <<"ab", "x">>
P_aproto == <<"a.proto">>
P_bcd == <<"b", "c", "d">>
P_bcproto == <<"b", "c.proto">>
QuickPaths1 == {P_ax, P_abx, P_aproto, P_bcd, P_bcproto}
QuickPaths2 == {P_ax, P_aproto}
QuickContents1 == {"S", "L"}
QuickContents2 == {"S"}
ThoroughPaths2 == {P_ax, P_aproto, P_bcproto}
ThoroughContents1 == {"E", "S", "L"}
ThoroughContents2 == {"S", "E"}
=============================================================================

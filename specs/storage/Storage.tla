------------------------------ MODULE Storage ------------------------------
(* C14: every bucket implementation and combinator behaves as one map from   *)
(* normalized relative path to bytes.                                         *)
(*                                                                           *)
(* State: the contents of two base buckets.  Views are finite trees of       *)
(* combinators over the bases (prefix map, chained map, filter, union,       *)
(* overlay, strip); Sem(view) is the map a view denotes (plus the set of     *)
(* paths that a union finds in two members).  Write actions go directly to a *)
(* base or through a writable (mapped) view.  Reads are not transitions:     *)
(* Obs(state) gives the expected result of get/stat/walk on every view, and  *)
(* the harness evaluates it after every replayed transition.                 *)
EXTENDS PathAlg, TLC, Json

CONSTANTS Paths1, Paths2,       \* object paths (component sequences) each base may hold
          Contents1, Contents2, \* content identifiers each base may hold
          Emit                  \* "none" | "edges" | "states" | "both"

Absent == "-"
Bases  == {1, 2}
PathsOf(b)    == IF b = 1 THEN Paths1 ELSE Paths2
ContentsOf(b) == IF b = 1 THEN Contents1 ELSE Contents2
AllPaths == Paths1 \cup Paths2

VARIABLES base,    \* base[b][p] \in ContentsOf(b) \cup {Absent}
          lastOp   \* label of the transition that led here (not part of the VIEW)
vars == <<base, lastOp>>
View == base

\* ------------------------------------------------------------------ views
\* A view is a record:
\*   [k |-> "base", b |-> 1]                     base bucket
\*   [k |-> "map", pre |-> <<..>>, of |-> v]     storage.Map*Bucket(of, MapOnPrefix(pre))
\*   [k |-> "filter", m |-> matcher, of |-> v]   storage.FilterReadBucket
\*   [k |-> "multi", l |-> v, r |-> w]           storage.MultiReadBucket  (reports duplicates)
\*   [k |-> "overlay", l |-> v, r |-> w]         storage.OverlayReadBucket (first wins)
\*   [k |-> "strip", of |-> v]                   storage.StripReadBucketExternalPaths
\* MapChain(m1, m2) over v  ==  map pre=m2 of (map pre=m1 of v)  (transcribed from chainMapper.mapFunc)
B(b)           == [k |-> "base", b |-> b]
Map(v, pre)    == [k |-> "map", pre |-> pre, of |-> v]
Filter(v, m)   == [k |-> "filter", m |-> m, of |-> v]
Multi(v, w)    == [k |-> "multi", l |-> v, r |-> w]
Overlay(v, w)  == [k |-> "overlay", l |-> v, r |-> w]
StripV(v)      == [k |-> "strip", of |-> v]

\* matchers: [t |-> "ext", x |-> ".proto"], [t |-> "contained", d |-> <<"a">>], [t |-> "eqorcontained", d |-> ..], [t |-> "not", m |-> ..]
LastComp(p) == p[Len(p)]
\* extension of the last component, as a suffix test on the few names we use
HasExt(p, x) == LastComp(p) \in {"a.proto", "c.proto"} /\ x = ".proto"
RECURSIVE Matches(_, _)
Matches(m, p) ==
  CASE m.t = "ext"           -> HasExt(p, m.x)
    [] m.t = "contained"     -> IsPrefixSeq(m.d, p) /\ p # m.d
    [] m.t = "eqorcontained" -> IsPrefixSeq(m.d, p)
    [] m.t = "not"           -> ~Matches(m.m, p)

\* Sem(v) = [objs |-> set of <<path, content>>, dup |-> set of paths found in two union members]
RECURSIVE Sem(_)
Sem(v) ==
  CASE v.k = "base" ->
         [objs |-> {<<p, base[v.b][p]>> : p \in {q \in PathsOf(v.b) : base[v.b][q] # Absent}}, dup |-> {}]
    [] v.k = "map" ->
         LET s == Sem(v.of)
             n == Len(v.pre)
         IN [objs |-> {<<Strip(o[1], n), o[2]>> : o \in {x \in s.objs : IsPrefixSeq(v.pre, x[1]) /\ x[1] # v.pre}},
             dup  |-> {Strip(p, n) : p \in {x \in s.dup : IsPrefixSeq(v.pre, x) /\ x # v.pre}}]
    [] v.k = "filter" ->
         LET s == Sem(v.of)
         IN [objs |-> {o \in s.objs : Matches(v.m, o[1])}, dup |-> {p \in s.dup : Matches(v.m, p)}]
    [] v.k = "multi" ->
         LET s == Sem(v.l)
             t == Sem(v.r)
             ps == {o[1] : o \in s.objs}
             pt == {o[1] : o \in t.objs}
             both == (ps \cap pt) \cup s.dup \cup t.dup
         IN [objs |-> {o \in s.objs \cup t.objs : o[1] \notin both}, dup |-> both]
    [] v.k = "overlay" ->
         LET s == Sem(v.l)
             t == Sem(v.r)
             ps == {o[1] : o \in s.objs} \cup s.dup
         IN [objs |-> s.objs \cup {o \in t.objs : o[1] \notin ps}, dup |-> s.dup \cup {p \in t.dup : p \notin ps}]
    [] v.k = "strip" -> Sem(v.of)

PathSet(s) == {o[1] : o \in s.objs}
ContentAt(s, p) == (CHOOSE o \in s.objs : o[1] = p)[2]

\* Expected read results on a view, for a cleaned relative path / prefix
GetRes(v, q) ==
  LET s == Sem(v) IN
  IF q \in s.dup THEN [r |-> "multi"]
  ELSE IF q \in PathSet(s) THEN [r |-> "ok", c |-> ContentAt(s, q)]
  ELSE [r |-> "notexist"]
\* walk visits exactly the objects under the path-wise prefix; a duplicate under it is an error
WalkRes(v, pre) ==
  LET s == Sem(v) IN
  IF \E p \in s.dup : Under(pre, p) THEN [r |-> "multi"]
  ELSE [r |-> "ok", paths |-> {p \in PathSet(s) : Under(pre, p)}]

\* ------------------------------------------------------------------ the fixed view catalogue
V1 == B(1)
V2 == B(2)
Catalogue ==
  [ b1        |-> V1,
    b2        |-> V2,
    map_b     |-> Map(V1, <<"b">>),
    map_a     |-> Map(V1, <<"a">>),
    map_b_c   |-> Map(Map(V1, <<"b">>), <<"c">>),
    chain_b_c |-> Map(Map(V1, <<"b">>), <<"c">>),   \* built as MapOnPrefix("b"), MapOnPrefix("c") in one call
    map_bc    |-> Map(V1, <<"b", "c">>),
    f_proto   |-> Filter(V1, [t |-> "ext", x |-> ".proto"]),
    f_in_a    |-> Filter(V1, [t |-> "contained", d |-> <<"a">>]),
    f_not_b   |-> Filter(V1, [t |-> "not", m |-> [t |-> "eqorcontained", d |-> <<"b">>]]),
    \* "contained in" is strict: a file whose path *equals* the directory named is not inside it
    f_in_file |-> Filter(V1, [t |-> "contained", d |-> <<"a.proto">>]),
    f_not_in_file |-> Filter(V1, [t |-> "not", m |-> [t |-> "contained", d |-> <<"a.proto">>]]),
    multi     |-> Multi(V1, V2),
    multi_rev |-> Multi(V2, V1),
    overlay   |-> Overlay(V1, V2),
    overlay_r |-> Overlay(V2, V1),
    multi_map |-> Multi(Map(V1, <<"a">>), Map(V2, <<"a">>)),
    map_multi |-> Map(Multi(V1, V2), <<"a">>),
    f_multi   |-> Filter(Overlay(V2, V1), [t |-> "ext", x |-> ".proto"]),
    \* a combinator nested directly inside the other one keeps its own mode: the union inside an overlay still
    \* reports its duplicates, the overlay inside a union still hides them
    ov_multi  |-> Overlay(Multi(V1, V2), Map(V1, <<"b">>)),
    multi_ov  |-> Multi(Overlay(V1, V2), Map(V2, <<"a">>)),
    strip     |-> StripV(V1),
    strip_map |-> StripV(Map(V1, <<"b">>)) ]
ViewNames == DOMAIN Catalogue

\* writable views: name |-> [b, pre] (full path = pre \o q in base b)
Writable ==
  [ b1 |-> [b |-> 1, pre |-> <<>>], b2 |-> [b |-> 2, pre |-> <<>>],
    map_b |-> [b |-> 1, pre |-> <<"b">>], map_a |-> [b |-> 1, pre |-> <<"a">>],
    map_b_c |-> [b |-> 1, pre |-> <<"b", "c">>], chain_b_c |-> [b |-> 1, pre |-> <<"b", "c">>] ]
WNames == DOMAIN Writable

\* prefixes worth querying: every proper prefix of every path, the paths themselves, root, and two absent ones
PrefixesOf(p) == {SubSeq(p, 1, n) : n \in 0..Len(p)}
QueryPaths == (UNION {PrefixesOf(p) : p \in AllPaths}) \cup {<<"zz">>, <<"a", "zz">>, <<"x">>, <<"c", "d">>, <<"d">>, <<"c.proto">>, <<"c">>}

\* ------------------------------------------------------------------ transitions
Init == /\ base = [b \in Bases |-> [p \in PathsOf(b) |-> Absent]]
        /\ lastOp = [op |-> "init"]

\* Put(via w, relative path q, content c, atomic a): the object becomes exactly c
Put(w, q, c, a) ==
  LET t == Writable[w]
      full == t.pre \o q
  IN /\ full \in PathsOf(t.b)
     /\ c \in ContentsOf(t.b)
     /\ base' = [base EXCEPT ![t.b][full] = c]
     /\ lastOp' = [op |-> "put", via |-> w, path |-> q, content |-> c, atomic |-> a, res |-> "ok"]

\* Delete: removes an existing object; not-exist error otherwise (state unchanged)
Delete(w, q) ==
  LET t == Writable[w]
      full == t.pre \o q
  IN /\ full \in PathsOf(t.b)
     /\ IF base[t.b][full] # Absent
        THEN /\ base' = [base EXCEPT ![t.b][full] = Absent]
             /\ lastOp' = [op |-> "delete", via |-> w, path |-> q, res |-> "ok"]
        ELSE /\ base' = base
             /\ lastOp' = [op |-> "delete", via |-> w, path |-> q, res |-> "notexist"]

\* DeleteAll(prefix): removes every object path-wise under the prefix (a prefix equal to an object removes it)
DeleteAll(w, pre) ==
  LET t == Writable[w]
      full == t.pre \o pre
  IN /\ base' = [base EXCEPT ![t.b] = [p \in PathsOf(t.b) |-> IF Under(full, p) THEN Absent ELSE base[t.b][p]]]
     /\ lastOp' = [op |-> "deleteall", via |-> w, path |-> pre, res |-> "ok"]

\* storage.Copy(from view, to writable view): every object of the source lands in the destination; returns the count
CopyInto(vn, w) ==
  LET s == Sem(Catalogue[vn])
      t == Writable[w]
  IN /\ s.dup = {}
     /\ \A o \in s.objs : (t.pre \o o[1]) \in PathsOf(t.b) /\ o[2] \in ContentsOf(t.b)
     /\ base' = [base EXCEPT ![t.b] = [p \in PathsOf(t.b) |->
                   IF \E o \in s.objs : t.pre \o o[1] = p THEN ContentAt(s, Strip(p, Len(t.pre))) ELSE base[t.b][p]]]
     /\ lastOp' = [op |-> "copy", from |-> vn, via |-> w, res |-> "ok", count |-> Cardinality(s.objs)]

RelPathsOf(w) == {Strip(p, Len(Writable[w].pre)) : p \in {x \in PathsOf(Writable[w].b) : IsPrefixSeq(Writable[w].pre, x) /\ x # Writable[w].pre}}
RelPrefixesOf(w) == UNION {PrefixesOf(p) : p \in RelPathsOf(w)} \cup {<<"zz">>}

Next ==
  \/ \E w \in WNames : \E q \in RelPathsOf(w) : \E c \in ContentsOf(Writable[w].b) : \E a \in BOOLEAN : Put(w, q, c, a)
  \/ \E w \in WNames : \E q \in RelPathsOf(w) : Delete(w, q)
  \/ \E w \in WNames : \E pre \in RelPrefixesOf(w) : DeleteAll(w, pre)
  \* source and destination of a copy are over different bases: reading an object while it is being
  \* put is documented as undefined, so copying a bucket onto itself is not part of the model
  \/ \E w \in {"b1", "map_a"} : CopyInto("b2", w)
  \/ \E vn \in {"f_proto", "map_a", "strip", "f_in_a"} : CopyInto(vn, "b2")

Spec == Init /\ [][Next]_vars

\* ------------------------------------------------------------------ design-level laws (checked in every state)
TypeOK == \A b \in Bases : \A p \in PathsOf(b) : base[b][p] \in ContentsOf(b) \cup {Absent}
\* Unmap(Map(p)) = p on the mapped subtree, for single and chained prefix mappers
MapInverse ==
  \A pre \in {<<"b">>, <<"a">>, <<"b", "c">>} :
    LET s == Sem(Map(V1, pre)) IN
      /\ \A o \in s.objs : (pre \o o[1]) \in PathSet(Sem(V1)) /\ ContentAt(Sem(V1), pre \o o[1]) = o[2]
      /\ \A p \in PathSet(Sem(V1)) : (IsPrefixSeq(pre, p) /\ p # pre) => Strip(p, Len(pre)) \in PathSet(s)
ChainIsNested == Sem(Catalogue.map_b_c) = Sem(Catalogue.map_bc)
\* walk is path-wise: "a" never reaches "ab/x" nor "a.proto"
WalkPathWise ==
  \A vn \in ViewNames : \A pre \in QueryPaths :
    LET r == WalkRes(Catalogue[vn], pre) IN
      r.r = "ok" => \A p \in r.paths : IsPrefixSeq(pre, p)
\* union reports, overlay hides
UnionReports == \A p \in Paths1 \cap Paths2 :
  (base[1][p] # Absent /\ base[2][p] # Absent) =>
     /\ GetRes(Catalogue.multi, p).r = "multi" /\ GetRes(Catalogue.multi_rev, p).r = "multi"
     /\ GetRes(Catalogue.overlay, p) = [r |-> "ok", c |-> base[1][p]]
     /\ GetRes(Catalogue.overlay_r, p) = [r |-> "ok", c |-> base[2][p]]
\* union is commutative on what it shows
UnionCommutes == Sem(Catalogue.multi) = Sem(Catalogue.multi_rev)
\* strip does not change the map
StripIsIdentity == Sem(Catalogue.strip) = Sem(V1)

\* Equivalent spellings of a path denote the same object: every variant cleans to the path and is valid
Variants(q) ==
  IF q = <<>> THEN {<<"">>, <<".">>, <<"zz", "..">>, <<".", "">>, <<".", ".">>}
  ELSE {q, <<".">> \o q, q \o <<"">>, q \o <<".">>, <<"zz", "..">> \o q, <<Head(q)>> \o <<"">> \o Tail(q),
        <<Head(q)>> \o <<"zz", "..">> \o Tail(q), q \o <<"zz", "..">>, <<"", "..">> \o <<"..">> \o <<"zz">> \o <<"..">> \o q} \ {<<"", "..", "..", "zz", "..">> \o q}
SpellingsClean == \A q \in QueryPaths : \A v \in Variants(q) : Valid(v) /\ CleanComps(v) = q

\* ------------------------------------------------------------------ emission
StateRec(bs) == [b \in {"1", "2"} |-> {[p |-> p, c |-> bs[IF b = "1" THEN 1 ELSE 2][p]] :
                     p \in {q \in PathsOf(IF b = "1" THEN 1 ELSE 2) : bs[IF b = "1" THEN 1 ELSE 2][q] # Absent}}]
ViewRec(vn) == LET s == Sem(Catalogue[vn]) IN
  [objs |-> {[p |-> o[1], c |-> o[2]] : o \in s.objs}, dup |-> s.dup,
   \* compact: only the non-default answers are listed (default: walk = ok/no paths, get = notexist)
   walk |-> {[pre |-> pre, res |-> WalkRes(Catalogue[vn], pre)] :
               pre \in {x \in QueryPaths : WalkRes(Catalogue[vn], x) # [r |-> "ok", paths |-> {}]}},
   get  |-> {[q |-> q, res |-> GetRes(Catalogue[vn], q)] :
               q \in {x \in QueryPaths \ {<<>>} : GetRes(Catalogue[vn], x).r # "notexist"}}]
EmitState == (Emit \in {"states", "both"}) =>
  PrintT(<<"STATE", ToJson([state |-> StateRec(base), views |-> [vn \in ViewNames |-> ViewRec(vn)]])>>)
EmitSpell == (Emit \in {"states", "both"} /\ lastOp.op = "init") =>
  PrintT(<<"SPELL", ToJson({[q |-> q, variants |-> Variants(q)] : q \in QueryPaths})>>)
EmitEdge == (Emit \in {"edges", "both"}) =>
  PrintT(<<"EDGE", ToJson([from |-> StateRec(base), op |-> lastOp', to |-> StateRec(base')])>>)
=============================================================================

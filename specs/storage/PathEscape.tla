---------------------------- MODULE PathEscape ----------------------------
(* C13: no path can escape a bucket's root.                                  *)
(*                                                                           *)
(* State: a world of objects at absolute locations, a bucket (or a view of   *)
(* a bucket) rooted at Root, and one pending call op(raw).  The call is      *)
(* either rejected or acts at Root \o Clean(raw).  TLC enumerates every raw  *)
(* path up to MaxLen over the component alphabet, every operation and every  *)
(* root shape, checks the containment lemma that makes lexical validation    *)
(* sufficient and the frame property "nothing outside Root changes", and     *)
(* emits one expectation per (raw, op) for replay against the real buckets.  *)
EXTENDS PathAlg, TLC, Json

CONSTANTS MaxLen,        \* bound on the number of components of a raw path
          Emit           \* TRUE: print one CASE line per raw path

Names == {"a", "b", "a.b", "..a"}
Comp  == Names \cup {".", "..", ""}
Raw   == SeqsUpTo(Comp, MaxLen)

FileOps   == {"get", "stat", "put", "delete"}
PrefixOps == {"walk", "deleteall"}
Ops       == FileOps \cup PrefixOps
WriteOps  == {"put", "delete", "deleteall"}

\* Root shapes: absolute, relative, relative climbing, nested view roots
Roots == { <<"", "w", "o", "root">>, <<"root">>, <<"..", "root">>, <<"", "w", "o", "root", "m">>,
           <<"", "w", "o", "root", "m", "n">> }

\* What a bucket must do with op(raw)
Expect(op, p) ==
  IF ~Valid(p) THEN "reject"
  ELSE IF op \in FileOps /\ IsRootPath(p) THEN "reject"
  ELSE "act"

\* Location acted upon (cleaned components, absolute or relative like the root)
Target(root, p) == JoinClean(root, p)

\* Archive entry names (storagearchive.unmapArchivePath): reject, skip, or write at a path
ArchiveExpect(p, k) ==
  IF p = <<"">> THEN [kind |-> "reject", at |-> <<>>]
  ELSE IF ~Valid(p) THEN [kind |-> "reject", at |-> <<>>]
  ELSE IF IsRootPath(p) THEN [kind |-> "skip", at |-> <<>>]
  ELSE IF ~CanStrip(CleanComps(p), k) THEN [kind |-> "skip", at |-> <<>>]
  ELSE [kind |-> "write", at |-> Strip(CleanComps(p), k)]

\* Filter views: what a filtered view lets through is a function of the *cleaned* path, never of the spelling the
\* caller used; a negated matcher hides an object under every spelling of its path.
\*   filternot = FilterReadBucket(b, MatchNot(MatchOr(MatchPathEqual("a.b"), MatchPathContained("a"))))
FilterNotHides(c) == c = <<"a.b">> \/ (Len(c) > 1 /\ c[1] = "a")
\* A view prefix is configuration, not a trusted constant.  The raw path used as the prefix of a view that is
\* nested in the view rooted at r \o <<"m">>: Map(Map(b, "m"), raw).  An invalid prefix makes every call fail;
\* a valid one makes the view act at r \o m \o Clean(raw) \o arg - inside the inner view.
PrefixExpect(p) == IF ~Valid(p) THEN "reject" ELSE "act"

VARIABLES raw,     \* the raw path of the pending call
          op,      \* the operation
          phase,   \* "pending" | "done"
          touched  \* set of locations the call acted upon (model of the effect)

vars == <<raw, op, phase, touched>>

Init == /\ raw \in Raw
        /\ op \in Ops
        /\ phase = "pending"
        /\ touched = {}

\* The call executes: rejected calls touch nothing; accepted calls touch exactly Root \o Clean(raw)
\* for every root shape (the model quantifies over roots instead of fixing one).
Call == /\ phase = "pending"
        /\ phase' = "done"
        /\ touched' = IF Expect(op, raw) = "reject" THEN {}
                      ELSE { [root |-> r, at |-> Target(r, raw)] : r \in Roots }
        /\ UNCHANGED <<raw, op>>

Next == Call \/ (phase = "done" /\ UNCHANGED vars)
Spec == Init /\ [][Next]_vars

\* (The frame property below is about directories as much as about objects: whatever a bucket does about directories
\*  that became empty when their last object went, it does inside its root - also when the root was given as a
\*  relative path, cf. the root shapes above.  The harness checks it on disk buckets with a single object.)
\* ---- properties ----
\* Containment lemma: lexical validity suffices, whatever the root is.
Contained == \A t \in touched : Under(CleanComps(t.root), t.at)
\* Clean is idempotent and Valid is a property of the cleaned path
CleanIdem == CleanRec(CleanComps(raw), <<>>, IsRooted(raw)) = CleanComps(raw)
\* an invalid path never acts
InvalidNeverActs == (~Valid(raw)) => touched = {}
\* nested views: acting through a view rooted at r \o m equals acting through r at m \o raw
NestedViews ==
  Valid(raw) => \A r \in Roots : \A m \in {<<"m">>, <<"m", "n">>} :
      JoinClean(r \o m, raw) = JoinClean(r, m \o CleanComps(raw))
\* a valid prefix keeps the nested view inside the inner one, whatever the root
PrefixContained ==
  Valid(raw) => \A r \in Roots : Under(CleanComps(r \o <<"m">>), JoinClean(r \o <<"m">>, CleanComps(raw) \o <<"b">>))
\* the hidden set is closed under re-spelling: cleaning twice hides the same
HiddenByCleanPath == Valid(raw) => FilterNotHides(CleanComps(raw)) = FilterNotHides(CleanRec(CleanComps(raw), <<>>, IsRooted(raw)))
\* stripping components keeps an archive entry inside the destination
ArchiveContained ==
  \A k \in 0..2 : LET e == ArchiveExpect(raw, k) IN
      e.kind = "write" => (e.at # <<>> /\ e.at[1] # ".." /\ \A i \in 1..Len(e.at) : e.at[i] \notin {".", "..", ""})

\* ---- emission (one line per raw path, all ops) ----
Case(p) == [raw |-> p, clean |-> CleanComps(p), rooted |-> IsRooted(p), valid |-> Valid(p),
            isroot |-> IsRootPath(p),
            expect |-> [o \in Ops |-> Expect(o, p)],
            filterNotHides |-> (Valid(p) /\ FilterNotHides(CleanComps(p))), prefixExpect |-> PrefixExpect(p),
            archive |-> [k \in {0, 1, 2} |-> ArchiveExpect(p, k)]]
EmitCase == (Emit /\ phase = "pending" /\ op = "get") => PrintT(<<"CASE", ToJson(Case(raw))>>)
=============================================================================

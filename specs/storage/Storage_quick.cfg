SPECIFICATION Spec
VIEW View
CONSTANTS
  Paths1 <- QuickPaths1
  Paths2 <- QuickPaths2
  Contents1 <- QuickContents1
  Contents2 <- QuickContents2
INVARIANTS TypeOK MapInverse ChainIsNested WalkPathWise UnionReports UnionCommutes StripIsIdentity SpellingsClean EmitSpell EmitState
ACTION_CONSTRAINT EmitEdge
CHECK_DEADLOCK FALSE

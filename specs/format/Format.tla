-------------------------------- MODULE Format --------------------------------
(* C07: formatting preserves meaning and comments and is idempotent.          *)
(*                                                                           *)
(* A source file is a valuation of slots over one skeleton that contains     *)
(* every construct of the language the formatter prints: a slot is either a  *)
(* comment site (a gap between two tokens that may carry no comment, a block *)
(* comment or a line comment) or a spelling choice (bracket style and        *)
(* separators of message literals, literal forms, labels, leading dots,      *)
(* order and repetition of imports and options, empty statements, white      *)
(* space).  Editing a slot is a step; TLC enumerates all files within        *)
(* MaxDev edits of the canonical spelling.                                    *)
(*                                                                           *)
(* What the specification predicts for the formatted file:                   *)
(*  - Owner(site): the declaration a comment written at the site belongs to  *)
(*    (the formatted file must attach it to the same declaration);           *)
(*  - Imports(w): the import statements, sorted and de-duplicated;           *)
(*  - Options(w): the file options, standard before custom, by name, equal   *)
(*    names in source order.                                                  *)
(* The harness adds the oracles that need the compiler: same descriptors,    *)
(* formatting the result again changes nothing.                               *)
EXTENDS Naturals, Sequences, FiniteSets, TLC, Json

CONSTANTS MaxDev, Emit

C == <<"none", "block", "line">>
\* comment sites: name |-> owner declaration
Owner == [
  file_head |-> "syntax", syntax_trail |-> "syntax", pkg_lead |-> "package", pkg_trail |-> "package",
  import_lead |-> "import:fmt/v1/opts.proto", import_trail |-> "import:fmt/v1/opts.proto",
  opt_lead |-> "option:java_package#1", opt_trail |-> "option:java_package#1",
  tags1_lead |-> "option:(fmt.v1.file_tags)#1", tags2_trail |-> "option:(fmt.v1.file_tags)#2",
  msg_lead |-> "message:M", msg_open_trail |-> "message:M", msg_close_lead |-> "message:M", msg_close_trail |-> "message:M",
  field_lead |-> "message:M/field:name", after_label |-> "message:M/field:name", after_type |-> "message:M/field:name",
  after_name |-> "message:M/field:name", after_eq |-> "message:M/field:name", before_opts |-> "message:M/field:name",
  in_opts_lead |-> "message:M/field:name", after_optval |-> "message:M/field:name", after_comma |-> "message:M/field:name",
  before_close_bracket |-> "message:M/field:name", field_trail |-> "message:M/field:name",
  oneof_lead |-> "message:M/oneof:choice", oneof_member_lead |-> "message:M/oneof:choice/field:inner_choice",
  oneof_close_lead |-> "message:M/oneof:choice",
  map_after_comma |-> "message:M/field:counts", map_lead |-> "message:M/field:counts",
  reserved_after_comma |-> "message:M/reserved#1", reserved_lead |-> "message:M/reserved#1",
  ext_range_lead |-> "message:M/extensions#1",
  inner_lead |-> "message:M/message:Inner", inner_field_trail |-> "message:M/message:Inner/field:v",
  enum_lead |-> "message:M/enum:E", enumval_lead |-> "message:M/enum:E/value:E_ZERO", enumval_trail |-> "message:M/enum:E/value:E_ONE",
  enumval_opts |-> "message:M/enum:E/value:E_ZERO",
  lit_lead |-> "option:(fmt.v1.file_rule)#1", lit_first_field |-> "option:(fmt.v1.file_rule)#1", lit_after_colon |-> "option:(fmt.v1.file_rule)#1",
  lit_after_sep |-> "option:(fmt.v1.file_rule)#1", lit_nested_open |-> "option:(fmt.v1.file_rule)#1", lit_nested_after_sep |-> "option:(fmt.v1.file_rule)#1",
  lit_nested_close_after_sep |-> "option:(fmt.v1.file_rule)#1", lit_array_elem |-> "option:(fmt.v1.file_rule)#1",
  lit_array_after_comma |-> "option:(fmt.v1.file_rule)#1", lit_array_elem_open |-> "option:(fmt.v1.file_rule)#1", lit_array_close |-> "option:(fmt.v1.file_rule)#1", lit_close |-> "option:(fmt.v1.file_rule)#1",
  extend_lead |-> "extend:google.protobuf.MessageOptions", extend_field_lead |-> "extend:google.protobuf.MessageOptions/field:ext_field",
  svc_lead |-> "service:S", rpc_lead |-> "service:S/rpc:Do", rpc_in_req |-> "service:S/rpc:Do", rpc_before_returns |-> "service:S/rpc:Do",
  rpc_body |-> "service:S/rpc:Do/option:idempotency_level#1", rpc_close_lead |-> "service:S/rpc:Do", rpc_plain_trail |-> "service:S/rpc:Plain",
  \* between the keyword `option` and the option name, in option statements that are not file options
  enumopt_after_keyword |-> "message:M/enum:E/option:allow_alias#1",
  msgopt_after_keyword |-> "message:M/option:(fmt.v1.msg_note)#1",
  rpcopt_after_keyword |-> "service:S/rpc:Do/option:idempotency_level#1",
  fileopt_after_keyword |-> "option:go_package#1",
  empty_lead |-> "message:M/*", eof |-> "eof" ]
Sites == DOMAIN Owner

\* spelling choices (first value = the spelling of the base file, which is deliberately not the formatted one everywhere)
Spelling == [
  syntax |-> <<"proto2", "proto3", "editions">>,
  whitespace |-> <<"normal", "compact", "airy", "tabs">>,
  import_order |-> <<"sorted", "reversed", "duplicate", "duplicate_first">>,
  \* the modifier of the import of google/protobuf/duration.proto (imports are sorted by name; a modifier survives)
  import_modifier |-> <<"plain", "weak", "public">>,
  option_order |-> <<"sorted", "custom_first", "reversed", "many">>,
  lit_nested_brackets |-> <<"braces", "angles">>,
  lit_sep |-> <<"comma", "none", "semicolon">>,
  lit_nested_sep |-> <<"none", "comma", "semicolon">>,
  lit_colon |-> <<"with", "without">>,
  lit_nested_size |-> <<"two", "one", "deep">>,
  lit_array |-> <<"strings", "one", "empty", "messages", "angle_messages", "floats">>,
  float_form |-> <<"1.5", "1.5e3", ".5", "inf", "-inf", "nan", "5.", "1e-2">>,
  int_form |-> <<"31", "0x1F", "037", "-5", "0">>,
  string_form |-> <<"plain", "escapes", "concat", "single_quoted", "hex_escapes", "unicode">>,
  dot_field |-> <<"none", "in_oneof", "labeled", "plain", "shadowed_in_oneof", "shadowed_plain">>,
  empty_stmt |-> <<"no", "top_level", "in_message", "in_enum", "in_service">>,
  field_opts |-> <<"two", "one", "literal", "none">>,
  group_field |-> <<"yes", "no">>,
  rpc_style |-> <<"body", "empty_body", "semicolon">>,
  reserved_form |-> <<"mixed", "single", "max", "names_only">>,
  ext_range_opts |-> <<"no", "yes">>,
  msg_option |-> <<"no", "simple", "literal">> ]
Choices == DOMAIN Spelling

Slots == Sites \cup Choices
Vals(s) == IF s \in Sites THEN {C[i] : i \in 1..3} ELSE {Spelling[s][i] : i \in 1..Len(Spelling[s])}
BaseOf(s) == IF s \in Sites THEN "none" ELSE Spelling[s][1]
Base == [s \in Slots |-> BaseOf(s)]
ASSUME Emit => PrintT(<<"BASE", ToJson(Base)>>)

\* constructs that only exist in proto2
Proto2Only(w) == w.syntax = "proto2"
\* a site exists only if the construct that carries it is written
SiteExists(s, w) ==
  CASE s \in {"after_label"} -> w.syntax # "proto3" /\ w.syntax # "editions"
    [] s \in {"ext_range_lead"} -> w.syntax # "proto3"
    [] s \in {"before_opts", "in_opts_lead", "after_optval", "before_close_bracket"} -> w.field_opts # "none"
    [] s = "after_comma" -> w.field_opts = "two"
    [] s = "oneof_member_lead" -> TRUE
    [] s \in {"lit_nested_after_sep"} -> w.lit_nested_size # "one"
    [] s \in {"lit_array_elem", "lit_array_close"} -> w.lit_array # "empty"
    [] s = "lit_array_after_comma" -> w.lit_array \in {"strings", "messages", "angle_messages", "floats"}
    \* right after the opening brace of a message literal that is an element of an array
    [] s = "lit_array_elem_open" -> w.lit_array = "messages"
    [] s \in {"rpc_body", "rpc_close_lead", "rpcopt_after_keyword"} -> w.rpc_style = "body"
    [] s = "msgopt_after_keyword" -> w.msg_option = "simple"
    [] s = "empty_lead" -> w.empty_stmt = "in_message"
    [] s = "reserved_after_comma" -> w.reserved_form \in {"mixed", "names_only"}
    [] s = "enumval_opts" -> TRUE
    [] OTHER -> TRUE

\* ------------------------------------------------------------------ header canonicalisation
ImportNames == <<"fmt/v1/opts.proto", "google/protobuf/any.proto", "google/protobuf/descriptor.proto", "google/protobuf/duration.proto">>
\* what is written, in source order
ImportsWritten(w) ==
  CASE w.import_order = "sorted" -> ImportNames
    [] w.import_order = "reversed" -> <<ImportNames[4], ImportNames[3], ImportNames[2], ImportNames[1]>>
    [] w.import_order = "duplicate" -> <<ImportNames[1], ImportNames[2], ImportNames[3], ImportNames[4], ImportNames[2]>>
    [] w.import_order = "duplicate_first" -> <<ImportNames[1], ImportNames[2], ImportNames[3], ImportNames[4], ImportNames[1]>>
\* a repeated import without a comment of its own is dropped (only the first occurrence ever carries one here)
ImportsFormatted(w) == ImportNames

\* file options in source order per choice; "many" has 14 options so that the sort leaves the small-slice regime
StdOpts == <<"cc_enable_arenas", "csharp_namespace", "go_package", "java_multiple_files", "java_outer_classname", "java_package",
             "objc_class_prefix", "optimize_for", "php_namespace", "ruby_package", "swift_prefix">>
OptionsWritten(w) ==
  CASE w.option_order = "sorted" -> <<"go_package", "java_package", "(fmt.v1.file_rule)", "(fmt.v1.file_tags)#b", "(fmt.v1.file_tags)#a">>
    [] w.option_order = "custom_first" -> <<"(fmt.v1.file_tags)#b", "(fmt.v1.file_rule)", "java_package", "(fmt.v1.file_tags)#a", "go_package">>
    [] w.option_order = "reversed" -> <<"(fmt.v1.file_tags)#b", "(fmt.v1.file_tags)#a", "(fmt.v1.file_rule)", "java_package", "go_package">>
    [] w.option_order = "many" -> <<"(fmt.v1.file_tags)#b", "swift_prefix", "(fmt.v1.file_tags)#a", "ruby_package", "php_namespace", "optimize_for",
                                    "(fmt.v1.file_tags)#c", "objc_class_prefix", "java_package", "java_outer_classname", "(fmt.v1.file_rule)",
                                    "java_multiple_files", "go_package", "(fmt.v1.file_tags)#d", "csharp_namespace", "cc_enable_arenas", "(fmt.v1.file_tags)#e">>
\* the expected order: standard options by name, then custom options by name, equal names in source order
TagValuesInOrder(w) == SelectSeq(OptionsWritten(w), LAMBDA o : o \in {"(fmt.v1.file_tags)#a", "(fmt.v1.file_tags)#b", "(fmt.v1.file_tags)#c", "(fmt.v1.file_tags)#d", "(fmt.v1.file_tags)#e"})
StdInOrder(w) == SelectSeq(StdOpts, LAMBDA o : \E i \in 1..Len(OptionsWritten(w)) : OptionsWritten(w)[i] = o)
OptionsFormatted(w) == StdInOrder(w) \o <<"(fmt.v1.file_rule)">> \o TagValuesInOrder(w)

\* ------------------------------------------------------------------ edits
VARIABLES w, ndev
vars == <<w, ndev>>
Init == w = Base /\ ndev = 0
Edit(s, v) == /\ ndev < MaxDev /\ w[s] = BaseOf(s) /\ v # BaseOf(s)
              /\ (s \in Sites => SiteExists(s, w))
              /\ w' = [w EXCEPT ![s] = v] /\ ndev' = ndev + 1
Next == \E s \in Slots : \E v \in Vals(s) : Edit(s, v)
Spec == Init /\ [][Next]_vars

\* a comment may only be emitted where its site is written
WellFormed == \A s \in Sites : w[s] # "none" => SiteExists(s, w)

TypeOK == \A s \in Slots : w[s] \in Vals(s)
\* sorting is a permutation and keeps the relative order of equal names
OptionsArePermutation == /\ Len(OptionsFormatted(w)) = Len(OptionsWritten(w))
                         /\ \A i \in 1..Len(OptionsWritten(w)) : \E j \in 1..Len(OptionsFormatted(w)) : OptionsFormatted(w)[j] = OptionsWritten(w)[i]
ImportsAreSortedSet == \A i \in 1..Len(ImportsWritten(w)) : \E j \in 1..Len(ImportsFormatted(w)) : ImportsFormatted(w)[j] = ImportsWritten(w)[i]

Delta(v) == {<<s, v[s]>> : s \in {t \in Slots : v[t] # BaseOf(t)}}
EmitCase == (Emit /\ WellFormed) => PrintT(<<"CASE", ToJson(
   [w |-> Delta(w),
    comments |-> {[site |-> s, style |-> w[s], owner |-> Owner[s]] : s \in {t \in Sites : w[t] # "none"}},
    importsWritten |-> ImportsWritten(w), imports |-> ImportsFormatted(w),
    optionsWritten |-> OptionsWritten(w), options |-> OptionsFormatted(w)])>>)
=============================================================================

SPECIFICATION Spec
CONSTANTS
  MaxDev = 2
  Emit = FALSE
INVARIANTS TypeOK OptionsArePermutation ImportsAreSortedSet EmitCase
CHECK_DEADLOCK FALSE

------------------------------- MODULE Digest -------------------------------
(* C08: module digests are a pure, sensitive function of content; manifests  *)
(* are canonical.                                                             *)
(*                                                                           *)
(* The hash is uninterpreted: H(x) is the term <<"H", x>> of a free algebra, *)
(* hence injective.  A digest is a term that mirrors the published           *)
(* construction; two states have the same digest term iff the construction   *)
(* gives the same bytes under an injective hash, and the harness evaluates   *)
(* the term with a real SHAKE256 to get the exact expected digest string.    *)
(*                                                                           *)
(* State: the files of module M (path -> content id), its name and targeting *)
(* (which must not matter), and the content of the modules it depends on     *)
(* (M's a.proto imports D's file, D's file may import E's).                   *)
EXTENDS Naturals, Sequences, FiniteSets, TLC, Json

CONSTANTS PathOrder,   \* all paths of the universe in byte-wise string order (computed from the real strings)
          MaxSteps, Emit

Paths == {PathOrder[i] : i \in 1..Len(PathOrder)}
Absent == "-"
Contents == {"c1", "c2", "ce"}
DocOrder == <<"buf.md", "README.md", "README.markdown">>
IsProto(p) == p \in {"a.proto", "t.proto", "t/x.proto", "p/a.proto", "p-q/a.proto", "d x/c.proto", "d/u-umlaut.proto", "d  e.proto", " lead.proto", "wide-space.proto"}

VARIABLES files,    \* [Paths -> Contents \cup {Absent}]
          name,     \* module name id (must not matter)
          target,   \* targeted? (must not matter)
          dep,      \* content id of D's file, or Absent when M has no dependency
          depdep,   \* content id of E's file (D imports E), or Absent
          depwkt,   \* D's file is a vendored well-known type (google/protobuf/timestamp.proto) instead of dep/d.proto
          steps, lastOp
vars == <<files, name, target, dep, depdep, depwkt, steps, lastOp>>

Present(fs) == {p \in Paths : fs[p] # Absent}
DocFile(fs) == IF \E i \in 1..3 : DocOrder[i] \in Present(fs)
               THEN DocOrder[CHOOSE i \in 1..3 : DocOrder[i] \in Present(fs) /\ \A j \in 1..(i - 1) : DocOrder[j] \notin Present(fs)]
               ELSE "none"
\* the module files: .proto files, the root LICENSE, the one chosen documentation file
ModuleFiles(fs) == {p \in Present(fs) : IsProto(p) \/ p = "LICENSE" \/ p = DocFile(fs)}

\* ---- terms ----
H(x) == [op |-> "H", arg |-> x]
Lit(s) == [op |-> "lit", s |-> s]
ContentOf(c) == [op |-> "content", id |-> c]
PathOf(p) == [op |-> "path", p |-> p]
Cat(seq) == [op |-> "cat", args |-> seq]
\* bufcas digest string "shake256:<hex of H>" and module digest string "b5:<hex of H>"
CasStr(h) == [op |-> "str", prefix |-> "shake256:", h |-> h]
B5Str(h) == [op |-> "str", prefix |-> "b5:", h |-> h]

\* manifest text: nodes sorted by path, "digest<SP><SP>path\n"
SortedModulePaths(fs) == LET idxs == {i \in 1..Len(PathOrder) : PathOrder[i] \in ModuleFiles(fs)} IN
  [k \in 1..Cardinality(idxs) |-> PathOrder[CHOOSE i \in idxs : Cardinality({j \in idxs : j < i}) = k - 1]]
ManifestText(fs) == LET sp == SortedModulePaths(fs) IN
  Cat([k \in 1..Len(sp) |-> Cat(<<CasStr(H(ContentOf(fs[sp[k]]))), Lit("  "), PathOf(sp[k]), Lit("\n")>>)])
FilesDigest(fs) == H(ManifestText(fs))
\* b5: H over the files digest string and the sorted dependency digest strings, joined by "\n"
B5(fs, depDigests) == H([op |-> "sortjoin", first |-> CasStr(FilesDigest(fs)), rest |-> {B5Str(d) : d \in depDigests}])
B4(fs) == FilesDigest(fs)

\* the dependency modules: one file each with the given content; E has no dependency
EFiles(c) == [p \in {"e/e.proto"} |-> c]
DigestE(c) == H([op |-> "sortjoin", first |-> CasStr(H(Cat(<<Cat(<<CasStr(H([op |-> "depcontent", m |-> "E", id |-> c])), Lit("  "), Lit("e/e.proto"), Lit("\n")>>)>>))), rest |-> {}])
DPath == IF depwkt THEN "google/protobuf/timestamp.proto" ELSE "dep/d.proto"
DigestD(c, e) == H([op |-> "sortjoin",
                    first |-> CasStr(H(Cat(<<Cat(<<CasStr(H([op |-> "depcontent", m |-> (IF depwkt THEN "W" ELSE "D"), id |-> c, imports |-> (e # Absent)])), Lit("  "), Lit(DPath), Lit("\n")>>)>>))),
                    rest |-> IF e = Absent THEN {} ELSE {B5Str(DigestE(e))}])
DepDigests == IF dep = Absent THEN {} ELSE ({DigestD(dep, depdep)} \cup (IF depdep = Absent THEN {} ELSE {DigestE(depdep)}))
Digest == B5(files, DepDigests)

\* ---- manifest round trip (ParseManifest transcribed: lines split on "\n", each line split on two spaces) ----
\* with these paths the only way a line fails to parse is a path that itself contains two consecutive spaces
RoundTrips(fs) == \A p \in ModuleFiles(fs) : p # "d  e.proto"

BaseSets ==
  { [p \in Paths |-> IF p \in S THEN "c1" ELSE Absent] :
      S \in { {"a.proto"}, {"a.proto", "t.proto", "t/x.proto", "LICENSE", "README.md"},
              {"a.proto", "p/a.proto", "p-q/a.proto", "buf.md", "README.markdown", "notes.txt", "sub/LICENSE"},
              {"a.proto", "d x/c.proto", "d/u-umlaut.proto", "LICENSE"} } }

Init == /\ files \in BaseSets /\ name = "n1" /\ target = TRUE
        /\ dep \in {Absent, "c1"} /\ depdep = Absent /\ depwkt \in BOOLEAN /\ (dep = Absent => ~depwkt)
        /\ steps = 0 /\ lastOp = [op |-> "init"]

Can == steps < MaxSteps
\* a.proto carries the import of the dependency, so it is never empty or absent; a module set needs
\* one targeted module, so M is only un-targeted while the (always targeted) dependency exists
SetFile(p, c) == /\ Can /\ files[p] # c /\ (p = "a.proto" => c \in {"c1", "c2"})
                 /\ files' = [files EXCEPT ![p] = c]
                 /\ lastOp' = [op |-> "setfile", path |-> p, content |-> c] /\ steps' = steps + 1
                 /\ UNCHANGED <<name, target, dep, depdep, depwkt>>
Rename == /\ Can /\ name' = (IF name = "n1" THEN "n2" ELSE "n1") /\ lastOp' = [op |-> "rename"] /\ steps' = steps + 1
          /\ UNCHANGED <<files, target, dep, depdep, depwkt>>
Retarget == /\ Can /\ dep # Absent /\ target' = ~target /\ lastOp' = [op |-> "retarget"] /\ steps' = steps + 1
            /\ UNCHANGED <<files, name, dep, depdep, depwkt>>
\* (the dependency can only go away while M itself is targeted: a module set needs one targeted module)
SetDep(c) == /\ Can /\ dep # c /\ (c = Absent => target) /\ dep' = c /\ depdep' = (IF c = Absent THEN Absent ELSE depdep)
             /\ lastOp' = [op |-> "setdep", content |-> c] /\ steps' = steps + 1
             /\ depwkt' = (IF c = Absent THEN FALSE ELSE depwkt)
             /\ UNCHANGED <<files, name, target>>
SetDepDep(c) == /\ Can /\ dep # Absent /\ ~depwkt /\ depdep # c /\ depdep' = c
                /\ lastOp' = [op |-> "setdepdep", content |-> c] /\ steps' = steps + 1
                /\ UNCHANGED <<files, name, target, dep, depwkt>>
Next == \/ \E p \in Paths : \E c \in Contents \cup {Absent} : SetFile(p, c)
        \/ Rename \/ Retarget
        \/ \E c \in {"c1", "c2", Absent} : SetDep(c)
        \/ \E c \in {"c1", "c2", Absent} : SetDepDep(c)
Spec == Init /\ [][Next]_vars
View == <<files, name, target, dep, depdep, depwkt, steps>>

\* ---- laws ----
ModuleContent(fs) == {<<p, fs[p]>> : p \in ModuleFiles(fs)}
\* the digest changes exactly when the module files or the dependency digests change (action property)
Sensitive == [][ (Digest' = Digest) <=> (ModuleContent(files') = ModuleContent(files) /\ DepDigests' = DepDigests) ]_vars
\* name, targeting and non-module files never matter
Frame == [][ (lastOp'.op \in {"rename", "retarget"}) => Digest' = Digest ]_vars
NonModuleIrrelevant == [][ (lastOp'.op = "setfile" /\ lastOp'.path \notin ModuleFiles(files) /\ lastOp'.path \notin ModuleFiles(files')) => Digest' = Digest ]_vars

EmitState == Emit => PrintT(<<"STATE", ToJson([files |-> {[p |-> p, c |-> files[p]] : p \in Present(files)}, name |-> name, target |-> target,
                                dep |-> dep, depdep |-> depdep, depwkt |-> depwkt, modulefiles |-> ModuleFiles(files), b5 |-> Digest, b4 |-> B4(files),
                                manifest |-> ManifestText(files), roundtrips |-> RoundTrips(files),
                                depDigest |-> IF dep = Absent THEN Lit("") ELSE B5Str(DigestD(dep, depdep))])>>)
=============================================================================

SPECIFICATION Spec
VIEW View
INVARIANTS EmitState
PROPERTIES Sensitive Frame NonModuleIrrelevant
CHECK_DEADLOCK FALSE

SPECIFICATION Spec
INVARIANTS Contained NothingOnFailure SpellingsAgree EmitCase
CHECK_DEADLOCK FALSE

SPECIFICATION Spec
INVARIANTS DepsAreReachability DirectSubset NewestWins EmitCase
CHECK_DEADLOCK FALSE

----------------------------- MODULE TypeFilter -----------------------------
(* C12: type filtering yields a self-contained, minimal, otherwise unchanged  *)
(* image.                                                                     *)
(*                                                                           *)
(* A fixed, deliberately tangled schema (messages with nested types, a map,  *)
(* a oneof, enums, an extension, custom options with a message value, a      *)
(* service with two methods, a file without types) and every filter with up  *)
(* to MaxNames names in include and exclude together.  Keep is the intended  *)
(* semantics: the least set containing the includes (everything, for an      *)
(* exclude-only filter) closed under "needs", where excluded elements and    *)
(* whatever refers to them (fields, methods, extensions) are dropped.        *)
EXTENDS Naturals, Sequences, FiniteSets, TLC, Json

CONSTANTS MaxNames, Emit

\* ------------------------------------------------------------------ schema
\* element |-> [kind, parent ("" = top level), pkg]
Elem ==
  [ In      |-> [kind |-> "message", parent |-> "", pkg |-> "pkg"],
    Out     |-> [kind |-> "message", parent |-> "", pkg |-> "pkg"],
    Detail  |-> [kind |-> "message", parent |-> "", pkg |-> "pkg"],
    Inner   |-> [kind |-> "message", parent |-> "Detail", pkg |-> "pkg"],
    Kind    |-> [kind |-> "enum", parent |-> "Detail", pkg |-> "pkg"],
    Color   |-> [kind |-> "enum", parent |-> "", pkg |-> "pkg"],
    Unrelated |-> [kind |-> "message", parent |-> "", pkg |-> "pkg"],
    MapVal  |-> [kind |-> "message", parent |-> "", pkg |-> "pkg"],
    Ext     |-> [kind |-> "message", parent |-> "", pkg |-> "pkg"],
    ExtVal  |-> [kind |-> "message", parent |-> "", pkg |-> "pkg"],
    ext_field |-> [kind |-> "extension", parent |-> "", pkg |-> "pkg"],
    WithOpt |-> [kind |-> "message", parent |-> "", pkg |-> "pkg"],
    Svc     |-> [kind |-> "service", parent |-> "", pkg |-> "pkg"],
    Get     |-> [kind |-> "method", parent |-> "Svc", pkg |-> "pkg"],
    Other   |-> [kind |-> "method", parent |-> "Svc", pkg |-> "pkg"],
    Lonely  |-> [kind |-> "message", parent |-> "", pkg |-> "pkg"],
    OptMsg  |-> [kind |-> "message", parent |-> "", pkg |-> "opts"],
    msg_opt |-> [kind |-> "extension", parent |-> "", pkg |-> "opts"],
    field_opt |-> [kind |-> "extension", parent |-> "", pkg |-> "opts"],
    \* a second user of field_opt in another file; a user of the nested enum Detail.Kind; an option
    \* carrying a google.protobuf.Any whose payload (type URL with a path prefix) is Payload
    WithOpt2 |-> [kind |-> "message", parent |-> "", pkg |-> "pkg"],
    UsesKind |-> [kind |-> "message", parent |-> "", pkg |-> "pkg"],
    Payload  |-> [kind |-> "message", parent |-> "", pkg |-> "pkg"],
    Holder   |-> [kind |-> "message", parent |-> "", pkg |-> "opts"],
    any_opt  |-> [kind |-> "extension", parent |-> "", pkg |-> "opts"],
    WithAny  |-> [kind |-> "message", parent |-> "", pkg |-> "pkg"],
    \* a method whose response type lives in a file that a.proto imports for nothing else
    Far      |-> [kind |-> "method", parent |-> "Svc", pkg |-> "pkg"],
    Remote   |-> [kind |-> "message", parent |-> "", pkg |-> "pkg"],
    \* a chain of extensions: ExtVal (the type of ext_field) is itself extended by ext_chain, whose type ChainVal is
    \* extended by the scalar ext_leaf
    ChainVal |-> [kind |-> "message", parent |-> "", pkg |-> "pkg"],
    ext_chain |-> [kind |-> "extension", parent |-> "", pkg |-> "pkg"],
    ext_leaf |-> [kind |-> "extension", parent |-> "", pkg |-> "pkg"],
    \* the first message of a file of its own, with a nested type: kept as a mere namespace when only the nested type
    \* is included, at a source path that does not move
    First    |-> [kind |-> "message", parent |-> "", pkg |-> "pkg"],
    Nested1  |-> [kind |-> "message", parent |-> "First", pkg |-> "pkg"],
    \* c.proto also declares a message that nothing of the other files uses and that needs a type of e.proto, a file
    \* only c.proto imports (c.proto and e.proto are the files that can be mere imports of the image, see libImport)
    RemoteExtra |-> [kind |-> "message", parent |-> "", pkg |-> "pkg"],
    Deep     |-> [kind |-> "message", parent |-> "", pkg |-> "pkg"] ]
E == DOMAIN Elem
\* the file that declares each element
FileOf == [e \in E |-> IF Elem[e].pkg = "opts" THEN "opts.proto"
                       ELSE IF e = "Lonely" THEN "lonely.proto"
                       ELSE IF e \in {"WithOpt2", "UsesKind", "Payload", "WithAny"} THEN "b.proto"
                       ELSE IF e \in {"Remote", "RemoteExtra"} THEN "c.proto" ELSE IF e = "Deep" THEN "e.proto" ELSE IF e \in {"First", "Nested1"} THEN "d.proto" ELSE "a.proto"]
Packages == {"pkg", "opts"}
\* fields of messages: <<field name, referenced element or "">>
Fields ==
  [ In |-> {<<"q", "">>}, Out |-> {<<"d", "Detail">>, <<"c", "Color">>},
    Detail |-> {<<"s", "">>, <<"inner", "Inner">>, <<"kind", "Kind">>}, Inner |-> {<<"i", "">>},
    Unrelated |-> {<<"u", "">>, <<"m", "MapVal">>, <<"in", "In">>, <<"out", "Out">>},
    MapVal |-> {<<"v", "">>}, Ext |-> {}, ExtVal |-> {<<"e", "">>}, WithOpt |-> {<<"w", "">>}, Lonely |-> {<<"l", "">>},
    OptMsg |-> {<<"note", "">>},
    WithOpt2 |-> {<<"w2", "">>}, UsesKind |-> {<<"k", "Kind">>}, Payload |-> {<<"p", "">>},
    Holder |-> {<<"extra", "">>}, WithAny |-> {<<"a", "">>}, Remote |-> {<<"r", "">>}, ChainVal |-> {<<"cv", "">>},
    First |-> {<<"f", "">>}, Nested1 |-> {<<"n", "">>},
    RemoteExtra |-> {<<"deep", "Deep">>}, Deep |-> {<<"dp", "">>} ]
Messages == DOMAIN Fields
\* methods: input, output
MethodIO == [Get |-> <<"In", "Out">>, Other |-> <<"Unrelated", "MapVal">>, Far |-> <<"In", "Remote">>]
\* extensions: extendee ("" = a descriptor.proto options message), value type ("" = scalar)
ExtInfo == [ext_field |-> <<"Ext", "ExtVal">>, msg_opt |-> <<"", "OptMsg">>, field_opt |-> <<"", "">>, any_opt |-> <<"", "Holder">>,
            ext_chain |-> <<"ExtVal", "ChainVal">>, ext_leaf |-> <<"ChainVal", "">>]
Extensions == {x \in E : Elem[x].kind = "extension"}
\* custom options used by elements
UsesOptions == [e \in E |-> IF e = "WithOpt" THEN {"msg_opt", "field_opt"} ELSE IF e = "WithOpt2" THEN {"field_opt"}
                              ELSE IF e = "WithAny" THEN {"any_opt"} ELSE {}]
\* message types carried as google.protobuf.Any payloads inside the option values of an element
AnyPayloads == [e \in E |-> IF e = "WithAny" THEN {"Payload"} ELSE {}]
Children(e) == {c \in E : Elem[c].parent = e}
RECURSIVE Descendants(_)
Descendants(e) == Children(e) \cup UNION {Descendants(c) : c \in Children(e)}
RECURSIVE Ancestors(_)
Ancestors(e) == IF Elem[e].parent = "" THEN {} ELSE {Elem[e].parent} \cup Ancestors(Elem[e].parent)

\* names a filter may use: elements and packages
Names == E \cup Packages
Expand(n) == IF n \in Packages THEN {e \in E : Elem[e].pkg = n} ELSE {n}

\* ------------------------------------------------------------------ filters
VARIABLES include, exclude, customOptions,
          libImport, \* c.proto and e.proto belong to a module that is not targeted: they are imports of the image
          knownExt   \* known-extension retention (the default of buf build --type and of buf generate): the extensions of a
                     \* message that is kept are kept with it
vars == <<include, exclude, customOptions, knownExt, libImport>>
SmallSubsets(S, n) == {T \in ({{}} \cup (IF n >= 1 THEN {{a} : a \in S} ELSE {}) \cup (IF n >= 2 THEN {{a, b} : a \in S, b \in S} ELSE {}) \cup
                              (IF n >= 3 THEN {{a, b, c} : a \in S, b \in S, c \in S} ELSE {})) : Cardinality(T) <= n}
\* (the excluded names are chosen among the names that are not included and within what is left of the bound: TLC then
\*  only enumerates the pairs that are filters, not the full product)
Init == /\ \E inc \in SmallSubsets(Names, MaxNames) :
             \E exc \in SmallSubsets(Names \ inc, MaxNames - Cardinality(inc)) :
                /\ Cardinality(inc) + Cardinality(exc) >= 1
                /\ include = inc /\ exclude = exc
        /\ customOptions \in BOOLEAN
        \* (retention only matters for a filter that includes something; it is combined with custom options on)
        /\ knownExt \in BOOLEAN /\ (knownExt => customOptions /\ include # {})
        \* (files as imports are explored on the filters with a single name)
        \* (filters with three names are explored with custom options on and retention off)
        /\ (Cardinality(include) + Cardinality(exclude) >= 3 => (customOptions /\ ~knownExt))
        /\ libImport \in BOOLEAN /\ (libImport => (customOptions /\ ~knownExt /\ Cardinality(include) + Cardinality(exclude) = 1))
Next == UNCHANGED vars
Spec == Init /\ [][Next]_vars

\* ------------------------------------------------------------------ semantics
\* everything an exclusion takes with it: nested declarations, methods of a service
X == UNION {Expand(n) \cup UNION {Descendants(e) : e \in Expand(n)} : n \in exclude}
\* a method / extension that refers to an excluded element goes away with it
MethodDropped(m) == m \in X \/ MethodIO[m][1] \in X \/ MethodIO[m][2] \in X
ExtDropped(x) == x \in X \/ ExtInfo[x][1] \in X \/ ExtInfo[x][2] \in X
\* explicit includes
I == UNION {Expand(n) : n \in include}
\* an include that cannot be honoured
Conflict == \/ I \cap X # {}
            \/ \E m \in I : Elem[m].kind = "method" /\ MethodDropped(m)
            \/ \E x \in I : Elem[x].kind = "extension" /\ ExtDropped(x)
\* (every file of the schema is a target file of the image, none is an import)
\* an element of a file that is an import of the image
Import(e) == libImport /\ FileOf[e] \in {"c.proto", "e.proto"}
\* (without included types everything of the target files that is not excluded is kept; of the imports, what that needs)
Roots == IF include = {} THEN {e \in E : e \notin X /\ ~Import(e)} ELSE I
\* direct needs of a kept element, without known-extension retention
NeedsBase(e) ==
  LET k == Elem[e].kind IN
  (IF k = "message" THEN {f[2] : f \in {g \in Fields[e] : g[2] # "" /\ g[2] \notin X}} ELSE {})
  \cup (IF k = "service" THEN {m \in Children(e) : ~MethodDropped(m)} ELSE {})
  \cup (IF k = "method" THEN {MethodIO[e][1], MethodIO[e][2]} ELSE {})
  \cup (IF k = "extension" THEN {x \in {ExtInfo[e][1], ExtInfo[e][2]} : x # ""} ELSE {})
  \cup (IF customOptions THEN {o \in UsesOptions[e] : ~ExtDropped(o)} ELSE {})
  \cup (IF customOptions /\ \A o \in UsesOptions[e] : ~ExtDropped(o) THEN {x \in AnyPayloads[e] : x \notin X} ELSE {})
\* the options message of descriptor.proto a custom option extends
OptTarget == [msg_opt |-> "MessageOptions", any_opt |-> "MessageOptions", field_opt |-> "FieldOptions"]
\* Known extensions of a kept message of the schema.  An extension that the filter names keeps the message it
\* extends like any other element it needs; for a custom option that message is an options message of
\* descriptor.proto, whose other extensions - the other custom options for the same kind of element - are then
\* retained as well.  (A custom option that is only kept because a kept element *uses* it does not make the options
\* message a kept message in this sense.)
KnownExtNeeds(e) ==
  IF Elem[e].kind = "message" THEN {x \in Extensions : ExtInfo[x][1] = e /\ ~ExtDropped(x)}
  ELSE IF Elem[e].kind = "extension" /\ e \in DOMAIN OptTarget /\ e \in UNION {Expand(n) : n \in include}
       THEN {x \in DOMAIN OptTarget : OptTarget[x] = OptTarget[e] /\ ~ExtDropped(x)}
  ELSE {}
Needs(e) == NeedsBase(e) \cup (IF knownExt THEN KnownExtNeeds(e) ELSE {})
RECURSIVE CloseBase(_)
CloseBase(S) == LET T == S \cup UNION {NeedsBase(e) : e \in S} IN IF T = S THEN S ELSE CloseBase(T)
RECURSIVE Close(_)
Close(S) == LET T == S \cup UNION {Needs(e) : e \in S} IN IF T = S THEN S ELSE Close(T)
KeptStart == {e \in Roots : ~(Elem[e].kind = "method" /\ MethodDropped(e)) /\ ~(Elem[e].kind = "extension" /\ ExtDropped(e))}
Kept == Close(KeptStart)
\* enclosing declarations survive as shells
Shells == LET K == Kept IN (UNION {Ancestors(e) : e \in K}) \ K
Survive == Kept \cup Shells
\* self-contained: a file that keeps an element must (still) import the files of what that element needs
NeededImports == LET K == Kept IN UNION {{<<FileOf[e], FileOf[n]>> : n \in {x \in Needs(e) : FileOf[x] # FileOf[e]}} : e \in K}
SurvivingFields(m) == IF m \in Kept THEN {f[1] : f \in {g \in Fields[m] : g[2] = "" \/ g[2] \notin X}} ELSE {}

\* Without included types the other elements of an import that is still used may survive as well (nothing names
\* them, nothing excludes them); whatever survives must still link, so what they need survives with them.
Optional == IF include = {} /\ ~Conflict /\ libImport
            THEN LET K == Kept IN Close({e \in E : Import(e) /\ e \notin X /\ FileOf[e] \in {FileOf[k] : k \in K}}) \ Survive ELSE {}
OptionalNeedsNothingExcluded == ~Conflict => Optional \cap X = {}

\* ------------------------------------------------------------------ laws of the intended semantics
\* (K == Kept: the closure is computed once per law, not once per quantified element)
Closed == ~Conflict => LET K == Kept IN \A e \in K : Needs(e) \subseteq K
NoExcluded == ~Conflict => LET K == Kept IN
   K \cap X = {} /\ \A m \in K \cap Messages : \A f \in Fields[m] : ((f[2] = "" \/ f[2] \notin X) /\ f[2] # "") => f[2] \in K
Minimal == (~Conflict /\ include # {}) => LET K == Kept IN \A e \in K : e \in I \/ \E d \in K : e \in Needs(d)
Idempotent == ~Conflict => LET K == Kept IN Close(K) = K
\* a filter over existing names fails only on a conflict between its includes and its excludes
NoConflictWithoutInclude == include = {} => ~Conflict

\* retention never loses anything (what is kept without it is kept with it), and what it adds is extensions and
\* what they need
KnownExtOnlyAdds == ~Conflict => CloseBase(KeptStart) \subseteq Kept
KnownExtIsFixpoint == (~Conflict /\ knownExt) => LET K == Kept IN \A m \in K : KnownExtNeeds(m) \subseteq K
EmitCase == Emit => PrintT(<<"CASE", ToJson([include |-> include, exclude |-> exclude, customOptions |-> customOptions, knownExt |-> knownExt,
    libImport |-> libImport, optional |-> Optional,
    conflict |-> Conflict,
    survive |-> IF Conflict THEN {} ELSE Survive,
    shells |-> IF Conflict THEN {} ELSE Shells,
    fields |-> IF Conflict THEN {} ELSE {[m |-> m, fields |-> SurvivingFields(m)] : m \in Kept \cap Messages},
    imports |-> IF Conflict THEN {} ELSE {[from |-> p[1], to |-> p[2]] : p \in NeededImports},
    excluded |-> X])>>)
=============================================================================

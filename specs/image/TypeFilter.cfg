SPECIFICATION Spec
INVARIANTS Closed NoExcluded Minimal Idempotent NoConflictWithoutInclude KnownExtOnlyAdds KnownExtIsFixpoint OptionalNeedsNothingExcluded EmitCase
CHECK_DEADLOCK FALSE

SPECIFICATION Spec
INVARIANTS Closed NoExcluded Minimal Idempotent NoConflictWithoutInclude EmitCase
CHECK_DEADLOCK FALSE

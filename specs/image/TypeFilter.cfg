SPECIFICATION Spec
INVARIANTS Closed NoExcluded Minimal Idempotent NoConflictWithoutInclude KnownExtOnlyAdds KnownExtIsFixpoint EmitCase
CHECK_DEADLOCK FALSE

------------------------------ MODULE ManagedV1 ------------------------------
(* C18, buf.gen.yaml v1 / v1beta1 form of managed mode.                      *)
(*                                                                           *)
(* A v1 `managed:` section is a record of named sections (booleans, and      *)
(* default / except / override maps keyed by module, plus a per-file         *)
(* `override:` map keyed by option and file path).  The reader translates it *)
(* to the ordered disable / override rule lists of Managed.tla               *)
(* (newGenerateManagedConfigFromExternalV1): Translate below transcribes     *)
(* that translation, section by section in the order of the code, `except`   *)
(* becoming a disable rule for the *value* option of the module, `override`  *)
(* an override rule for the module (sorted by module name), the per-file     *)
(* overrides last (sorted by option name, then path).  What Modify must do   *)
(* is then Decide of Managed.tla over the translated lists.                  *)
(* TLC enumerates every v1 section record in which at most MaxSections       *)
(* sections are present (each section over its own small set of shapes).     *)
EXTENDS Managed, SequencesExt

CONSTANTS MaxSections

VARIABLE v1
varsV1 == <<vars, v1>>

Absent == "absent"

\* shapes per section ------------------------------------------------------
BoolShapes == {Absent, "true", "false"}
\* [present, default, except (set of modules), override (set of <<module, value>>, at most one per module)]
Sec(d, e, o) == [present |-> TRUE, default |-> d, except |-> e, override |-> o]
NoSec == [present |-> FALSE, default |-> "", except |-> {}, override |-> {}]
NoMap == {}
JavaPrefixShapes == {NoSec,
  Sec("org", {}, NoMap), Sec("org", {ModB}, NoMap), Sec("org", {}, {<<ModA, "net">>}),
  Sec("org", {ModB}, {<<ModA, "net">>}), Sec("org", {}, {<<ModA, "net">>, <<ModB, "io">>})}
CsharpShapes == {NoSec, Sec("", {ModA}, NoMap), Sec("", {}, {<<ModB, "Corp.Ns">>}), Sec("", {ModA}, {<<ModB, "Corp.Ns">>})}
OptimizeShapes == {NoSec, Sec("CODE_SIZE", {}, NoMap), Sec("CODE_SIZE", {ModB}, NoMap), Sec("LITE_RUNTIME", {}, {<<ModB, "SPEED">>}),
  Sec("SPEED", {ModA}, {<<ModB, "CODE_SIZE">>})}
GoPrefixShapes == {NoSec, Sec("example.com/gen", {}, NoMap), Sec("example.com/gen", {ModB}, NoMap), Sec("example.com/gen", {}, {<<ModA, "corp.dev/x">>})}
ObjcShapes == {NoSec, Sec("ABC", {}, NoMap), Sec("ABC", {ModA}, NoMap), Sec("", {}, {<<ModB, "XYZ">>}), Sec("", {ModA}, NoMap)}
RubyShapes == {NoSec, Sec("", {ModB}, NoMap), Sec("", {}, {<<ModA, "Acme::Ruby">>})}
\* per-file overrides, in the order the reader produces them: by option key, then by path
PF(o, p, v) == [option |-> o, path |-> p, value |-> v]
PerFilePool == <<
  PF("cc_enable_arenas", <<"other", "o.proto">>, "false"),
  PF("go_package", <<"other", "o.proto">>, "x/y;z"),
  PF("java_multiple_files", <<"other", "o.proto">>, "true"),
  PF("java_outer_classname", <<"acme", "pay", "v1", "pay.proto">>, "PayOuter"),
  PF("java_package", <<"acme", "pay", "v1", "pay.proto">>, "fixed.pkg"),
  PF("java_package_prefix", <<"acme", "pay", "v1", "pay.proto">>, "dev"),
  PF("java_package_prefix", <<"acme", "payroll">>, "dir"),
  PF("optimize_for", <<"acme", "payroll", "v1", "payroll.proto">>, "SPEED"),
  PF("ruby_package", <<"other", "o.proto">>, "Other::Fixed") >>
PerFileShapes == {S \in SUBSET (1..Len(PerFilePool)) : Cardinality(S) <= 2}

Versions == {"v1", "v1beta1"}
V1Configs ==
  [ version : Versions, on : BOOLEAN,
    cc : BoolShapes, jmf : BoolShapes, jscu : BoolShapes,
    jpp : JavaPrefixShapes, csharp : CsharpShapes, opt : OptimizeShapes, gpp : GoPrefixShapes, objc : ObjcShapes, ruby : RubyShapes,
    perfile : PerFileShapes ]
SectionsPresent(c) ==
  Cardinality({k \in {"cc", "jmf", "jscu"} : c[k] # Absent}) + Cardinality({k \in {"jpp", "csharp", "opt", "gpp", "objc", "ruby"} : c[k].present})
  + Cardinality(c.perfile)
\* v1beta1 only has the three `options:` keys (cc_enable_arenas, java_multiple_files, optimize_for as a plain value)
WellFormed(c) ==
  /\ SectionsPresent(c) <= MaxSections
  /\ c.version = "v1beta1" =>
       /\ c.jscu = Absent /\ ~c.jpp.present /\ ~c.csharp.present /\ ~c.gpp.present /\ ~c.objc.present /\ ~c.ruby.present /\ c.perfile = {}
       /\ c.opt.except = {} /\ c.opt.override = {}

\* translation ---------------------------------------------------------------
SetToSortedSeq(S) == \* modules sort by name: ModA < ModB
  (IF ModA \in S THEN <<ModA>> ELSE <<>>) \o (IF ModB \in S THEN <<ModB>> ELSE <<>>)
SetToSortedSeqNat(S) == SetToSortSeq(S, LAMBDA a, b : a < b)
ValueFor(shape, m) == (CHOOSE p \in shape.override : p[1] = m)[2]

BoolOverride(shape, o) == IF shape = Absent THEN <<>> ELSE <<ORule(<<>>, "", o, "file", "", shape)>>
\* a section with default / except / override: (exceptOption is the value option the exception disables)
SecDisables(shape, exceptOption) ==
  IF ~shape.present THEN <<>>
  ELSE LET ms == SetToSortedSeq(shape.except) IN [i \in 1..Len(ms) |-> DRule(<<>>, ms[i], exceptOption, Unspec, "")]
SecOverrides(shape, overrideOption) ==
  IF ~shape.present THEN <<>>
  ELSE (IF shape.default = "" THEN <<>> ELSE <<ORule(<<>>, "", overrideOption, "file", "", shape.default)>>)
       \o LET ms == SetToSortedSeq({p[1] : p \in shape.override}) IN [i \in 1..Len(ms) |-> ORule(<<>>, ms[i], overrideOption, "file", "", ValueFor(shape, ms[i]))]
PerFileOverrides(S) ==
  LET idx == SetToSortedSeqNat(S) IN [i \in 1..Len(idx) |-> ORule(PerFilePool[idx[i]].path, "", PerFilePool[idx[i]].option, "file", "", PerFilePool[idx[i]].value)]

TrDisables(c) ==
  SecDisables(c.jpp, "java_package") \o SecDisables(c.csharp, "csharp_namespace") \o SecDisables(c.opt, "optimize_for")
  \o SecDisables(c.gpp, "go_package") \o SecDisables(c.objc, "objc_class_prefix") \o SecDisables(c.ruby, "ruby_package")
TrOverrides(c) ==
  BoolOverride(c.cc, "cc_enable_arenas") \o BoolOverride(c.jmf, "java_multiple_files") \o BoolOverride(c.jscu, "java_string_check_utf8")
  \o SecOverrides(c.jpp, "java_package_prefix") \o SecOverrides(c.csharp, "csharp_namespace") \o SecOverrides(c.opt, "optimize_for")
  \o SecOverrides(c.gpp, "go_package_prefix") \o SecOverrides(c.objc, "objc_class_prefix") \o SecOverrides(c.ruby, "ruby_package")
  \o PerFileOverrides(c.perfile)

\* (nested quantifiers with the bound checked as early as possible: TLC prunes instead of filtering the full product)
B(x) == IF x = Absent THEN 0 ELSE 1
P(x) == IF x.present THEN 1 ELSE 0
InitV1 ==
  /\ \E ver \in Versions, on \in BOOLEAN, cc \in BoolShapes, jmf \in BoolShapes, jscu \in BoolShapes :
       /\ B(cc) + B(jmf) + B(jscu) <= MaxSections
       /\ \E jpp \in JavaPrefixShapes, csharp \in CsharpShapes :
            /\ B(cc) + B(jmf) + B(jscu) + P(jpp) + P(csharp) <= MaxSections
            /\ \E opt \in OptimizeShapes, gpp \in GoPrefixShapes :
                 /\ B(cc) + B(jmf) + B(jscu) + P(jpp) + P(csharp) + P(opt) + P(gpp) <= MaxSections
                 /\ \E objc \in ObjcShapes, ruby \in RubyShapes :
                      /\ B(cc) + B(jmf) + B(jscu) + P(jpp) + P(csharp) + P(opt) + P(gpp) + P(objc) + P(ruby) <= MaxSections
                      /\ \E pf \in PerFileShapes :
                           LET c == [version |-> ver, on |-> on, cc |-> cc, jmf |-> jmf, jscu |-> jscu, jpp |-> jpp, csharp |-> csharp,
                                     opt |-> opt, gpp |-> gpp, objc |-> objc, ruby |-> ruby, perfile |-> pf]
                           IN WellFormed(c) /\ v1 = c
  /\ enabled = v1.on
  /\ disables = TrDisables(v1)
  /\ overrides = TrOverrides(v1)
NextV1 == UNCHANGED varsV1
SpecV1 == InitV1 /\ [][NextV1]_varsV1

\* laws of the translation ---------------------------------------------------
\* an excepted module keeps the value option of every one of its files
ExceptMeansUntouched ==
  \A k \in {"jpp", "csharp", "opt", "gpp", "objc", "ruby"} : v1[k].present =>
    \A m \in v1[k].except : \A f \in FileIds : Files[f].module = m =>
      LET o == CASE k = "jpp" -> "java_package" [] k = "csharp" -> "csharp_namespace" [] k = "opt" -> "optimize_for"
                 [] k = "gpp" -> "go_package" [] k = "objc" -> "objc_class_prefix" [] k = "ruby" -> "ruby_package"
      IN Decide(f, o) = Keep
\* a per-file override of a simple option decides that option for exactly the files under its path
PerFileWins ==
  \A i \in v1.perfile : LET pf == PerFilePool[i] IN
    pf.option \in SimpleOpts => \A f \in FileIds :
      (enabled /\ ~Files[f].wkt /\ IsPrefixSeq(pf.path, Files[f].path) /\ ~FileOptDisabled(f, pf.option) /\ Decide(f, pf.option) # Keep)
         => Decide(f, pf.option) = SetTo(Lit(pf.value))
\* the v1 form has no field rules: js_type is never touched
NoJsInV1 == \A fld \in Fields : DecideJs(fld) = Keep

EmitCaseV1 == Emit => PrintT(<<"CASE", ToJson(
  [v1 |-> [version |-> v1.version, on |-> v1.on, cc |-> v1.cc, jmf |-> v1.jmf, jscu |-> v1.jscu,
           jpp |-> v1.jpp, csharp |-> v1.csharp, opt |-> v1.opt, gpp |-> v1.gpp, objc |-> v1.objc, ruby |-> v1.ruby,
           perfile |-> [i \in 1..Len(SetToSortedSeqNat(v1.perfile)) |-> PerFilePool[SetToSortedSeqNat(v1.perfile)[i]]]],
   enabled |-> enabled, disables |-> disables, overrides |-> overrides,
   sets |-> UNION {{[file |-> f, opt |-> o, value |-> Decide(f, o).value] : o \in {x \in FileOpts : Decide(f, x) # Keep}} : f \in FileIds},
   jssets |-> {[file |-> fld.file, field |-> fld.name, value |-> DecideJs(fld).value] : fld \in {x \in Fields : DecideJs(x) # Keep}},
   sweep |-> Sweep, jssweep |-> JsSweep])>>)
=============================================================================

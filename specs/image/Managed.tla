------------------------------- MODULE Managed -------------------------------
(* C18: managed mode rewrites only what it governs.                           *)
(*                                                                           *)
(* Files with packages, modules and pre-set options; a managed configuration *)
(* = enabled flag, an ordered list of disable rules and an ordered list of   *)
(* override rules.  Decide transcribes bufimagemodify (isFileOptionDisabled- *)
(* ForFile, overrideFromConfig: last match wins; stringOverrideFromConfig:   *)
(* a value override resets prefix/suffix, a prefix override keeps the        *)
(* suffix; defaults per option; "already equal => untouched"; js_type only   *)
(* for 64-bit integer fields, with per-field disables and overrides).        *)
(* Option values are terms that the harness renders (library string          *)
(* functions are uninterpreted).  TLC enumerates every configuration with    *)
(* <= MaxRules rules of each kind from the rule pools.                       *)
EXTENDS Naturals, Sequences, FiniteSets, TLC, Json

CONSTANTS MaxRules, Emit

None == "none"
IsPrefixSeq(a, b) == Len(a) <= Len(b) /\ SubSeq(b, 1, Len(a)) = a

\* ------------------------------------------------------------------ the image
ModA == "buf.test/verif/a"
ModB == "buf.test/verif/b"
FileIds == {"f1", "f2", "f3", "wkt"}
Files ==
  [ f1  |-> [path |-> <<"acme", "pay", "v1", "pay.proto">>, module |-> ModA, pkg |-> "acme.pay.v1", wkt |-> FALSE],
    f2  |-> [path |-> <<"acme", "payroll", "v1", "payroll.proto">>, module |-> ModA, pkg |-> "acme.payroll.v1", wkt |-> FALSE],
    f3  |-> [path |-> <<"other", "o.proto">>, module |-> ModB, pkg |-> "other", wkt |-> FALSE],
    wkt |-> [path |-> <<"google", "protobuf", "timestamp.proto">>, module |-> None, pkg |-> "google.protobuf", wkt |-> TRUE] ]
\* options present in the source (with a source-info location): f3 only
Preset ==
  [ f1 |-> [o \in {} |-> ""], f2 |-> [o \in {} |-> ""], wkt |-> [o \in {} |-> ""],
    f3 |-> [ java_package |-> "preset.pkg", optimize_for |-> "CODE_SIZE", java_multiple_files |-> "false",
             go_package |-> "preset/go;pg", csharp_namespace |-> "Preset.Ns", ruby_package |-> "Other" ] ]
HasPreset(f, o) == o \in DOMAIN Preset[f]
\* fields: [file, name, wide (64-bit integer kind), jstype preset, other field options present]
Fields ==
  { [file |-> "f1", name |-> "acme.pay.v1.Pay.amount", wide |-> TRUE,  js |-> None,        other |-> FALSE],
    [file |-> "f1", name |-> "acme.pay.v1.Pay.id",     wide |-> FALSE, js |-> None,        other |-> FALSE],
    [file |-> "f1", name |-> "acme.pay.v1.Pay.big",    wide |-> TRUE,  js |-> "JS_NORMAL", other |-> FALSE],
    [file |-> "f1", name |-> "acme.pay.v1.Pay.both",   wide |-> TRUE,  js |-> "JS_NORMAL", other |-> TRUE],
    [file |-> "f2", name |-> "acme.payroll.v1.Payroll.n", wide |-> TRUE, js |-> None,      other |-> FALSE],
    [file |-> "f3", name |-> "other.O.x",              wide |-> TRUE,  js |-> "JS_STRING", other |-> FALSE] }

\* ------------------------------------------------------------------ rule pools
Unspec == "unspecified"
DRule(p, m, fo, fdo, fld) == [path |-> p, module |-> m, fileOption |-> fo, fieldOption |-> fdo, field |-> fld]
DisablePool ==
  { DRule(<<>>, "", "java_package", Unspec, ""),
    DRule(<<"acme", "pay">>, "", Unspec, Unspec, ""),
    DRule(<<>>, ModB, Unspec, Unspec, ""),
    DRule(<<>>, "", "java_package_prefix", Unspec, ""),
    DRule(<<>>, "", Unspec, "jstype", ""),
    DRule(<<>>, "", Unspec, "jstype", "acme.pay.v1.Pay.amount"),
    DRule(<<>>, "", Unspec, Unspec, "acme.pay.v1.Pay.amount"),
    DRule(<<"other">>, "", "optimize_for", Unspec, ""),
    DRule(<<"acme">>, "", "go_package", Unspec, "") }
ORule(p, m, o, k, fld, v) == [path |-> p, module |-> m, option |-> o, kind |-> k, field |-> fld, value |-> v]
OverridePool ==
  { ORule(<<>>, "", "java_package_prefix", "file", "", "org"),
    ORule(<<>>, "", "java_package_suffix", "file", "", "gen"),
    ORule(<<>>, "", "java_package", "file", "", "fixed.pkg"),
    ORule(<<"acme", "pay">>, "", "go_package_prefix", "file", "", "example.com/gen"),
    ORule(<<>>, "", "go_package_prefix", "file", "", "corp.dev/x"),
    ORule(<<>>, "", "optimize_for", "file", "", "CODE_SIZE"),
    ORule(<<>>, ModB, "optimize_for", "file", "", "SPEED"),
    ORule(<<>>, "", "java_multiple_files", "file", "", "false"),
    ORule(<<>>, "", "jstype", "field", "", "JS_STRING"),
    ORule(<<>>, "", "jstype", "field", "acme.pay.v1.Pay.amount", "JS_NUMBER"),
    ORule(<<>>, "", "csharp_namespace_prefix", "file", "", "Corp"),
    ORule(<<>>, "", "ruby_package_suffix", "file", "", "Gen"),
    ORule(<<"acme", "pay">>, "", "java_package_prefix", "file", "", "net") }

SeqsNoRepeat(S, n) == UNION {{s \in [1..k -> S] : \A i, j \in 1..k : i # j => s[i] # s[j]} : k \in 0..n}

VARIABLES enabled, disables, overrides
vars == <<enabled, disables, overrides>>
Init == /\ enabled \in BOOLEAN
        /\ disables \in SeqsNoRepeat(DisablePool, MaxRules)
        /\ overrides \in SeqsNoRepeat(OverridePool, MaxRules)
Next == UNCHANGED vars
Spec == Init /\ [][Next]_vars

\* ------------------------------------------------------------------ decision procedure
Match(f, p, m) == (p = <<>> \/ IsPrefixSeq(p, Files[f].path)) /\ (m = "" \/ Files[f].module = m)
\* a disable rule exempts a file option of a file iff it names that option or no option at all, is not a
\* field rule (neither a field option nor a field name), and matches the file
FileOptDisabled(f, o) ==
  \E i \in 1..Len(disables) : LET r == disables[i] IN
     /\ (r.fileOption = Unspec \/ r.fileOption = o)
     /\ r.fieldOption = Unspec /\ r.field = ""
     /\ Match(f, r.path, r.module)
MatchingOverrides(f, o) == {i \in 1..Len(overrides) : overrides[i].option = o /\ Match(f, overrides[i].path, overrides[i].module)}
LastOverride(f, o) == LET S == MatchingOverrides(f, o) IN IF S = {} THEN None ELSE overrides[CHOOSE i \in S : \A j \in S : j <= i].value

Keep == [kind |-> "keep"]
SetTo(v) == [kind |-> "set", value |-> v]
Lit(s) == [fn |-> "lit", s |-> s]

\* bool / enum options: default unless the last matching override says otherwise
SimpleDefault == [java_multiple_files |-> "true", optimize_for |-> "SPEED", cc_enable_arenas |-> "true", java_string_check_utf8 |-> "false"]
SimpleOpts == DOMAIN SimpleDefault
\* what the descriptor yields when the option is not set
SimpleUnset == [java_multiple_files |-> "false", optimize_for |-> "SPEED", cc_enable_arenas |-> "true", java_string_check_utf8 |-> "false"]
Current(f, o) == IF HasPreset(f, o) THEN Preset[f][o] ELSE None
DecideSimple(f, o) ==
  IF FileOptDisabled(f, o) THEN Keep
  ELSE LET v == IF LastOverride(f, o) = None THEN SimpleDefault[o] ELSE LastOverride(f, o)
           cur == IF HasPreset(f, o) THEN Preset[f][o] ELSE SimpleUnset[o]
       IN IF cur = v THEN Keep ELSE SetTo(Lit(v))

\* string options: [value option, prefix option or None, suffix option or None]
StringOpts ==
  [ java_package      |-> [prefix |-> "java_package_prefix", suffix |-> "java_package_suffix"],
    go_package        |-> [prefix |-> "go_package_prefix", suffix |-> None],
    csharp_namespace  |-> [prefix |-> "csharp_namespace_prefix", suffix |-> None],
    ruby_package      |-> [prefix |-> None, suffix |-> "ruby_package_suffix"],
    objc_class_prefix |-> [prefix |-> None, suffix |-> None],
    java_outer_classname |-> [prefix |-> None, suffix |-> None],
    php_namespace     |-> [prefix |-> None, suffix |-> None],
    php_metadata_namespace |-> [prefix |-> None, suffix |-> "php_metadata_namespace_suffix"] ]
\* default override options: value / prefix / suffix ("" = none); computed defaults are terms
EmptyOpts == [value |-> Lit(""), prefix |-> "", suffix |-> ""]
DefaultOpts(f, o) ==
  CASE o = "java_package"      -> [EmptyOpts EXCEPT !.prefix = "com"]
    [] o = "go_package"        -> EmptyOpts
    [] o = "csharp_namespace"  -> [EmptyOpts EXCEPT !.value = [fn |-> "csharp", prefix |-> "", pkg |-> Files[f].pkg]]
    [] o = "ruby_package"      -> [EmptyOpts EXCEPT !.value = [fn |-> "ruby", pkg |-> Files[f].pkg, suffix |-> ""]]
    [] o = "objc_class_prefix" -> [EmptyOpts EXCEPT !.value = [fn |-> "objc", pkg |-> Files[f].pkg]]
    [] o = "java_outer_classname" -> [EmptyOpts EXCEPT !.value = [fn |-> "outer", path |-> Files[f].path]]
    [] o = "php_namespace" -> [EmptyOpts EXCEPT !.value = [fn |-> "php", pkg |-> Files[f].pkg]]
    [] o = "php_metadata_namespace" -> [EmptyOpts EXCEPT !.value = [fn |-> "phpmeta", pkg |-> Files[f].pkg, suffix |-> "GPBMetadata"]]
RECURSIVE ApplyOverrides(_, _, _, _, _, _)
ApplyOverrides(f, o, i, acc, ignP, ignS) ==
  IF i > Len(overrides) THEN acc
  ELSE LET r == overrides[i] IN
    IF ~Match(f, r.path, r.module) THEN ApplyOverrides(f, o, i + 1, acc, ignP, ignS)
    ELSE IF r.option = o THEN ApplyOverrides(f, o, i + 1, [value |-> Lit(r.value), prefix |-> "", suffix |-> ""], ignP, ignS)
    ELSE IF r.option = StringOpts[o].prefix /\ ~ignP THEN ApplyOverrides(f, o, i + 1, [value |-> Lit(""), prefix |-> r.value, suffix |-> acc.suffix], ignP, ignS)
    ELSE IF r.option = StringOpts[o].suffix /\ ~ignS THEN ApplyOverrides(f, o, i + 1, [value |-> Lit(""), prefix |-> acc.prefix, suffix |-> r.value], ignP, ignS)
    ELSE ApplyOverrides(f, o, i + 1, acc, ignP, ignS)
\* the value a string option gets from its override options (term), Lit("") = nothing to set
ValueOf(f, o, opts) ==
  IF opts.value # Lit("") THEN opts.value
  ELSE CASE o = "java_package" -> [fn |-> "java", prefix |-> opts.prefix, pkg |-> Files[f].pkg, suffix |-> opts.suffix]
         [] o = "go_package"   -> IF opts.prefix = "" THEN Lit("") ELSE [fn |-> "go", prefix |-> opts.prefix, path |-> Files[f].path, pkg |-> Files[f].pkg]
         [] o = "csharp_namespace" -> [fn |-> "csharp", prefix |-> opts.prefix, pkg |-> Files[f].pkg]
         [] o = "ruby_package" -> [fn |-> "ruby", pkg |-> Files[f].pkg, suffix |-> opts.suffix]
         [] o = "objc_class_prefix" -> [fn |-> "objc", pkg |-> Files[f].pkg]
         [] o = "java_outer_classname" -> [fn |-> "outer", path |-> Files[f].path]
         [] o = "php_namespace" -> [fn |-> "php", pkg |-> Files[f].pkg]
         [] o = "php_metadata_namespace" -> [fn |-> "phpmeta", pkg |-> Files[f].pkg, suffix |-> opts.suffix]
\* the one coincidence of a computed value with a pre-set one in this image: ruby_package of package "other"
SameAsCurrent(f, o, v) ==
  \/ (HasPreset(f, o) /\ v = Lit(Preset[f][o]))
  \/ (f = "f3" /\ o = "ruby_package" /\ v = [fn |-> "ruby", pkg |-> "other", suffix |-> ""])
DecideString(f, o) ==
  IF FileOptDisabled(f, o) THEN Keep
  ELSE LET ignP == StringOpts[o].prefix = None \/ FileOptDisabled(f, StringOpts[o].prefix)
           ignS == StringOpts[o].suffix = None \/ FileOptDisabled(f, StringOpts[o].suffix)
           d0 == DefaultOpts(f, o)
           d == [d0 EXCEPT !.prefix = IF ignP THEN "" ELSE d0.prefix, !.suffix = IF ignS THEN "" ELSE d0.suffix]
           opts == ApplyOverrides(f, o, 1, d, ignP, ignS)
       IN IF opts = EmptyOpts THEN Keep
          ELSE LET v == ValueOf(f, o, opts) IN
               IF v = Lit("") THEN Keep ELSE IF SameAsCurrent(f, o, v) THEN Keep ELSE SetTo(v)

FileOpts == SimpleOpts \cup DOMAIN StringOpts
Decide(f, o) ==
  IF ~enabled \/ Files[f].wkt THEN Keep
  ELSE IF o \in SimpleOpts THEN DecideSimple(f, o) ELSE DecideString(f, o)

\* js_type
JsOverrides(f) == {i \in 1..Len(overrides) : overrides[i].option = "jstype" /\ Match(f, overrides[i].path, overrides[i].module)}
JsDisables(f) == {i \in 1..Len(disables) :
                    /\ (disables[i].fieldOption = "jstype" \/ (disables[i].fieldOption = Unspec /\ disables[i].fileOption = Unspec))
                    /\ Match(f, disables[i].path, disables[i].module)}
DecideJs(fld) ==
  LET f == fld.file IN
  IF ~enabled \/ Files[f].wkt \/ JsOverrides(f) = {} THEN Keep
  ELSE IF \E i \in JsDisables(f) : disables[i].field = "" \/ disables[i].field = fld.name THEN Keep
  ELSE LET S == {i \in JsOverrides(f) : overrides[i].field = "" \/ overrides[i].field = fld.name} IN
       IF S = {} THEN Keep
       ELSE LET v == overrides[CHOOSE i \in S : \A j \in S : j <= i].value IN
            IF ~fld.wide \/ fld.js = v THEN Keep ELSE SetTo(Lit(v))

\* ------------------------------------------------------------------ properties
\* nothing changes when managed mode is off, and well-known types are never touched
OffMeansUntouched == ~enabled => (\A f \in FileIds : \A o \in FileOpts : Decide(f, o) = Keep) /\ (\A fld \in Fields : DecideJs(fld) = Keep)
WktUntouched == \A o \in FileOpts : Decide("wkt", o) = Keep
\* a file exempted by a rule without option is untouched in every file option
DisabledUntouched == \A f \in FileIds : \A o \in FileOpts : FileOptDisabled(f, o) => Decide(f, o) = Keep
\* path rules are path-wise: a rule for acme/pay never governs acme/payroll
PathWise == \A i \in 1..Len(disables) : disables[i].path = <<"acme", "pay">> => ~Match("f2", disables[i].path, "")
\* the last matching override wins for simple options
LastWins == \A f \in FileIds : \A o \in SimpleOpts :
   (enabled /\ ~Files[f].wkt /\ ~FileOptDisabled(f, o) /\ LastOverride(f, o) # None /\ Decide(f, o) # Keep) => Decide(f, o) = SetTo(Lit(LastOverride(f, o)))
\* js_type is only ever set on 64-bit integer fields
JsOnlyWide == \A fld \in Fields : DecideJs(fld) # Keep => fld.wide
\* sweep: exactly the rewritten options that were present in the source
Sweep == UNION {{[file |-> f, opt |-> o] : o \in {x \in FileOpts : Decide(f, x) # Keep /\ HasPreset(f, x)}} : f \in FileIds}
JsSweep == {[field |-> fld.name, file |-> fld.file, root |-> ~fld.other] : fld \in {x \in Fields : DecideJs(x) # Keep /\ x.js # None}}

EmitCase == Emit => PrintT(<<"CASE", ToJson(
  [enabled |-> enabled, disables |-> disables, overrides |-> overrides,
   sets |-> UNION {{[file |-> f, opt |-> o, value |-> Decide(f, o).value] : o \in {x \in FileOpts : Decide(f, x) # Keep}} : f \in FileIds},
   jssets |-> {[file |-> fld.file, field |-> fld.name, value |-> DecideJs(fld).value] : fld \in {x \in Fields : DecideJs(x) # Keep}},
   sweep |-> Sweep, jssweep |-> JsSweep])>>)
=============================================================================

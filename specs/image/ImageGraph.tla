----------------------------- MODULE ImageGraph -----------------------------
(* C01: an image is the exact, closed, ordered compilation of the targeted   *)
(* files.                                                                     *)
(*                                                                           *)
(* A workspace of two modules with fixed file paths; TLC enumerates the      *)
(* ordered import lists (acyclic by construction), which import is unused,   *)
(* which modules are targeted, --path / --exclude-path selections, whether   *)
(* the workspace supplies its own copy of a well-known type, a file without  *)
(* syntax declaration, and single planted compile errors.                     *)
(* IsTarget transcribes getIsTargetFileForPathUncached; the image order is   *)
(* the post-order DFS of getImageFilesRec over the targets sorted by path     *)
(* (checkAndSortFiles), imports visited in declaration order.                 *)
EXTENDS Naturals, Sequences, FiniteSets, TLC, Json

CONSTANTS MaxImportsA, MaxImportsOther,
          MaxDev,   \* how many of the selection dimensions may deviate from their default at once
          Emit

\* files in path order (byte-wise): the index is the sort key
FileOrder == <<"a", "c", "b", "d", "wkt">>
\* a: acme/v1/a.proto   c: acme/v1/sub/c.proto   b: acme/v1beta1/b.proto   d: dep/d.proto
\* wkt: google/protobuf/timestamp.proto (built in; module B may supply its own copy)
PathOf == [a |-> <<"acme", "v1", "a.proto">>, c |-> <<"acme", "v1", "sub", "c.proto">>, b |-> <<"acme", "v1beta1", "b.proto">>,
           d |-> <<"dep", "d.proto">>, wkt |-> <<"google", "protobuf", "timestamp.proto">>]
Files == {"a", "b", "c", "d", "wkt"}
OwnerOf(f, wktSupplied) == IF f = "d" THEN "B" ELSE IF f = "wkt" THEN (IF wktSupplied THEN "B" ELSE "builtin") ELSE "A"
\* acyclic by construction: a file may only import files later in this order
Rank == [a |-> 1, b |-> 2, c |-> 3, d |-> 4, wkt |-> 5]
MayImport(f) == {g \in Files : Rank[g] > Rank[f]}

IsPrefixSeq(x, y) == Len(x) <= Len(y) /\ SubSeq(y, 1, Len(x)) = x
SeqsNoRepeat(S, n) == UNION {{s \in [1..k -> S] : \A i, j \in 1..k : i # j => s[i] # s[j]} : k \in 0..n}
Range(s) == {s[i] : i \in 1..Len(s)}

PathChoices == { {}, {<<"acme", "v1">>}, {<<"acme", "v1", "a.proto">>}, {<<"acme">>}, {<<"acme", "v1beta1">>, <<"dep">>} }
ExcludeChoices == { {}, {<<"acme", "v1">>}, {<<"acme", "v1", "sub">>} }

VARIABLES imports,      \* imports[f]: sequence of distinct files
          unused,       \* <<f, g>>: the import of g in f is not referenced, or <<>>
          targetA, targetB,
          paths, excludes,
          wktSupplied,
          noSyntaxD,    \* d.proto has no syntax declaration
          planted,      \* "none" | "missing-import" (in a) | "syntax" (in c) | "unresolved" (in b) | "bad-package" (in b: a
                        \* package statement that does not scan, which the scan for the files of a package meets first)
          protoRef,     \* a single .proto file of module A given as the input ("none": the modules are the input)
          includePkg,   \* ...#include_package_files=true
          pkgMode       \* "distinct": every file its own package; "ab-same": a and b share one; "ab-none": a and b declare none
vars == <<imports, unused, targetA, targetB, paths, excludes, wktSupplied, noSyntaxD, planted, protoRef, includePkg, pkgMode>>

Init ==
  /\ \E ia \in SeqsNoRepeat(MayImport("a"), MaxImportsA) :
     \E ib \in SeqsNoRepeat(MayImport("b"), MaxImportsOther) :
     \E ic \in SeqsNoRepeat(MayImport("c"), MaxImportsOther) :
     \E id \in SeqsNoRepeat(MayImport("d"), MaxImportsOther) :
        imports = [a |-> ia, b |-> ib, c |-> ic, d |-> id, wkt |-> <<>>]
  /\ unused \in {<<>>} \cup {<<"a", g>> : g \in Files}
  /\ (unused # <<>> => unused[2] \in Range(imports[unused[1]]))
  /\ targetA \in BOOLEAN /\ targetB \in BOOLEAN /\ (targetA \/ targetB)
  /\ paths \in PathChoices /\ excludes \in ExcludeChoices
  /\ wktSupplied \in BOOLEAN
  /\ noSyntaxD \in BOOLEAN
  /\ planted \in {"none", "missing-import", "syntax", "unresolved", "bad-package"}
  /\ protoRef \in {"none", "a", "b", "c"} /\ includePkg \in BOOLEAN /\ pkgMode \in {"distinct", "ab-same", "ab-none"}
  \* a file reference replaces every other selection and makes module A the only target
  /\ (protoRef # "none" => (targetA /\ ~targetB /\ paths = {} /\ excludes = {} /\ planted \in {"none", "bad-package"} /\ unused = <<>> /\ ~wktSupplied /\ ~noSyntaxD
                             /\ Len(imports["a"]) <= 1))
  /\ (protoRef = "none" => (~includePkg /\ pkgMode = "distinct"))
  /\ (IF paths # {} THEN 1 ELSE 0) + (IF excludes # {} THEN 1 ELSE 0) + (IF (targetA /\ targetB) \/ protoRef # "none" THEN 0 ELSE 1)
       + (IF wktSupplied THEN 1 ELSE 0) + (IF noSyntaxD THEN 1 ELSE 0) + (IF unused # <<>> THEN 1 ELSE 0)
       + (IF protoRef # "none" THEN 1 ELSE 0) <= MaxDev
  \* planted errors are explored on the plain selection only
  \* (and, for the package statement, on a file reference with include_package_files: every file of the module is
  \*  scanned for its package then, so the error surfaces wherever the file is)
  /\ (planted # "none" => (paths = {} /\ excludes = {} /\ unused = <<>> /\ ~noSyntaxD
                            /\ ((targetA /\ targetB /\ protoRef = "none") \/ (planted = "bad-package" /\ protoRef = "a" /\ includePkg))))
Next == UNCHANGED vars
Spec == Init /\ [][Next]_vars

\* ------------------------------------------------------------------ which files exist, which are targets
\* the built-in well-known type is only part of the workspace when supplied
InWorkspace(f) == f # "wkt" \/ wktSupplied
ModuleTargeted(f) == LET o == OwnerOf(f, wktSupplied) IN (o = "A" /\ targetA) \/ (o = "B" /\ targetB)
InAny(S, f) == \E p \in S : IsPrefixSeq(p, PathOf[f])
\* the package a file declares ("" = none)
PkgOf(f) == IF f \in {"a", "b"} /\ pkgMode = "ab-same" THEN "shared"
            ELSE IF f \in {"a", "b"} /\ pkgMode = "ab-none" THEN "" ELSE "p" \o f
\* --path / --exclude-path apply to every targeted module; a file reference targets that file and, if asked, the
\* other files of the module that declare the same, non-empty, package
IsTarget(f) ==
  IF protoRef # "none"
  THEN /\ OwnerOf(f, wktSupplied) = "A"
       /\ (f = protoRef \/ (includePkg /\ PkgOf(protoRef) # "" /\ PkgOf(f) = PkgOf(protoRef)))
  ELSE /\ InWorkspace(f) /\ ModuleTargeted(f)
       /\ (paths = {} \/ InAny(paths, f))
       /\ (excludes = {} \/ ~InAny(excludes, f))
Targets == {f \in Files : IsTarget(f)}
SortedTargets == LET idx == {i \in 1..Len(FileOrder) : FileOrder[i] \in Targets} IN
  [k \in 1..Cardinality(idx) |-> FileOrder[CHOOSE i \in idx : Cardinality({j \in idx : j < i}) = k - 1]]

\* ------------------------------------------------------------------ post-order DFS (getImageFilesRec)
\* explicit-stack formulation of the recursive Go function: imports are visited in declaration order,
\* a file is emitted after all its imports (alreadySeen = emitted or on the stack)
RECURSIVE Dfs(_, _)
Dfs(stack, out) ==
  \* stack: sequence of <<file, next import index>>; out: emitted files
  IF stack = <<>> THEN out
  ELSE LET top == stack[Len(stack)]
           f == top[1]
           i == top[2]
           rest == SubSeq(stack, 1, Len(stack) - 1)
       IN IF i > Len(imports[f])
          THEN Dfs(rest, Append(out, f))
          ELSE LET g == imports[f][i]
                   visited == Range(out) \cup {stack[k][1] : k \in 1..Len(stack)}
               IN IF g \in visited THEN Dfs(Append(rest, <<f, i + 1>>), out)
                  ELSE Dfs(Append(Append(rest, <<f, i + 1>>), <<g, 1>>), out)
RECURSIVE Order(_, _, _)
Order(ts, k, out) ==
  IF k > Len(ts) THEN out
  ELSE IF ts[k] \in Range(out) THEN Order(ts, k + 1, out)
  ELSE Order(ts, k + 1, Dfs(<<<<ts[k], 1>>>>, out))
ImageOrder == Order(SortedTargets, 1, <<>>)

UnusedIdx(f) == IF unused # <<>> /\ unused[1] = f
                THEN {i - 1 : i \in {j \in 1..Len(imports[f]) : imports[f][j] = unused[2]}} ELSE {}
Entry(f) == [file |-> f, isImport |-> f \notin Targets, owner |-> OwnerOf(f, wktSupplied),
             unused |-> UnusedIdx(f), syntaxUnspecified |-> (f = "d" /\ noSyntaxD)]
ExpectedImage == [k \in 1..Len(ImageOrder) |-> Entry(ImageOrder[k])]

\* ------------------------------------------------------------------ theorems about the algorithm
ImgSet == Range(ImageOrder)
RECURSIVE Reach(_)
Reach(S) == LET T == S \cup UNION {Range(imports[f]) : f \in S} IN IF T = S THEN S ELSE Reach(T)
EachOnce == \A i, j \in 1..Len(ImageOrder) : i # j => ImageOrder[i] # ImageOrder[j]
Closed == ImgSet = Reach(Targets)
Pos(f) == CHOOSE i \in 1..Len(ImageOrder) : ImageOrder[i] = f
Topological == \A f \in ImgSet : \A g \in Range(imports[f]) : Pos(g) < Pos(f)
Flags == \A k \in 1..Len(ExpectedImage) : ExpectedImage[k].isImport <=> ~IsTarget(ExpectedImage[k].file)
WktBuiltinUnlessSupplied == ("wkt" \in ImgSet /\ ~wktSupplied) => Entry("wkt").owner = "builtin" /\ Entry("wkt").isImport
\* --exclude-path acme/v1 never takes acme/v1beta1 with it
ExcludeIsPathWise == (excludes = {<<"acme", "v1">>} /\ paths = {} /\ targetA) => IsTarget("b")

\* which file a planted error is reported in
PlantedFile == CASE planted = "missing-import" -> "a" [] planted = "syntax" -> "c" [] planted \in {"unresolved", "bad-package"} -> "b" [] OTHER -> "none"
\* the error only surfaces if the file is compiled at all
\* (a referenced file without a package has no package files to look for: nothing is scanned)
PlantedSurfaces == planted # "none" /\ (PlantedFile \in Reach(Targets) \/ (planted = "bad-package" /\ protoRef # "none" /\ includePkg /\ PkgOf(protoRef) # ""))

EmitCase == Emit => PrintT(<<"CASE", ToJson(
  [imports |-> imports, unused |-> unused, targetA |-> targetA, targetB |-> targetB, paths |-> paths, excludes |-> excludes,
   wktSupplied |-> wktSupplied, noSyntaxD |-> noSyntaxD, planted |-> planted,
   protoRef |-> protoRef, includePkg |-> includePkg, pkgMode |-> pkgMode,
   noTargets |-> Targets = {},
   error |-> IF PlantedSurfaces THEN PlantedFile ELSE "none",
   image |-> IF PlantedSurfaces \/ Targets = {} THEN <<>> ELSE ExpectedImage])>>)
=============================================================================

-------------------------- MODULE CodeGenResponses --------------------------
(* C17 (responses): files returned by plugins are written only beneath that  *)
(* plugin's output location, insertion points only modify files produced in  *)
(* the same run, the same output path produced twice is an error, and        *)
(* nothing reaches the disk unless every response was accepted.              *)
(* Output directories and file names are raw component sequences (PathAlg);  *)
(* two spellings of one location must be recognised as the same location.    *)
EXTENDS PathAlg, TLC, Json

CONSTANTS Emit

\* an output location is a directory or an archive (.zip / .jar) that receives the files as entries
Outs == {<<"gen">>, <<".", "gen", "">>, <<"gen", "sub">>, <<"gen", "one.zip">>, <<"gen", "two.jar">>}
Names == {<<"x.txt">>, <<"sub", "x.txt">>, <<".", "pkg", "x.txt">>, <<"pkg", "x.txt">>, <<"..", "esc.txt">>,
          <<"pkg", "..", "..", "esc.txt">>, <<"", "abs.txt">>}
FileRec(n, ins) == [name |-> n, insertion |-> ins]
SeqsUpTo2(S) == {<<>>} \cup {<<a>> : a \in S} \cup {<<a, b>> : a \in S, b \in S}

VARIABLES out1, files1, out2, files2
vars == <<out1, files1, out2, files2>>
Init == /\ out1 \in Outs /\ out2 \in Outs
        /\ files1 \in SeqsUpTo2({FileRec(n, FALSE) : n \in Names})
        /\ files2 \in {<<>>} \cup {<<FileRec(n, i)>> : n \in Names, i \in BOOLEAN}
Next == UNCHANGED vars
Spec == Init /\ [][Next]_vars

\* all (plugin, file) pairs in configuration order
All == [k \in 1..(Len(files1) + Len(files2)) |->
          IF k <= Len(files1) THEN [out |-> out1, f |-> files1[k]] ELSE [out |-> out2, f |-> files2[k - Len(files1)]]]
Loc(e) == CleanComps(CleanComps(e.out) \o e.f.name)     \* where the file lands (relative to the working directory)
OutLoc(e) == CleanComps(e.out)
NameOK(e) == Valid(e.f.name) /\ ~IsRootPath(e.f.name)
\* the same location produced twice (insertion points excepted)
Duplicate == \E i, j \in 1..Len(All) : i < j /\ ~All[i].f.insertion /\ ~All[j].f.insertion
                /\ NameOK(All[i]) /\ NameOK(All[j]) /\ Loc(All[i]) = Loc(All[j])
\* Named deviation of the end-to-end path: the plugin protocol layer (protoplugin, lenient mode) drops a name that
\* one plugin returns twice, with a warning, before the responses of the plugins are compared; the library-level
\* ValidatePluginResponses rejects it.  End-to-end cases with such a response are not replayed through the CLI.
SamePluginDuplicate == \E i, j \in 1..Len(files1) : i < j /\ NameOK(All[i]) /\ NameOK(All[j]) /\ Loc(All[i]) = Loc(All[j])
\* an insertion point must name a file produced earlier, into the same output location
InsertionOK(j) == \E i \in 1..(j - 1) : ~All[i].f.insertion /\ NameOK(All[i]) /\ OutLoc(All[i]) = OutLoc(All[j]) /\ Loc(All[i]) = Loc(All[j])
BadInsertion == \E j \in 1..Len(All) : All[j].f.insertion /\ (~NameOK(All[j]) \/ ~InsertionOK(j))
BadName == \E i \in 1..Len(All) : ~NameOK(All[i])
Failed == Duplicate \/ BadInsertion \/ BadName
Written == IF Failed THEN {} ELSE {Loc(All[i]) : i \in 1..Len(All)}

\* ---- properties ----
Contained == \A i \in 1..Len(All) : (~Failed) => Under(OutLoc(All[i]), Loc(All[i]))
NothingOnFailure == Failed => Written = {}
\* spellings: "gen" and "./gen/" are one location
SpellingsAgree == CleanComps(<<"gen">>) = CleanComps(<<".", "gen", "">>)

EmitCase == Emit => PrintT(<<"CASE", ToJson([out1 |-> out1, files1 |-> files1, out2 |-> out2, files2 |-> files2,
   failed |-> Failed, duplicate |-> Duplicate, samePluginDuplicate |-> SamePluginDuplicate, badName |-> BadName, badInsertion |-> BadInsertion, written |-> Written])>>)
=============================================================================

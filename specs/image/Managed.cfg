SPECIFICATION Spec
INVARIANTS OffMeansUntouched WktUntouched DisabledUntouched PathWise LastWins JsOnlyWide EmitCase
CHECK_DEADLOCK FALSE

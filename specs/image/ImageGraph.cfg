SPECIFICATION Spec
INVARIANTS EachOnce Closed Topological Flags WktBuiltinUnlessSupplied ExcludeIsPathWise EmitCase
CHECK_DEADLOCK FALSE

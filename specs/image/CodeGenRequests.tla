-------------------------- MODULE CodeGenRequests --------------------------
(* C17 (requests): across all requests sent to one plugin each file to        *)
(* generate appears exactly once; each request carries the import closure of  *)
(* its files in dependency order.                                             *)
(* Image: five files in three directories plus a well-known type; TLC         *)
(* enumerates the import graph (acyclic by rank), which files are targets,    *)
(* include_imports / include_wkt and the strategy.  ByDir / Requests          *)
(* transcribe bufimage.ImageByDir, ImageWithOnlyPaths, isFileToGenerate.      *)
EXTENDS Naturals, Sequences, FiniteSets, TLC, Json

CONSTANTS MaxImports, Emit

\* files in path order; x/a, x/b in dir x; y/c in dir y; z/d in dir z; wkt
FileOrder == <<"xa", "xb", "yc", "zd", "wkt">>
Files == {FileOrder[i] : i \in 1..Len(FileOrder)}
DirOf == [xa |-> "x", xb |-> "x", yc |-> "y", zd |-> "z", wkt |-> "google/protobuf"]
DirOrder == <<"x", "y", "z">>
\* imports go "up or down" the path order but stay acyclic through a separate rank
Rank == [xa |-> 1, yc |-> 2, xb |-> 3, zd |-> 4, wkt |-> 5]
MayImport(f) == {g \in Files : Rank[g] > Rank[f]}
Range(s) == {s[i] : i \in 1..Len(s)}
SeqsNoRepeat(S, n) == UNION {{s \in [1..k -> S] : \A i, j \in 1..k : i # j => s[i] # s[j]} : k \in 0..n}

VARIABLES imports, targets, includeImports, includeWKT, strategy
vars == <<imports, targets, includeImports, includeWKT, strategy>>
Init ==
  /\ \E ia \in SeqsNoRepeat(MayImport("xa"), MaxImports) : \E ic \in SeqsNoRepeat(MayImport("yc"), MaxImports) :
     \E ib \in SeqsNoRepeat(MayImport("xb"), MaxImports) : \E id \in SeqsNoRepeat(MayImport("zd"), 1) :
        imports = [xa |-> ia, yc |-> ic, xb |-> ib, zd |-> id, wkt |-> <<>>]
  /\ targets \in (SUBSET {"xa", "xb", "yc", "zd"}) \ {{}}
  /\ includeImports \in BOOLEAN /\ includeWKT \in BOOLEAN /\ (includeWKT => includeImports)
  /\ strategy \in {"directory", "all"}
Next == UNCHANGED vars
Spec == Init /\ [][Next]_vars

RECURSIVE Reach(_)
Reach(S) == LET T == S \cup UNION {Range(imports[f]) : f \in S} IN IF T = S THEN S ELSE Reach(T)
\* the image: post-order DFS over sorted targets (C01)
RECURSIVE Dfs(_, _)
Dfs(stack, out) ==
  IF stack = <<>> THEN out
  ELSE LET top == stack[Len(stack)]  f == top[1]  i == top[2]  rest == SubSeq(stack, 1, Len(stack) - 1)
       IN IF i > Len(imports[f]) THEN Dfs(rest, Append(out, f))
          ELSE LET g == imports[f][i]
                   visited == Range(out) \cup {stack[k][1] : k \in 1..Len(stack)}
               IN IF g \in visited THEN Dfs(Append(rest, <<f, i + 1>>), out)
                  ELSE Dfs(Append(Append(rest, <<f, i + 1>>), <<g, 1>>), out)
RECURSIVE Order(_, _, _)
Order(ts, k, out) == IF k > Len(ts) THEN out ELSE IF ts[k] \in Range(out) THEN Order(ts, k + 1, out)
                     ELSE Order(ts, k + 1, Dfs(<<<<ts[k], 1>>>>, out))
Sorted(S) == LET idx == {i \in 1..Len(FileOrder) : FileOrder[i] \in S} IN
  [k \in 1..Cardinality(idx) |-> FileOrder[CHOOSE i \in idx : Cardinality({j \in idx : j < i}) = k - 1]]
ImageOrder == Order(Sorted(targets), 1, <<>>)
Filter(seq, S) == LET idx == {i \in 1..Len(seq) : seq[i] \in S} IN
  [k \in 1..Cardinality(idx) |-> seq[CHOOSE i \in idx : Cardinality({j \in idx : j < i}) = k - 1]]

\* per-directory images: ImageWithOnlyPaths(image, paths of the dir): those files non-import, their import closure as imports
Dirs == LET ds == {DirOf[f] : f \in targets} IN Filter(DirOrder, ds)
SubImages == IF strategy = "all" THEN <<[files |-> ImageOrder, nonImports |-> targets]>>
             ELSE [k \in 1..Len(Dirs) |->
                     \* (ImageByDir gives ImageWithOnlyPaths the files of the directory in path order; each is preceded by its
                     \*  imports in the order the file declares them: a DFS of its own, not a projection of the image order)
                     LET T == {f \in targets : DirOf[f] = Dirs[k]} IN [files |-> Order(Sorted(T), 1, <<>>), nonImports |-> T]]
AllNonImports == UNION {SubImages[k].nonImports : k \in 1..Len(SubImages)}

\* isFileToGenerate over the requests in order, threading alreadyUsedPaths
RECURSIVE GenFiles(_, _, _, _)
GenFiles(img, i, used, acc) ==
  IF i > Len(img.files) THEN [gen |-> acc, used |-> used]
  ELSE LET f == img.files[i] IN
    IF f \in img.nonImports THEN GenFiles(img, i + 1, used \cup {f}, Append(acc, f))
    ELSE IF ~includeImports THEN GenFiles(img, i + 1, used, acc)
    ELSE IF ~includeWKT /\ f = "wkt" THEN GenFiles(img, i + 1, used, acc)
    ELSE IF f \in used \/ f \in AllNonImports THEN GenFiles(img, i + 1, used, acc)
    ELSE GenFiles(img, i + 1, used \cup {f}, Append(acc, f))
RECURSIVE Reqs(_, _, _)
Reqs(k, used, acc) ==
  IF k > Len(SubImages) THEN acc
  ELSE LET r == GenFiles(SubImages[k], 1, IF includeImports THEN used ELSE {}, <<>>) IN
       Reqs(k + 1, r.used, Append(acc, [generate |-> r.gen, protoFile |-> SubImages[k].files]))
Requests == Reqs(1, {}, <<>>)

\* ---- properties ----
AllGenerated == UNION {Range(Requests[k].generate) : k \in 1..Len(Requests)}
WantGenerated == targets \cup (IF includeImports THEN {f \in Reach(targets) \ targets : f # "wkt" \/ includeWKT} ELSE {})
RECURSIVE TotalLen(_)
TotalLen(k) == IF k = 0 THEN 0 ELSE Len(Requests[k].generate) + TotalLen(k - 1)
\* the files to generate over all requests are exactly the wanted ones, and no file is listed twice
ExactlyOnce == AllGenerated = WantGenerated /\ TotalLen(Len(Requests)) = Cardinality(WantGenerated)
ClosedAndOrdered == \A k \in 1..Len(Requests) :
  LET pf == Requests[k].protoFile IN
    /\ \A i \in 1..Len(pf) : Range(imports[pf[i]]) \subseteq {pf[j] : j \in 1..(i - 1)}
    /\ Range(Requests[k].generate) \subseteq Range(pf)

EmitCase == Emit => PrintT(<<"CASE", ToJson([imports |-> imports, targets |-> targets, includeImports |-> includeImports,
    includeWKT |-> includeWKT, strategy |-> strategy, image |-> ImageOrder, requests |-> Requests])>>)
=============================================================================

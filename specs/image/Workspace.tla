------------------------------ MODULE Workspace ------------------------------
(* C10: workspace dependency resolution is exact and ambiguity is an error.   *)
(*                                                                           *)
(* Three module names.  A is local and targeted.  B is local, remote (one    *)
(* pinned commit) or both (the local one must win).  C is remote with one to *)
(* three pinned commits added in any order (the newest must win); the file   *)
(* of C imports different things in different commits, so picking the wrong  *)
(* commit changes the dependency graph.  TLC enumerates the file-level       *)
(* import choices (incl. a module cycle), a path provided by two modules and *)
(* an import that nobody provides.                                           *)
EXTENDS Naturals, Sequences, FiniteSets, TLC, Json

CONSTANTS Emit

Mods == {"A", "B", "C"}
\* files: a1, a2 in A; b1 in B; c1 in C; wkt built in; "dup" = a second copy of c1's path inside B
FilesOf == [A |-> {"a1", "a2"}, B |-> {"b1"}, C |-> {"c1"}]

VARIABLES impA1, impA2, impB1,  \* sets of imported files
          bKind,                \* "local" | "remote" | "both"
          cCommits,             \* sequence of distinct commit ids of C in the order they were added, from {1,2,3} (id = creation time)
          dupPath,              \* B also provides the path of c1
          missing,              \* a2 imports a path nobody provides
          wktVendored,          \* B carries its own copy of the well-known type that a1 may import
          wktVendoredC          \* C carries a copy of it too: the path is provided twice
vars == <<impA1, impA2, impB1, bKind, cCommits, dupPath, missing, wktVendored, wktVendoredC>>

SeqsNoRepeat(S, n) == UNION {{s \in [1..k -> S] : \A i, j \in 1..k : i # j => s[i] # s[j]} : k \in 1..n}
\* (a1 may also import its sibling a2: an import inside the module adds no module edge, but the same path is then
\*  reached twice - from inside the module and, when b1 imports it, from the module that closes a cycle)
Init == /\ impA1 \in SUBSET {"b1", "c1", "wkt", "a2"}
        /\ impA2 \in SUBSET {"a1", "c1"}
        /\ ~("a2" \in impA1 /\ "a1" \in impA2)
        /\ impB1 \in SUBSET {"c1", "a2"}
        /\ bKind \in {"local", "remote", "both"}
        /\ cCommits \in SeqsNoRepeat({1, 2, 3}, 3)
        /\ dupPath \in BOOLEAN /\ missing \in BOOLEAN
        /\ ~(dupPath /\ missing)
        /\ wktVendored \in BOOLEAN /\ (wktVendored => (~dupPath /\ ~missing /\ Len(cCommits) = 1))
        /\ wktVendoredC \in BOOLEAN /\ (wktVendoredC => wktVendored)
Next == UNCHANGED vars
Spec == Init /\ [][Next]_vars

\* the commit of C that must be used: the newest (largest creation time)
Newest == CHOOSE c \in {cCommits[i] : i \in 1..Len(cCommits)} : \A d \in {cCommits[i] : i \in 1..Len(cCommits)} : d <= c
\* what c1 imports in each commit of C
ImpC1(commit) == IF commit = 2 THEN {"b1"} ELSE {}
Imports(f) == CASE f = "a1" -> impA1 [] f = "a2" -> impA2 [] f = "b1" -> impB1 [] f = "c1" -> ImpC1(Newest) [] OTHER -> {}
OwnerOf(f) == CASE f \in {"a1", "a2"} -> "A" [] f = "b1" -> "B" [] f = "c1" -> "C"
                 [] f = "wkt" -> (IF wktVendored THEN "B" ELSE "none") [] OTHER -> "none"
\* module-level edges
Edge(m, n) == m # n /\ \E f \in FilesOf[m] : \E g \in Imports(f) : OwnerOf(g) = n
RECURSIVE ReachFrom(_, _)
ReachFrom(S, m) == LET T == S \cup {n \in Mods : \E x \in S \cup {m} : Edge(x, n)} IN IF T = S THEN S ELSE ReachFrom(T, m)
Deps(m) == ReachFrom({}, m) \ {m}
Direct(m) == {n \in Mods : Edge(m, n)}
\* A module cycle is reported by the traversal that starts on it (getModuleDepsRec only recurses into
\* modules it has not recorded yet, so a cycle that is merely reachable is not revisited); ModuleSetToDAG
\* asks every module and therefore reports every cycle of the workspace.
OnCycle(n) == n \in ReachFrom({}, n)
CycleReachable(m) == \E n \in ReachFrom({}, m) : OnCycle(n)
\* (ModuleSetToDAG starts from the target modules: A)
AnyCycle == \E n \in {"A"} \cup ReachFrom({}, "A") : OnCycle(n)
Visited(m) == {m} \cup ReachFrom({}, m)
\* the path of c1 is provided twice: importing it is ambiguous, and so is a traversal that sees both providers
\* (the same holds for the well-known type that B and C both carry: being a well-known type does not excuse it)
DupPaths == (IF dupPath THEN {"c1"} ELSE {}) \cup (IF wktVendored /\ wktVendoredC THEN {"wkt"} ELSE {})
AmbiguousFrom(m) == \E d \in DupPaths : (\E x \in Visited(m) : \E f \in FilesOf[x] : d \in Imports(f)) \/ {"B", "C"} \subseteq Visited(m)
MissingFrom(m) == missing /\ "A" \in Visited(m)
\* The compilation of a module only stumbles over an ambiguous path that something it compiles imports; the
\* dependency computation also refuses two providers that nobody imports from.
AmbiguousImportFrom(m) == \E d \in DupPaths : \E x \in Visited(m) : \E f \in FilesOf[x] : d \in Imports(f)
BuildMustFail(m) == MissingFrom(m) \/ AmbiguousImportFrom(m)

Result(m) ==
  LET cyc == OnCycle(m)
      amb == AmbiguousFrom(m)
      mis == MissingFrom(m)
      n == (IF cyc THEN 1 ELSE 0) + (IF amb THEN 1 ELSE 0) + (IF mis THEN 1 ELSE 0)
  IN IF n > 1 \/ (n = 1 /\ CycleReachable(m) /\ ~cyc) THEN [kind |-> "some-error"]
     ELSE IF cyc THEN [kind |-> "cycle"]
     ELSE IF amb THEN [kind |-> "duplicate-path"]
     ELSE IF mis THEN [kind |-> "import-not-exist"]
     ELSE [kind |-> "ok", cycleReachable |-> CycleReachable(m),
           deps |-> {[module |-> d, direct |-> (d \in Direct(m))] : d \in Deps(m)}]

\* ---- laws ----
DepsAreReachability == \A m \in Mods : Deps(m) = ReachFrom({}, m) \ {m}
DirectSubset == \A m \in Mods : Direct(m) \subseteq Deps(m) \cup {m}
\* the chosen commit is never an older one
NewestWins == \A i \in 1..Len(cCommits) : cCommits[i] <= Newest

EmitCase == Emit => PrintT(<<"CASE", ToJson(
  [impA1 |-> impA1, impA2 |-> impA2, impB1 |-> impB1, bKind |-> bKind, cCommits |-> cCommits, dupPath |-> dupPath, missing |-> missing,
   wktVendored |-> wktVendored, wktVendoredC |-> wktVendoredC,
   buildMustFailA |-> BuildMustFail("A"),
   newest |-> Newest, anyCycle |-> AnyCycle, fromTargets |-> {"A"} \cup ReachFrom({}, "A"), results |-> [m \in Mods |-> Result(m)]])>>)
=============================================================================

SPECIFICATION SpecV1
INVARIANTS OffMeansUntouched WktUntouched DisabledUntouched LastWins JsOnlyWide ExceptMeansUntouched PerFileWins NoJsInV1 EmitCaseV1
CHECK_DEADLOCK FALSE

SPECIFICATION Spec
INVARIANTS ExactlyOnce ClosedAndOrdered EmitCase
CHECK_DEADLOCK FALSE

SPECIFICATION Spec
INVARIANTS NoLeak NetrcNoLeak EnvFirst TokenClean EmitCase EmitNetrc
CHECK_DEADLOCK FALSE

-------------------------------- MODULE Auth --------------------------------
(* C19: credentials are only sent to the registry they were configured for.  *)
(*                                                                           *)
(* BUF_TOKEN is a sequence of symbols: token characters "t","u", the         *)
(* separators "@" "," ":" and the host names "h1","h2" (a host name is one   *)
(* symbol: the harness renders it as a full registry host).  Parse           *)
(* transcribes bufconnect.newTokenProviderFromString; Netrc is a set of      *)
(* machine entries incl. "default"; Header(host) is what the authorization   *)
(* interceptor must attach: the first source (environment, then .netrc) that *)
(* has a non-empty token for exactly that host.                              *)
EXTENDS Naturals, Sequences, FiniteSets, TLC, Json

CONSTANTS MaxLen, Emit

Sym == {"t", "u", "@", ",", ":", "h1", "h2"}
TokenStrings == UNION {[1..k -> Sym] : k \in 0..MaxLen}
ConfHosts == {"h1", "h2"}
\* request hosts: the configured ones, an unrelated one, and two whose names contain a configured
\* host name as suffix / prefix (rendered "evil-"+h1 and h1+".evil.test"), and two that differ from a
\* configured one only by the port: h1 is configured without a port and h1p is the same name with one, h2 is
\* configured with a port and h2n is the same name without it - an address is the whole host:port string
ReqHosts == {"h1", "h2", "h3", "xh1", "h1x", "h1p", "h2n"}

\* ---- splitting (strings.Split) on a separator symbol: sequence of pieces ----
RECURSIVE SplitOn(_, _)
SplitOn(s, sep) ==
  IF \A i \in 1..Len(s) : s[i] # sep THEN <<s>>
  ELSE LET i == CHOOSE j \in 1..Len(s) : s[j] = sep /\ \A k \in 1..(j - 1) : s[k] # sep
       IN <<SubSeq(s, 1, i - 1)>> \o SplitOn(SubSeq(s, i + 1, Len(s)), sep)
Contains(s, x) == \E i \in 1..Len(s) : s[i] = x

\* ---- Parse: [kind |-> "none"] | [kind |-> "error"] | [kind |-> "single", token |-> s]
\*            | [kind |-> "multi", entries |-> set of [addr |-> s, token |-> s]]
Entry(part) == LET sp == SplitOn(part, "@") IN
  IF Len(sp) # 2 \/ sp[1] = <<>> \/ sp[2] = <<>> \/ Contains(sp[1], ":") \/ Contains(sp[1], ",")
  THEN [ok |-> FALSE, addr |-> <<>>, token |-> <<>>]
  ELSE [ok |-> TRUE, addr |-> sp[2], token |-> sp[1]]
Multi(parts) ==
  LET es == [i \in 1..Len(parts) |-> Entry(parts[i])] IN
  IF \E i \in 1..Len(parts) : ~es[i].ok THEN [kind |-> "error"]
  ELSE IF \E i, j \in 1..Len(parts) : i # j /\ es[i].addr = es[j].addr THEN [kind |-> "error"]   \* repeated remote address
  ELSE [kind |-> "multi", entries |-> {[addr |-> es[i].addr, token |-> es[i].token] : i \in 1..Len(parts)}]
Parse(s) ==
  IF s = <<>> THEN [kind |-> "none"]
  ELSE LET parts == SplitOn(s, ",") IN
       IF Len(parts) = 1
       THEN IF Contains(parts[1], "@") THEN Multi(parts) ELSE [kind |-> "single", token |-> parts[1]]
       ELSE Multi(parts)

\* the token of the environment source for a request host ("" = none)
EnvToken(p, h) ==
  CASE p.kind = "single" -> p.token
    [] p.kind = "multi"  -> IF \E e \in p.entries : e.addr = <<h>>
                            THEN (CHOOSE e \in p.entries : e.addr = <<h>>).token ELSE <<>>
    [] OTHER -> <<>>

\* ---- .netrc: a function from machine name to password id ("" = empty password); "default" is the fallback
NetrcConfigs ==
  { [m \in ms |-> IF m = "h1" THEN "n1" ELSE IF m = "h2" THEN "n2" ELSE "nd"] : ms \in SUBSET {"h1", "h2", "default"} }
  \cup { [m \in {"h1", "default"} |-> IF m = "h1" THEN "" ELSE "nd"] }
NetrcToken(n, h) == IF h \in DOMAIN n THEN n[h] ELSE IF "default" \in DOMAIN n THEN n["default"] ELSE ""

\* what the interceptor attaches: [src |-> "env", token |-> seq] | [src |-> "netrc", pw |-> id] | [src |-> "none"]
Header(p, n, h) ==
  IF EnvToken(p, h) # <<>> THEN [src |-> "env", token |-> EnvToken(p, h)]
  ELSE IF NetrcToken(n, h) # "" THEN [src |-> "netrc", pw |-> NetrcToken(n, h)]
  ELSE [src |-> "none"]

VARIABLE tok
Init == tok \in TokenStrings
Next == UNCHANGED tok
Spec == Init /\ [][Next]_tok

\* ---- properties (for every token string, every netrc, every request host) ----
\* a host-keyed token is sent to exactly the host it was configured for
NoLeak ==
  LET p == Parse(tok) IN
  p.kind = "multi" => \A h \in ReqHosts : \A n \in NetrcConfigs :
     LET hd == Header(p, n, h) IN
       hd.src = "env" => (h \in ConfHosts /\ \E e \in p.entries : e.addr = <<h>> /\ e.token = hd.token)
\* a netrc machine password is sent to its own host only (the default entry applies to the others)
NetrcNoLeak ==
  \A n \in NetrcConfigs : \A h \in ReqHosts :
     LET hd == Header(Parse(tok), n, h) IN
       hd.src = "netrc" => (IF h \in DOMAIN n THEN hd.pw = n[h] ELSE ("default" \in DOMAIN n /\ hd.pw = n["default"]))
\* first source wins
EnvFirst == \A n \in NetrcConfigs : \A h \in ReqHosts :
     EnvToken(Parse(tok), h) # <<>> => Header(Parse(tok), n, h).src = "env"
\* a token value never contains a separator that would make it ambiguous
TokenClean == LET p == Parse(tok) IN
   /\ p.kind = "multi" => \A e \in p.entries : ~Contains(e.token, "@") /\ ~Contains(e.token, ",") /\ ~Contains(e.token, ":")
   /\ p.kind = "single" => ~Contains(p.token, "@") /\ ~Contains(p.token, ",")

\* ---- emission ----
NetrcList == {[entries |-> {[machine |-> m, password |-> n[m]] : m \in DOMAIN n}] : n \in NetrcConfigs}
Case == LET p == Parse(tok) IN
  [tok |-> tok, kind |-> p.kind,
   env |-> [h \in ReqHosts |-> EnvToken(p, h)]]
EmitCase == Emit => PrintT(<<"CASE", ToJson(Case)>>)
EmitNetrc == (Emit /\ tok = <<>>) =>
  PrintT(<<"NETRC", ToJson({[entries |-> {[machine |-> m, password |-> n[m]] : m \in DOMAIN n},
                             expect |-> [h \in ReqHosts |-> NetrcToken(n, h)]] : n \in NetrcConfigs})>>)
=============================================================================

------------------------------- MODULE ImageIO -------------------------------
(* C11: an image faithfully stands in for its sources, in every encoding.     *)
(*                                                                           *)
(* The state is the artifact at hand: nothing yet, a source tree in one of   *)
(* its packagings, or an image file in an encoding and compression.  Build   *)
(* turns sources into an image, Convert reads an image and writes another    *)
(* one; both may carry the flags that drop parts of the content.  What an    *)
(* image still contains is part of the state (imports, source info, the buf  *)
(* extension that marks imports and modules); everything else must be what   *)
(* the directory build of the same selection produces.  Observe runs an      *)
(* operation (lint, breaking, build with path selections) on the artifact:   *)
(* its outcome must not depend on the artifact, only on the selection.       *)
EXTENDS Naturals, Sequences, FiniteSets, TLC, Json

CONSTANTS MaxFlags,              \* flags per Build / Convert step
          ConvertCompressions,   \* compressions a Convert step may write (Build writes all of them)
          Emit

Packagings == {"dir", "tar", "targz", "zip"}
\* what is built: the module proto/ of the workspace (the other module supplies imports) or the whole workspace
Selections == {"module", "workspace"}
Encodings == {"binpb", "json", "txtpb", "yaml"}
Compressions == {"none", "gz", "zst"}
Flags == {"exclude-imports", "exclude-source-info", "as-file-descriptor-set"}
FlagSets == {F \in SUBSET Flags : Cardinality(F) <= MaxFlags}
\* operations whose outcome must be the same on every artifact of a selection
PathSelections == { <<{}, {}>>, <<{"acme/v1"}, {}>>, <<{"acme/v1/a.proto"}, {}>>, <<{"acme/v2"}, {}>>, <<{}, {"acme/v1/sub"}>>, <<{}, {"acme/v2"}>>,
                    <<{"acme/v1"}, {"acme/v1/sub"}>>, <<{"acme/v1", "acme/v2"}, {"acme/v1/sub"}>>, <<{"acme/v2"}, {"acme/v1"}>>,
                    \* a path and a path inside it
                    <<{"acme/v1", "acme/v1/sub"}, {}>> }
\* (the workspace also has acme/v1beta1/d.proto, which none of these selects: "acme/v1" is a path, not a string prefix)
\* never a --path inside an --exclude-path
IsPrefix(a, b) == a = b \/ (a = "acme/v1" /\ b \in {"acme/v1/a.proto", "acme/v1/sub"})
ValidSelection(ps) == \A p \in ps[1] : \A x \in ps[2] : ~IsPrefix(x, p)
Ops == {[op |-> "lint", paths |-> <<{}, {}>>], [op |-> "lint", paths |-> <<{"acme/v2"}, {}>>], [op |-> "breaking", paths |-> <<{}, {}>>]}
       \cup {[op |-> "build", paths |-> ps] : ps \in {q \in PathSelections : ValidSelection(q)}}
       \* the order in which --path values are given must not matter
       \cup {[op |-> "build-reversed", paths |-> ps] : ps \in {q \in PathSelections : ValidSelection(q) /\ Cardinality(q[1]) > 1}}

VARIABLES art,    \* the artifact at hand
          last    \* the step that produced it (label only; hidden by the VIEW)
vars == <<art, last>>
None == [kind |-> "none"]
Source(p, s) == [kind |-> "source", pack |-> p, sel |-> s]
\* imports / srcinfo / bufext: what the image still carries; marked: the buf extension still tells imports from files;
\* opts: the custom options whose definitions live in another module are still there
Image(e, c, s, o, im, si, bx, mk, op) == [kind |-> "image", enc |-> e, comp |-> c, sel |-> s, origin |-> o, imports |-> im, srcinfo |-> si,
                                          bufext |-> bx, marked |-> mk, opts |-> op]
TextEncodings == {"json", "txtpb", "yaml"}
\* the option definitions (vendor/opts/options.proto) are files of the image, or at least imports in it
DefsInside(a) == a.sel = "workspace" \/ a.origin = "export" \/ a.imports
\* Reading a text encoding needs the definitions of the custom options it spells out.  An image written with
\* --exclude-imports does not carry them: json and txtpb drop such options silently, yaml refuses the file.
\* (A counterexample to "read back equals the original" that is inherent to the text encodings; the harness reports
\* it as a finding each time it is taken, the specification follows what the code does so that the rest is checked.)
ReadOutcome(a) == IF a.kind = "image" /\ a.enc \in TextEncodings /\ ~DefsInside(a) /\ a.opts
                  THEN (IF a.enc = "yaml" THEN "fails" ELSE "drops-options") ELSE "ok"

\* Writing a text encoding needs the same definitions: options that are only unknown fields of the image read
\* (a binpb image without its imports) cannot be spelled out and are dropped.
WriteOutcome(a, e) == IF a.kind = "image" /\ e \in TextEncodings /\ ~DefsInside(a) /\ a.opts THEN "drops-options-on-write" ELSE "ok"

Init == art = None /\ last = [name |-> "init"]
Open(p, s) == art = None /\ art' = Source(p, s) /\ last' = [name |-> "open"]
\* buf export writes the files of the module and of everything it imports into one directory
Export == art = Source("dir", "module") /\ art' = Source("export", "module") /\ last' = [name |-> "export"]
Build(e, c, F) ==
  /\ art.kind = "source"
  /\ art' = Image(e, c, art.sel, IF art.pack = "export" THEN "export" ELSE "tree",
                  "exclude-imports" \notin F, "exclude-source-info" \notin F,
                  "as-file-descriptor-set" \notin F, "as-file-descriptor-set" \notin F, TRUE)
  /\ last' = [name |-> "build", flags |-> F, deviation |-> "ok"]
Convert(e, c, F) ==
  /\ art.kind = "image" /\ ReadOutcome(art) # "fails"
  /\ LET ext == "as-file-descriptor-set" \notin F IN
     art' = Image(e, c, art.sel, art.origin,
                  \* an image that no longer marks its imports has none to exclude
                  art.imports /\ ~("exclude-imports" \in F /\ art.marked),
                  art.srcinfo /\ "exclude-source-info" \notin F,
                  \* writing an image always adds the extension again (everything a file, nothing an import)
                  ext, art.marked /\ ext,
                  art.opts /\ ReadOutcome(art) = "ok" /\ WriteOutcome(art, e) = "ok")
  /\ last' = [name |-> "convert", flags |-> F,
              deviation |-> IF ReadOutcome(art) # "ok" THEN ReadOutcome(art) ELSE WriteOutcome(art, e)]
ConvertFails(e, c, F) ==
  /\ art.kind = "image" /\ ReadOutcome(art) = "fails"
  /\ UNCHANGED art
  /\ last' = [name |-> "convert-fails", flags |-> F, deviation |-> "fails", enc |-> e, comp |-> c]
Next == \/ \E p \in Packagings, s \in Selections : Open(p, s)
        \/ Export
        \/ \E e \in Encodings, c \in Compressions, F \in FlagSets : Build(e, c, F)
        \/ \E e \in Encodings, c \in ConvertCompressions, F \in FlagSets : Convert(e, c, F) \/ ConvertFails(e, c, F)
Spec == Init /\ [][Next]_vars

\* an artifact can stand in for the sources for every operation only while it still has everything
Complete(a) == a.kind = "source" \/ (a.kind = "image" /\ a.imports /\ a.srcinfo /\ a.bufext /\ a.marked /\ a.opts)
\* (an export is a different tree: one module, nothing imported; it is compared through the images built from it)
FromExport(a) == (a.kind = "source" /\ a.pack = "export") \/ (a.kind = "image" /\ a.origin = "export")
\* (breaking compares module by module: a whole workspace cannot be compared with one image)
Observable == IF art.kind # "none" /\ Complete(art) /\ ~FromExport(art) THEN {o \in Ops : o.op = "breaking" => art.sel = "module"} ELSE {}

\* ---- laws ----
TypeOK == art = None \/ art.kind = "source" \/ (art.kind = "image" /\ art.enc \in Encodings /\ art.comp \in Compressions)
\* dropping is irreversible
Monotone == [][(art.kind = "image" /\ art'.kind = "image") =>
                 /\ (art'.imports => art.imports) /\ (art'.srcinfo => art.srcinfo) /\ (art'.marked => art.marked) /\ (art'.opts => art.opts)
                 /\ art'.sel = art.sel /\ art'.origin = art.origin]_vars
\* the custom options only disappear through one of the named deviations
OptionsOnlyLostByDeviation == [][(art.kind = "image" /\ art'.kind = "image" /\ art.opts /\ ~art'.opts) => last'.deviation # "ok"]_vars
\* a complete artifact can always be read and written in every encoding without loss
CompleteIsLossless == (art.kind = "image" /\ Complete(art)) => (DefsInside(art) /\ ReadOutcome(art) = "ok" /\ \A e \in Encodings : WriteOutcome(art, e) = "ok")
\* the whole-workspace selection and export-built images contain the option definitions: no deviation ever applies to them
DeviationsNeedExcludedImports == (art.kind = "image" /\ ~art.opts) => (art.sel = "module" /\ art.origin = "tree" /\ ~art.imports)
View == art
EmitEdge == Emit => PrintT(<<"EDGE", ToJson([from |-> art, op |-> last', to |-> art'])>>)
EmitState == Emit => PrintT(<<"STATE", ToJson([art |-> art, ops |-> Observable])>>)
=============================================================================

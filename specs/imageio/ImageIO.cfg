SPECIFICATION Spec
CONSTANTS
  MaxFlags = 1
  ConvertCompressions = {"none"}
  Emit = FALSE
INVARIANTS TypeOK CompleteIsLossless DeviationsNeedExcludedImports EmitState
PROPERTIES Monotone OptionsOnlyLostByDeviation
ACTION_CONSTRAINT EmitEdge
VIEW View
CHECK_DEADLOCK FALSE

SPECIFICATION Spec
CONSTANTS
  MaxFlags = 1
  ConvertCompressions = {"none"}
  Emit = FALSE
INVARIANTS TypeOK EmitState
PROPERTIES Monotone
ACTION_CONSTRAINT EmitEdge
VIEW View
CHECK_DEADLOCK FALSE

#!/usr/bin/env python3
"""Run the repository's pinned test suite (tag off) in a checkout and compare with BASELINE.json.

usage: baseline_check.py [repo_dir] [pkg patterns...]
Exit 0 iff every test in BASELINE.stable_pass (restricted to the packages run) passed.
"""
import json, os, subprocess, sys

def main():
    repo = sys.argv[1] if len(sys.argv) > 1 else "/repo"
    pkgs = sys.argv[2:] or ["./..."]
    base = json.load(open("/root/.vp/BASELINE.json"))
    stable = set(base["stable_pass"])
    env = dict(os.environ, GOFLAGS="-mod=mod", GOPROXY="off", GOSUMDB="off", GOTOOLCHAIN="local")
    p = subprocess.Popen(["go", "test", "-json", "-vet=off", "-count=1", "-timeout", "25m"] + pkgs,
                         cwd=repo, env=env, stdout=subprocess.PIPE, stderr=subprocess.DEVNULL, text=True)
    passed, failed, pk_seen = set(), set(), set()
    for line in p.stdout:
        try:
            e = json.loads(line)
        except Exception:
            continue
        if "Package" in e:
            pk_seen.add(e["Package"])
        if e.get("Test") and e.get("Action") in ("pass", "fail"):
            k = e["Package"] + "::" + e["Test"]
            (passed if e["Action"] == "pass" else failed).add(k)
    p.wait()
    want = {t for t in stable if t.split("::")[0] in pk_seen}
    missing = sorted(want - passed)
    print("packages run: %d, stable tests expected: %d, passed of those: %d" % (len(pk_seen), len(want), len(want & passed)))
    for m in missing[:50]:
        print("NOT PASSED:", m, "(failed)" if m in failed else "(not run)")
    sys.exit(1 if missing else 0)

if __name__ == "__main__":
    main()

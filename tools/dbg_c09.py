import sys, json, random
sys.path.insert(0, '/verif/tools')
import vlib, tours
ctx = vlib.Ctx("C09", "quick", 1)
c = dict(layout=sys.argv[2] if len(sys.argv) > 2 else "dir", procs="P2", roles="RolesPP", rolemap={"p1": "put", "p2": "put"}, nfiles=2, faults=1, crashes=1, tampers=0)
cfgtxt = {"NFiles": c["nfiles"], "MaxFaults": c["faults"], "MaxCrashes": c["crashes"], "MaxTampers": c["tampers"], "Layout": '"%s"' % c["layout"], "Emit": "TRUE"}
res = ctx.tlc_must_hold("cache", "MCModuleCache", "ModuleCache.cfg", emit_tags=("EDGE",), constants=dict(cfgtxt, **{"Procs <- " + c["procs"]: None, "Roles <- " + c["roles"]: None}))
edges = res["emit"]["EDGE"]
tl, left = tours.build_tours(edges, max_len=90, rnd=random.Random(1))
print(len(edges), len(tl), left, sum(map(len, tl)))
conf = {"layout": c["layout"], "nfiles": c["nfiles"], "roles": c["rolemap"]}
n = int(sys.argv[1])
out = ctx.vh("cache-tours", {"config": conf, "tours": tl[:n]}, timeout=600)
for x in out["violations"][:int(sys.argv[3]) if len(sys.argv)>3 else 2]:
    print(x["sig"]); print(x["detail"])
    for o in x["case"]["ops"]: print("   ", o["op"], o.get("p"), o.get("outcome"), o.get("kind"))
print(out["evaluations"], out.get("extra"))

#!/bin/sh
# Development aid: a clean scratch worktree of /repo's HEAD plus a copy of harness/ that builds against it, so that
# checks can be tried while /repo is busy (e.g. during tools/sweep_mutants.py).  Usage: . tools/dev_env.sh ; ./check Cxx
# Remove with: git -C /repo worktree remove --force /tmp/devrepo ; rm -rf /tmp/devharness
set -e
if [ ! -d /tmp/devrepo ]; then git -C /repo worktree add --detach /tmp/devrepo HEAD >/dev/null; fi
git -C /tmp/devrepo checkout -q --detach "$(git -C /repo rev-parse HEAD)"
mkdir -p /tmp/devharness
rsync -a --delete /verif/harness/ /tmp/devharness/
sed -i 's|=> /repo|=> /tmp/devrepo|' /tmp/devharness/go.mod
export VERIF_REPO=/tmp/devrepo VERIF_DEV_HARNESS=/tmp/devharness VERIF_NO_EVIDENCE=1
set +e

#!/usr/bin/env python3
"""Summarise violation signatures of an evidence file (debug aid)."""
import json, sys, re, collections
e = json.load(open(sys.argv[1]))
vc = e["coverage"].get("violation_counts", {})
c = collections.Counter()
compat = ("z_state", "added_nested", "added_oneof", "m_res_new", "e_new", "added_enum", "added_msg", "r3_state", "s3_state", "d_file", "style")
for s, n in vc.items():
    parts = s.split("/")
    diff = parts[-1].split(",")
    if len(diff) > 1:
        diff = [d for d in diff if not d.startswith(compat)] or diff
    drop = 3 if len(sys.argv) > 2 else 0
    c["/".join(parts[:-1][:len(parts) - 1 - drop] + [",".join(diff)])] += n
for k, n in sorted(c.items()):
    print(n, k)

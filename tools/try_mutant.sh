#!/bin/sh
# usage: try_mutant.sh <patch.diff> <prop> [<prop>...]   -- applies the patch to /repo, runs the quick checks, reverts.
patch="$1"; shift
cd /repo || exit 2
if [ -n "$(git status --porcelain)" ]; then echo "/repo not clean"; exit 2; fi
git apply "$patch" || { echo "patch does not apply"; exit 2; }
trap 'cd /repo && git checkout -- . && git clean -fdq private cmd >/dev/null 2>&1' EXIT
for p in "$@"; do
  echo "=== $p with $(basename $(dirname $patch))/$(basename $patch)"
  (cd /verif && VERIF_NO_EVIDENCE=1 ./check $p --tier ${TIER:-quick} 2>&1 | grep -E "VIOLATION|KNOWN-FINDING|CHECK-INCONCLUSIVE|signature|detail|^C[0-9]+ " | head -${LINES_MAX:-12}; )
done

"""Transition tours: cover every edge of a labelled state graph with walks from the initial state."""
import json
from collections import deque, defaultdict


def key(state):
    return json.dumps(state, sort_keys=True)


def build_tours(edges, max_len=80, rnd=None):
    """edges: list of dicts with 'from', 'op', 'to'. Returns list of tours (lists of edges)."""
    out = defaultdict(list)
    preds = set()
    for i, e in enumerate(edges):
        e["_f"], e["_t"] = key(e["from"]), key(e["to"])
        out[e["_f"]].append(i)
        preds.add(e["_t"])
    inits = [k for k in out if k not in preds]
    if len(inits) != 1:
        # initial state may have self loops or be re-entered; fall back to the 'from' of the first edge
        inits = [edges[0]["_f"]]
    init = inits[0]
    if rnd:
        for k in out:
            rnd.shuffle(out[k])
    uncovered = set(range(len(edges)))
    unc_out = {k: set(v) for k, v in out.items()}
    tours = []
    while uncovered:
        tour = []
        cur = init
        progressed = False
        while len(tour) < max_len:
            cand = unc_out.get(cur)
            if cand:
                i = next(iter(cand))
                cand.discard(i)
                uncovered.discard(i)
                tour.append(i)
                cur = edges[i]["_t"]
                progressed = True
                continue
            # BFS to the nearest state with an uncovered out-edge
            prev = {cur: None}
            dq = deque([cur])
            target = None
            while dq:
                u = dq.popleft()
                if u != cur and unc_out.get(u):
                    target = u
                    break
                for i in out.get(u, []):
                    v = edges[i]["_t"]
                    if v not in prev:
                        prev[v] = (u, i)
                        dq.append(v)
            if target is None:
                break
            path = []
            u = target
            while prev[u] is not None:
                pu, i = prev[u]
                path.append(i)
                u = pu
            path.reverse()
            if len(tour) + len(path) >= max_len:
                break
            tour.extend(path)
            cur = target
        if not progressed:
            # remaining uncovered edges are unreachable within max_len from init in this walk: start from init again
            if not tour:
                break
        tours.append(tour)
        if not progressed:
            break
    strip = lambda e: {"from": e["from"], "op": e["op"], "to": e["to"]}
    return [[strip(edges[i]) for i in t] for t in tours], len(uncovered)

#!/bin/sh
# usage: confirm_mutant.sh <prop> <mk> <demo_file> <dest_pkg_dir(relative)> <run_regex>
# Confirms in the scratch worktree /tmp/wt/<prop>: builds, passes the pinned suite, demo fails with / passes without.
# On success stores /verif/seeded/<prop>-<mk>/{patch.diff,demo,meta.json(partial)}
prop=$1; mk=$2; demo=$3; dst=$4; rx=$5
root=${WTROOT:-/tmp/wt}; wt=$root/$prop; out=$root/out/$prop/$mk
export GOFLAGS=-mod=mod GOPROXY=off GOSUMDB=off GOTOOLCHAIN=local
cd $wt || exit 2
git checkout -q -- . && git clean -fdq
cp $out/$demo $dst/ || exit 2
clean=$(go test -vet=off -count=1 -run "$rx" ./$dst/ 2>&1 | tail -3)
echo "$clean" | grep -q "^ok" || { echo "DEMO DOES NOT PASS ON CLEAN TREE: $clean"; git checkout -q -- . ; git clean -fdq; exit 1; }
git apply $out/patch.diff || { echo "patch does not apply"; exit 1; }
go build ./... || { echo "BUILD FAILS"; git checkout -q -- .; git clean -fdq; exit 1; }
mut=$(go test -vet=off -count=1 -run "$rx" ./$dst/ 2>&1 | tail -3)
echo "$mut" | grep -q "^FAIL" || { echo "DEMO DOES NOT FAIL WITH MUTANT: $mut"; git checkout -q -- .; git clean -fdq; exit 1; }
rm $dst/$demo
base=$(python3 /verif/tools/baseline_check.py $wt 2>&1 | tail -3)
git checkout -q -- . ; git clean -fdq
echo "$base" | grep -q "passed of those: 1237" || { echo "EXISTING TESTS FAIL: $base"; exit 1; }
d=/verif/seeded/$prop-$mk; mkdir -p $d
cp $out/patch.diff $d/patch.diff; cp $out/$demo $d/; cp $out/README.md $d/README.md 2>/dev/null
cat > $d/meta.json <<EOM
{"property": "$prop", "demo": {"file": "$demo", "copy_to": "$dst/", "run": "go test -vet=off -count=1 -run '$rx' ./$dst/"},
 "confirmed": ["git apply on clean worktree of HEAD", "go build ./...", "pinned suite 1237/1237 (tools/baseline_check.py)", "demo passes clean, fails with patch"]}
EOM
echo "CONFIRMED $prop $mk"

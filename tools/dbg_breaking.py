#!/usr/bin/env python3
"""Debug aid: run Breaking.tla + breaking-replay and print one violation per (clause, rule, non-additive diff)."""
import sys, os, json
sys.path.insert(0, os.path.dirname(os.path.abspath(__file__)))
import vlib
ctx = vlib.Ctx("C03", "quick", 1, "dbg")
res = ctx.tlc_must_hold("breaking", "Breaking", "Breaking.cfg", emit_tags=("CASE", "BASE"),
                        constants={"Emit": "TRUE", "MaxLen": 3, "MaxBreaking": int(os.environ.get("MB", "1")), "VaryBase": "TRUE"}, timeout=6000, heap="12g")
out = ctx.vh("breaking-replay", {"base": res["emit"]["BASE"][0], "cases": res["emit"]["CASE"], "only": sys.argv[1] if len(sys.argv) > 1 else ""}, timeout=12000)
compat = ("z_state", "added_nested", "added_oneof", "m_res_new", "e_new", "added_enum", "added_msg", "r3_state", "s3_state", "d_file", "style")
seen = set()
for v in out["violations"]:
    parts = v["sig"].split("/")
    diff = [d for d in parts[-1].split(",") if not d.startswith(compat)] or parts[-1].split(",")
    k = (parts[0], parts[1], parts[2], ",".join(diff))
    if k in seen:
        continue
    seen.add(k)
    print(v["sig"]); print("    " + v["detail"][:700])
print(len(out["violations"]), "violations,", len(seen), "classes", out.get("extra", {}).get("version_pairs"))

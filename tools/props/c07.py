"""C07 — formatting preserves meaning and comments and is idempotent.  Spec: specs/format/Format.tla."""
import random
import vlib


def run(ctx):
    thorough = ctx.tier == "thorough"
    res = ctx.tlc_must_hold("format", "Format", "Format.cfg", emit_tags=("CASE", "BASE"),
                            constants={"Emit": "TRUE", "MaxDev": 2}, timeout=6000, heap="12g")
    cases = res["emit"]["CASE"]
    if len(cases) < 0.9 * res["distinct"] or not res["emit"]["BASE"]:
        raise vlib.Infra("emission incomplete: %d cases for %d states" % (len(cases), res["distinct"]))
    ctx.exhaustive = True
    if not thorough:
        # quick: every file within one edit, every pair that involves a spelling choice, and a seeded third of the
        # pairs of two comment sites
        rnd = random.Random(ctx.seed)
        sites = {c["site"] for case in cases for c in case["comments"]}
        keep = [c for c in cases if len(c["w"]) <= 1 or any(d[0] not in sites for d in c["w"])]
        site_pairs = [c for c in cases if len(c["w"]) > 1 and all(d[0] in sites for d in c["w"])]
        rnd.shuffle(site_pairs)
        cases = keep + site_pairs[:len(site_pairs) // 3]
        ctx.exhaustive = False
    payload = {"base": res["emit"]["BASE"][0], "cases": cases}
    neg = ctx.vh("format-replay", dict(payload, corrupt=True))
    if not neg["violations"]:
        raise vlib.Infra("negative control failed")
    out = ctx.vh("format-replay", payload, timeout=12000)
    bad = [v for v in out["violations"] if v["sig"].startswith("harness/")]
    if bad:
        raise vlib.Infra("renderer / specification problem: %s %s" % (bad[0]["sig"], bad[0]["detail"][:500]))
    ctx.add_result(out)
    # end to end: buf format (stdout), buf format -w (the file on disk), buf format -d --exit-code
    rnd2 = random.Random(ctx.seed + 7)
    sample = list(cases)
    rnd2.shuffle(sample)
    sample = sample[:300 if not thorough else 3000]
    buf = ctx.build_buf()
    n2 = ctx.vh("format-cli", {"buf": buf, "base": res["emit"]["BASE"][0], "cases": sample[:20], "corrupt": True})
    if not n2["violations"]:
        raise vlib.Infra("negative control of the end-to-end stage failed")
    ctx.add_result(ctx.vh("format-cli", {"buf": buf, "base": res["emit"]["BASE"][0], "cases": sample}, timeout=12000), kind="cli")
    ctx.assumptions += [
        "end to end: 300 (3000) seeded files on disk next to an already formatted one: the text buf format prints, the file buf format -w leaves on disk (most formatted texts are shorter than their source) and the library result are the same; buf format -d --exit-code is clean afterwards; the formatted file is untouched",
        "files are spellings of one skeleton (proto2 / proto3 / edition 2023) that contains every construct the formatter prints; a file differs from the canonical spelling in at most two slots",
        "meaning = the descriptor of the file compiled together with its option definitions, options interpreted, source info dropped, imports as a set",
        "a comment's declaration is the innermost declaration containing the token the parser attaches it to, in the input and in the output",
    ]
    return vlib.finish(ctx, rule="every file of Format.tla (61 comment sites x {block, line}, 21 spelling choices; <=2 edits): the formatted file parses, compiles to the same descriptor, keeps every comment attached to the declaration Owner(site), has the imports Imports(w) and the file options Options(w) in that order, and formatting it again changes nothing; distinct = files")

"""C09 — the module cache never serves wrong content: crashes, faults, races, tampering.
Spec: specs/cache/ModuleCache.tla (MCModuleCache binds the role assignments)."""
import random
import vlib, tours


def configs(ctx):
    q = [
        dict(layout="dir", procs="P2", roles="RolesPP", rolemap={"p1": "put", "p2": "put"}, nfiles=2, faults=1, crashes=1, tampers=0),
        dict(layout="dir", procs="P2", roles="RolesPG", rolemap={"p1": "put", "p2": "get"}, nfiles=2, faults=1, crashes=1, tampers=1),
        dict(layout="dir", procs="P3", roles="RolesPPG", rolemap={"p1": "put", "p2": "put", "p3": "get"}, nfiles=1, faults=1, crashes=1, tampers=0),
        dict(layout="tar", procs="P2", roles="RolesPG", rolemap={"p1": "put", "p2": "get"}, nfiles=1, faults=1, crashes=1, tampers=1),
        dict(layout="tar", procs="P3", roles="RolesPPG", rolemap={"p1": "put", "p2": "put", "p3": "get"}, nfiles=1, faults=1, crashes=1, tampers=0),
        # two storing processes and tampering: a later store must repair whatever the first one's entry was turned into
        dict(layout="dir", procs="P2", roles="RolesPP", rolemap={"p1": "put", "p2": "put"}, nfiles=1, faults=0, crashes=1, tampers=1),
        dict(layout="tar", procs="P2", roles="RolesPP", rolemap={"p1": "put", "p2": "put"}, nfiles=1, faults=0, crashes=1, tampers=1),
    ]
    if ctx.quick:
        return q
    return q + [
        dict(layout="dir", procs="P3", roles="RolesPPG", rolemap={"p1": "put", "p2": "put", "p3": "get"}, nfiles=2, faults=2, crashes=1, tampers=1),
        dict(layout="dir", procs="P3", roles="RolesPGG", rolemap={"p1": "put", "p2": "get", "p3": "get"}, nfiles=2, faults=2, crashes=2, tampers=1),
        dict(layout="dir", procs="P2", roles="RolesPP", rolemap={"p1": "put", "p2": "put"}, nfiles=3, faults=2, crashes=2, tampers=1),
    ]


def run(ctx):
    rnd = random.Random(ctx.seed)
    first = True
    for c in configs(ctx):
        cfgtxt = {"NFiles": c["nfiles"], "MaxFaults": c["faults"], "MaxCrashes": c["crashes"], "MaxTampers": c["tampers"],
                  "Layout": '"%s"' % c["layout"], "Emit": "TRUE"}
        res = ctx.tlc_must_hold("cache", "MCModuleCache", "ModuleCache.cfg", emit_tags=("EDGE",), timeout=6000, heap="12g",
                                constants=dict(cfgtxt, **{"Procs <- " + c["procs"]: None, "Roles <- " + c["roles"]: None}))
        edges = res["emit"]["EDGE"]
        if len(edges) < res["generated"] - 1:
            raise vlib.Infra("edge emission incomplete: %d of %d" % (len(edges), res["generated"]))
        tl, left = tours.build_tours(edges, max_len=90, rnd=rnd)
        if left:
            raise vlib.Infra("%d transitions not covered by tours" % left)
        vlib.log("config %s: %d states, %d transitions, %d tours, %d steps" % (
            {k: c[k] for k in ("layout", "roles", "nfiles", "faults", "crashes", "tampers")}, res["distinct"], len(edges), len(tl), sum(map(len, tl))))
        conf = {"layout": c["layout"], "nfiles": c["nfiles"], "roles": c["rolemap"]}
        if first:
            neg = ctx.vh("cache-tours", {"config": conf, "tours": tl, "corrupt": True})
            if not neg["violations"]:
                raise vlib.Infra("negative control failed: a corrupted expected disk state was not detected")
            first = False
        out = ctx.vh("cache-tours", {"config": conf, "tours": tl}, timeout=6000)
        ctx.add_result(out)
    # second part: the commit store and the caching commit provider (CommitCache.tla), every transition replayed
    # from its materialised pre-state
    res = ctx.tlc_must_hold("cache", "MCCommitCache", "CommitCache.cfg", emit_tags=("EDGE",), timeout=3000, constants={"Emit": "TRUE"})
    cedges = res["emit"]["EDGE"]
    if len(cedges) < res["generated"] - 1:
        raise vlib.Infra("edge emission incomplete: %d of %d" % (len(cedges), res["generated"]))
    neg = ctx.vh("commit-replay", {"edges": cedges, "corrupt": True})
    if not neg["violations"]:
        raise vlib.Infra("negative control of the commit store replay failed")
    out = ctx.vh("commit-replay", {"edges": cedges}, timeout=6000)
    ctx.add_result(out, kind="commit-store")
    # third part: real processes, the real flock locker, real SIGKILLs and real write failures (RLIMIT_FSIZE)
    neg = ctx.vh("cache-procs", {"exe": ctx.harness(), "corrupt": True})
    if not neg["violations"]:
        raise vlib.Infra("negative control of the multi-process stage failed")
    out = ctx.vh("cache-procs", {"exe": ctx.harness()}, timeout=6000)
    ctx.add_result(out, kind="processes")
    ctx.exhaustive = True
    ctx.assumptions += [
        "multi-process stage: one storing child process per scenario on a real disk bucket with the real flock locker, killed before each of its storage operations (and at the points inside the disk atomic writer) or run under every file size limit up to the largest file; the parent then loads and a second child repairs",
        "commit store: two keys, nine contents per file (absent, valid, valid with another digest, six unusable forms); puts fail as a whole (the put is atomic); the delegate is an in-process provider",
        "one cache entry; module files copied one after the other (thread parallelism 1) so that every storage operation is one specification step",
        "in the tours locks are an in-process table behind filelock.Locker whose acquisition order is dictated by the tour; the real flock implementation is used by the multi-process stage",
        "write faults are injected at Put / first Write of module files and at the Put of the marker; failures inside the disk atomic writer itself are covered by C15",
        "a crashed process is a goroutine parked for good at the operation it was about to perform",
    ]
    return vlib.finish(ctx, rule="every transition of ModuleCache.tla for each configuration (layout dir/tar, 2-3 processes put/get, 1-3 files, <=2 faults, <=2 crashes, <=1 tamper), covered by tours replayed on real ModuleDataStore instances over one real disk bucket; after every step the cache directory is classified and compared; plus every transition of CommitCache.tla (put, get by module key / commit key, caching provider with failing delegate / failing put, over every content of two commit files) replayed on the real CommitStore and CommitProvider; plus the multi-process stage (SIGKILL before every storage step, a real write failure at every size limit; load, then repair); distinct = tours + commit-store transitions + process scenarios")

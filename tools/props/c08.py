"""C08 — module digests are a pure, sensitive function of content; manifests canonical.  Spec: specs/digest/Digest.tla."""
import os
import vlib

PATHS = ["a.proto", "t.proto", "t/x.proto", "p/a.proto", "p-q/a.proto", "d x/c.proto", "d/u-umlaut.proto", "d  e.proto",
         " lead.proto", "wide-space.proto", "LICENSE", "buf.md", "README.md", "README.markdown", "notes.txt", "sub/LICENSE"]
# (a path that starts with a space, and one that starts with U+3000: white space is part of a path)
REAL = {"d/u-umlaut.proto": "d/ü.proto", "wide-space.proto": "\u3000w.proto"}


def run(ctx):
    order = sorted(PATHS, key=lambda p: REAL.get(p, p).encode())
    mc = os.path.join(ctx.scratch, "MCDigest.tla")
    with open(mc, "w") as f:
        f.write("---- MODULE MCDigest ----\nEXTENDS Digest\nPathOrderDef == <<%s>>\n====\n" % ", ".join('"%s"' % p for p in order))
    res = ctx.tlc_must_hold("digest", "MCDigest", "Digest.cfg", emit_tags=("STATE",), extra_files=[mc], timeout=6000, heap="12g",
                            constants={"MaxSteps": 1 if ctx.quick else 2, "Emit": "TRUE", "PathOrder <- PathOrderDef": None})
    states = res["emit"]["STATE"]
    if len(states) < res["distinct"]:
        raise vlib.Infra("emission incomplete")
    ctx.exhaustive = True
    neg = ctx.vh("digest-replay", {"states": states, "corrupt": True})
    if not neg["violations"]:
        raise vlib.Infra("negative control failed")
    out = ctx.vh("digest-replay", {"states": states}, timeout=6000)
    ctx.add_result(out)
    ctx.assumptions += [
        "the hash is uninterpreted in the specification (a free term algebra, hence injective); the harness evaluates the terms with x/crypto/sha3 SHAKE256 (64 bytes)",
        "path order in the manifest is byte-wise string order, computed from the real path strings and given to TLC as a constant",
        "dependencies are local modules resolved through imports (D, and E through D)",
    ]
    return vlib.finish(ctx, rule="4 base file sets x dependency present/absent, closed under <=1 (quick) / <=2 (thorough) perturbations (set/remove any of 16 paths incl. spaces (inner, doubled, leading, U+3000), unicode, look-alike directories, doc/license variants, non-module files; rename; retarget; change dependency or transitive dependency content); each state on 5 backends (memory, disk, tar round trip, shuffled walk, prefix-mapped) and both argument orders; distinct = states")

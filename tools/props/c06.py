"""C06 — rule selection and suppression compose set-theoretically.
Spec: specs/check/RulesConfig.tla + RuleTables.tla (generated from the code on every run)."""
import os
import vlib


def tla_set(xs):
    return "{" + ", ".join('"%s"' % x for x in sorted(xs or [])) + "}"


def gen_tables(tables):
    out = ["---- MODULE RuleTables ----", "\\* generated from bufcheck.Client.AllRules of the tree under test"]
    entries = []
    for key in sorted(tables):
        if key.startswith("categories"):
            continue
        recs = ["[id |-> \"%s\", categories |-> %s, default |-> %s, deprecated |-> %s, repl |-> %s]" % (
            r["id"], tla_set(r.get("categories")), "TRUE" if r.get("default") else "FALSE",
            "TRUE" if r.get("deprecated") else "FALSE", tla_set(r.get("repl"))) for r in tables[key]]
        name = key.replace("-", "_")
        out.append("%s == {\n  %s }" % (name, ",\n  ".join(recs)))
        entries.append((key, name))
    out.append("Tables == [k \\in {%s} |-> CASE %s]" % (
        ", ".join('"%s"' % k for k, _ in entries), " [] ".join('k = "%s" -> %s' % (k, n) for k, n in entries)))
    out.append("====")
    return "\n".join(out) + "\n"


def expand(c):
    """Reported = Selected x files x {commented} minus supAll minus supRule (both decided by TLC)."""
    if c["error"]:
        return []
    sup_all = {(t["file"], t["commented"], t["against"]) for t in c["supAll"]}
    sup_rule = {(t["rule"], t["file"], t["commented"], t["against"]) for t in c["supRule"]}
    out = []
    for r in c["selected"]:
        for f in ("x", "y", "z", "imp", "imp2", "s1", "s2"):
            for a in ((f, "s2") if f == "s1" else (f,)):
                for cm in (False, True):
                    if (f, cm, a) not in sup_all and (r, f, cm, a) not in sup_rule:
                        out.append({"rule": r, "file": f, "commented": cm, "against": a})
    return out


def run(ctx):
    dump = ctx.vh("rules-dump", {})
    tables = dump["extra"]["tables"]
    rt = os.path.join(ctx.scratch, "RuleTables.tla")
    with open(rt, "w") as f:
        f.write(gen_tables(tables))
    kinds = ["lint-v2", "breaking-v2", "lint-v1", "breaking-v1"] if ctx.quick else ["lint-v2", "breaking-v2", "lint-v1", "breaking-v1", "lint-v1beta1", "breaking-v1beta1"]
    mc = os.path.join(ctx.scratch, "MCRulesConfig.tla")
    with open(mc, "w") as f:
        f.write("---- MODULE MCRulesConfig ----\nEXTENDS RulesConfig\nKindsDef == {%s}\n====\n" % ", ".join('"%s"' % k for k in kinds))
    res = ctx.tlc_must_hold("check", "MCRulesConfig", "RulesConfig.cfg", emit_tags=("CASE",), extra_files=[rt, mc], timeout=20000, heap="16g",
                            constants={"Kinds <- KindsDef": None, "MaxUse": 2 if ctx.quick else 2, "Emit": "TRUE"})
    cases = res["emit"]["CASE"]
    if len(cases) != res["distinct"]:
        raise vlib.Infra("emission incomplete")
    ctx.exhaustive = True
    conv = []
    for c in cases:
        io = {}
        if c["ignoreOnlyKey"] != "none":
            io[c["ignoreOnlyKey"]] = ["/".join(c["ignoreOnlyPath"])]
        if c["ignoreOnly2"]:
            io["FIELD_SAME_CARDINALITY"] = ["/".join(c["otherPath"])]
        conv.append(dict(kind=c["kind"], use=sorted(c["use"]), **{"except": sorted(c["except"])}, ignore=["/".join(p) for p in c["ignore"]],
                         ignoreOnly=io, allowComments=c["allowComments"], excludeImports=c["excludeImports"], error=c["error"],
                         selected=sorted(c["selected"]), expected=expand(c)))
    neg = ctx.vh("rules-replay", {"cases": [c for c in conv if not c["error"] and c["expected"]][:200], "corrupt": True})
    if not neg["violations"]:
        raise vlib.Infra("negative control failed")
    out = ctx.vh("rules-replay", {"cases": conv}, timeout=20000)
    ctx.add_result(out)
    ctx.notes["rule_tables"] = {k: len(v) for k, v in tables.items()}
    ctx.assumptions += [
        "what a rule reports on its own (Alone) is measured on fixed images with planted violations; the composition law is what is checked",
        "annotations are abstracted to (rule, file, inside the element carrying buf:lint:ignore comments)",
    ]
    return vlib.finish(ctx, rule="every configuration of RulesConfig.tla: kind (lint/breaking x version) x use (<=2 of a pool of rule, category, deprecated and unknown IDs) x except (<=1) x ignore path (<=1 of 4 incl. a look-alike prefix) x ignore_only (one key, two paths) x allow_comment_ignores x exclude-imports; Client.Lint/Breaking/ConfiguredRules compared with the algebra over measured Alone(r); distinct = configurations")

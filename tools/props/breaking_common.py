"""Shared driver of C03 and C04: specs/breaking/Breaking.tla replayed on the real detector."""
import vlib


def run(ctx, only, rule):
    thorough = ctx.tier == "thorough"
    consts = {"Emit": "TRUE", "MaxLen": 3, "MaxBreaking": 2 if thorough else 1, "VaryBase": "TRUE"}
    res = ctx.tlc_must_hold("breaking", "Breaking", "Breaking.cfg", emit_tags=("CASE", "BASE"), constants=consts, timeout=6000, heap="12g")
    cases = res["emit"]["CASE"]
    if len(cases) != res["distinct"] or len(res["emit"]["BASE"]) < 1:
        raise vlib.Infra("emission incomplete: %d cases for %d states" % (len(cases), res["distinct"]))
    base = res["emit"]["BASE"][0]
    ctx.exhaustive = True
    neg = ctx.vh("breaking-replay", {"base": base, "cases": cases, "corrupt": only, "only": only})
    if not neg["violations"]:
        raise vlib.Infra("negative control failed")
    out = ctx.vh("breaking-replay", {"base": base, "cases": cases, "only": only}, timeout=12000)
    bad = [v for v in out["violations"] if v["sig"].startswith("harness/")]
    if bad:
        raise vlib.Infra("the renderer produced a schema that does not compile: %s" % bad[0]["detail"][:500])
    ctx.add_result(out)
    ctx.assumptions += [
        "schemas are versions of one fixed five-file skeleton; every edit operator of the catalogue is a slot transition of Breaking.tla",
        "Expected is a lower bound (the documented annotation must be present); additional annotations are only an alarm for additive / cosmetic / identical steps",
        "the rule -> category tables are the static BreakingTables.tla (documentation), not read from the code",
    ]
    return vlib.finish(ctx, rule=rule)

"""C18 — managed mode rewrites only what it governs.  Spec: specs/image/Managed.tla."""
import vlib


def run(ctx):
    res = ctx.tlc_must_hold("image", "Managed", "Managed.cfg", emit_tags=("CASE",), constants={"MaxRules": 2 if ctx.quick else 3, "Emit": "TRUE"},
                            timeout=20000, heap="16g")
    cases = res["emit"]["CASE"]
    if len(cases) != res["distinct"]:
        raise vlib.Infra("emission incomplete: %d of %d" % (len(cases), res["distinct"]))
    ctx.exhaustive = True
    neg = ctx.vh("managed-replay", {"cases": cases, "corrupt": True})
    if not neg["violations"]:
        raise vlib.Infra("negative control failed")
    out = ctx.vh("managed-replay", {"cases": cases}, timeout=20000)
    ctx.add_result(out)
    # the v1 / v1beta1 form: section records translated by the reader to rule lists (ManagedV1.tla)
    res1 = ctx.tlc_must_hold("image", "ManagedV1", "ManagedV1.cfg", emit_tags=("CASE",),
                             constants={"MaxRules": 2, "MaxSections": 2 if ctx.quick else 3, "Emit": "TRUE"}, timeout=20000, heap="16g")
    cases1 = res1["emit"]["CASE"]
    if len(cases1) != res1["distinct"]:
        raise vlib.Infra("emission incomplete (v1): %d of %d" % (len(cases1), res1["distinct"]))
    neg1 = ctx.vh("managed-replay", {"cases": cases1, "corrupt": True})
    if not neg1["violations"]:
        raise vlib.Infra("negative control failed (v1)")
    ctx.add_result(ctx.vh("managed-replay", {"cases": cases1}, timeout=20000), kind="v1")
    ctx.assumptions += [
        "v1 / v1beta1 form: every section record with <= 2 (3) sections present (booleans, default/except/override maps per module, per-file overrides incl. a directory and a prefix option next to its value option), rendered in two spellings, read by the real reader, used as read and after being written as v2 and read again",
        "one fixed image (two modules, four files incl. a well-known-type import, pre-set options, custom js_type, source info); the configuration space is enumerated, not the image space",
        "option value functions (java/go/csharp/ruby/objc naming) are uninterpreted terms rendered by the harness' own implementation",
    ]
    return vlib.finish(ctx, rule="every managed configuration with <= 2 (quick) / 3 (thorough) ordered disable rules from a pool of 9 and <= 2 / 3 ordered override rules from a pool of 13, enabled and disabled; each through the v2 buf.gen.yaml reader and through the constructors; every v1 / v1beta1 section record of ManagedV1.tla through the v1 reader and through the v2 document written for it; the whole image is compared with the image obtained from the specification's decisions; distinct = configurations")

"""C18 — managed mode rewrites only what it governs.  Spec: specs/image/Managed.tla."""
import vlib


def run(ctx):
    res = ctx.tlc_must_hold("image", "Managed", "Managed.cfg", emit_tags=("CASE",), constants={"MaxRules": 2 if ctx.quick else 3, "Emit": "TRUE"},
                            timeout=20000, heap="16g")
    cases = res["emit"]["CASE"]
    if len(cases) != res["distinct"]:
        raise vlib.Infra("emission incomplete: %d of %d" % (len(cases), res["distinct"]))
    ctx.exhaustive = True
    neg = ctx.vh("managed-replay", {"cases": cases, "corrupt": True})
    if not neg["violations"]:
        raise vlib.Infra("negative control failed")
    out = ctx.vh("managed-replay", {"cases": cases}, timeout=20000)
    ctx.add_result(out)
    ctx.assumptions += [
        "one fixed image (two modules, four files incl. a well-known-type import, pre-set options, custom js_type, source info); the configuration space is enumerated, not the image space",
        "option value functions (java/go/csharp/ruby/objc naming) are uninterpreted terms rendered by the harness' own implementation",
    ]
    return vlib.finish(ctx, rule="every managed configuration with <= 2 (quick) / 3 (thorough) ordered disable rules from a pool of 9 and <= 2 / 3 ordered override rules from a pool of 13, enabled and disabled; each through the v2 buf.gen.yaml reader and through the constructors; the whole image is compared with the image obtained from the specification's decisions; distinct = configurations")

"""C05 — lint reports exactly the style violations that are present.  Spec: specs/lint/Lint.tla."""
import vlib


def run(ctx):
    thorough = ctx.tier == "thorough"
    res = ctx.tlc_must_hold("lint", "Lint", "Lint.cfg", emit_tags=("CASE", "BASE", "CATS"),
                            constants={"Emit": "TRUE", "MaxPlants": 2, "MaxRpc": 9}, timeout=6000, heap="12g")
    cases = res["emit"]["CASE"]
    if len(cases) != res["distinct"] or not res["emit"]["BASE"] or not res["emit"]["CATS"]:
        raise vlib.Infra("emission incomplete: %d cases for %d states" % (len(cases), res["distinct"]))
    if not thorough:
        # quick: every single planting, every RPC signature block, and the pairs of plantings that share a seeded sample
        import random
        rnd = random.Random(ctx.seed)
        singles = [c for c in cases if len(c["w"]) <= 1 or all(d[0] in RPC for d in c["w"])]
        pairs = [c for c in cases if not (len(c["w"]) <= 1 or all(d[0] in RPC for d in c["w"]))]
        # (a planting that changes nothing by itself only shows together with another one: those pairs always run)
        context = [c for c in pairs if any(d[0] == "weather_jmf" for d in c["w"])]
        pairs = [c for c in pairs if not any(d[0] == "weather_jmf" for d in c["w"])]
        rnd.shuffle(pairs)
        cases = singles + context + pairs[:1500]
        ctx.exhaustive = False
    else:
        ctx.exhaustive = True
    payload = {"base": res["emit"]["BASE"][0], "categories": res["emit"]["CATS"][0], "cases": cases}
    neg = ctx.vh("lint-replay", dict(payload, corrupt=True))
    if not neg["violations"]:
        raise vlib.Infra("negative control failed")
    out = ctx.vh("lint-replay", payload, timeout=12000)
    bad = [v for v in out["violations"] if v["sig"].startswith("harness/")]
    if bad:
        raise vlib.Infra("renderer problem: %s" % bad[0]["detail"][:500])
    ctx.add_result(out)
    ctx.assumptions += [
        "workspaces are plantings into one fixed six-file skeleton that is clean by construction; >= 1 planting operator per builtin rule except PROTOVALIDATE, STABLE_PACKAGE_NO_IMPORT_UNSTABLE and the deprecated IMPORT_NO_WEAK",
        "the rule -> category tables are the static LintTables.tla (documentation), not read from the code",
        "quick replays every single planting, every RPC signature block and a seeded sample of 1500 planting pairs; thorough replays every state",
    ]
    return vlib.finish(ctx, rule="every workspace of Lint.tla (<=2 planted violations incl. nested declarations, extensions, a second file of the package, the last file in path order, 8*P+7 files; the full product of RPC request/response types x allow_* options): for 3 configuration versions x every category (v2: top-level and module-level lint section, and a module-level section carrying only options) and the single-rule configurations the reported (rule, file, line, column) set must equal the expected one; distinct = workspaces")


RPC = {"get_req", "get_resp", "list_req", "list_resp", "ping_req", "ping_resp", "allow_same", "allow_empty_req", "allow_empty_resp"}

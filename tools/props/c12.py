"""C12 — type filtering yields a self-contained, minimal, otherwise unchanged image.  Spec: specs/image/TypeFilter.tla."""
import vlib


def run(ctx):
    res = ctx.tlc_must_hold("image", "TypeFilter", "TypeFilter.cfg", emit_tags=("CASE",), constants={"MaxNames": 2 if ctx.quick else 3, "Emit": "TRUE"},
                            timeout=20000, heap="16g")
    cases = res["emit"]["CASE"]
    if len(cases) != res["distinct"]:
        raise vlib.Infra("emission incomplete")
    ctx.exhaustive = True
    neg = ctx.vh("filter-replay", {"cases": cases, "corrupt": True})
    if not neg["violations"]:
        raise vlib.Infra("negative control failed")
    out = ctx.vh("filter-replay", {"cases": cases}, timeout=20000)
    ctx.add_result(out)
    # end to end (the observation points the property names): buf build --type, buf generate with types / exclude_types
    import random
    cli = [c for c in cases if c["knownExt"]]
    random.Random(ctx.seed).shuffle(cli)
    # (the filters with a single name always run)
    cli = [c for c in cli if len(c["include"]) + len(c["exclude"]) == 1] + [c for c in cli if len(c["include"]) + len(c["exclude"]) != 1][:600 if ctx.quick else 6000]
    buf = ctx.build_buf()
    n2 = ctx.vh("filter-cli", {"buf": buf, "exe": ctx.harness(), "cases": cli[:40], "corrupt": True})
    if not n2["violations"]:
        raise vlib.Infra("negative control of the end-to-end stage failed")
    ctx.add_result(ctx.vh("filter-cli", {"buf": buf, "exe": ctx.harness(), "cases": cli}, timeout=20000), kind="cli")
    ctx.assumptions += [
        "end to end: 600 (6000) seeded filters with the defaults of the command line (custom options and known extensions retained) through the buf binary: buf build --type -o with and without --exclude-imports (includes only) and buf generate with a plugin carrying types / exclude_types next to an unfiltered plugin, in either order, or with the --type / --exclude-type flags; the elements of the written image and of the descriptors each plugin receives are compared with the specification (the unfiltered plugin must receive the whole schema)",
        "one fixed schema (30 named elements in 5 files: nested types, map, oneof, an extension and a chain of extensions of extension types, custom options with a message value, service with two methods, a file without types); the filter space is enumerated, not the schema space",
        "custom-option retention is enumerated on/off; known-extension retention (the default of the CLI) is enumerated on/off for filters that include something, with custom options on; with retention on the same filter is applied seven times and must give the same elements; copying and in-place modes are both run",
    ]
    return vlib.finish(ctx, rule="every filter with 1..2 (quick) / 1..3 (thorough) names distributed over include and exclude (21 names: elements and packages) x custom options on/off x known-extension retention on/off x in-place/copy; the single-name filters also with c.proto and e.proto as imports of the image (a module that is not targeted); result checked for error class, linking, surviving elements and fields = Keep of the specification, unchanged fields, comment attachment, idempotence; a seeded sample end to end through buf build --type and buf generate (types / exclude_types per plugin or as flags, next to an unfiltered plugin); distinct = filters")

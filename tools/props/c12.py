"""C12 — type filtering yields a self-contained, minimal, otherwise unchanged image.  Spec: specs/image/TypeFilter.tla."""
import vlib


def run(ctx):
    res = ctx.tlc_must_hold("image", "TypeFilter", "TypeFilter.cfg", emit_tags=("CASE",), constants={"MaxNames": 2 if ctx.quick else 3, "Emit": "TRUE"},
                            timeout=20000, heap="16g")
    cases = res["emit"]["CASE"]
    if len(cases) != res["distinct"]:
        raise vlib.Infra("emission incomplete")
    ctx.exhaustive = True
    neg = ctx.vh("filter-replay", {"cases": cases, "corrupt": True})
    if not neg["violations"]:
        raise vlib.Infra("negative control failed")
    out = ctx.vh("filter-replay", {"cases": cases}, timeout=20000)
    ctx.add_result(out)
    ctx.assumptions += [
        "one fixed schema (30 named elements in 5 files: nested types, map, oneof, an extension and a chain of extensions of extension types, custom options with a message value, service with two methods, a file without types); the filter space is enumerated, not the schema space",
        "custom-option retention is enumerated on/off; known-extension retention (the default of the CLI) is enumerated on/off for filters that include something, with custom options on; with retention on the same filter is applied seven times and must give the same elements; copying and in-place modes are both run",
    ]
    return vlib.finish(ctx, rule="every filter with 1..2 (quick) / 1..3 (thorough) names distributed over include and exclude (21 names: elements and packages) x custom options on/off x known-extension retention on/off x in-place/copy; result checked for error class, linking, surviving elements and fields = Keep of the specification, unchanged fields, comment attachment, idempotence; distinct = filters")

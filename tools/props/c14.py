"""C14 — all bucket implementations and combinators behave as one path-to-bytes map.
Spec: specs/storage/Storage.tla (MCStorage.tla binds the constants)."""
import vlib

KINDS = [["mem", "mem"], ["os", "os"], ["os", "mem"], ["mem", "os"]]


def run(ctx):
    cfg = "Storage_quick.cfg" if ctx.quick else "Storage_thorough.cfg"
    # exhaustive TLC (laws of the design) + emission of every state (with the expected answer of every
    # query on every view) and of every transition
    res = ctx.tlc_must_hold("storage", "MCStorage", cfg, emit_tags=("STATE", "EDGE", "SPELL"),
                            constants={"Emit": '"both"'}, timeout=7000, heap="16g")
    states, edges, spells = res["emit"]["STATE"], res["emit"]["EDGE"], res["emit"]["SPELL"]
    if len(states) != res["distinct"] or not edges or len(spells) != 1:
        raise vlib.Infra("emission incomplete: %d states of %d, %d edges, %d spell tables" % (len(states), res["distinct"], len(edges), len(spells)))
    ctx.exhaustive = True
    spells = spells[0]
    vlib.log("TLC: %d states, %d transitions emitted" % (len(states), len(edges)))
    kinds = KINDS if not ctx.quick else KINDS[:3]
    ekinds = KINDS if not ctx.quick else KINDS[:2]
    # negative controls
    n1 = ctx.vh("storage-states", {"states": states[:40], "spells": spells, "kinds": kinds[:1], "corrupt": True})
    n2 = ctx.vh("storage-edges", {"edges": edges[:400], "states": [], "spells": spells, "kinds": kinds[:1], "corrupt": True})
    if not n1["violations"] or not n2["violations"]:
        raise vlib.Infra("negative control failed (states: %d, edges: %d violations)" % (len(n1["violations"]), len(n2["violations"])))
    out = ctx.vh("storage-states", {"states": states, "spells": spells, "kinds": kinds}, timeout=7000)
    ctx.add_result(out)
    out = ctx.vh("storage-edges", {"edges": edges, "states": states, "spells": spells, "kinds": ekinds}, timeout=7000)
    ctx.add_result(out)
    ctx.assumptions += [
        "path universe {a/x, ab/x, a.proto, b/c/d, b/c.proto}; contents empty/small/70kB; two bases of kinds memory/disk",
        "ObjectInfo.Path() is compared after cleaning (disk and mapped buckets report the spelling they were given); ExternalPath/LocalPath are outside the property",
        "every transition is executed from a freshly materialised pre-state; history dependence is covered by the recorded-trace stage",
    ]
    return vlib.finish(ctx, rule="every state and every transition of Storage.tla within the constants (TLC-enumerated); each state: every view x every query path x every equivalent spelling x get/stat/walk + copy/tar/zip round trip; each transition: result class, projected post-state, root walk of every view; distinct = distinct (pre-state, operation) pairs + states")

"""C14 — all bucket implementations and combinators behave as one path-to-bytes map.
Spec: specs/storage/Storage.tla (MCStorage.tla binds the constants)."""
import json
import zlib
import vlib

KINDS = [["mem", "mem"], ["os", "os"], ["os", "mem"], ["mem", "os"]]


def run(ctx):
    cfg = "Storage_quick.cfg" if ctx.quick else "Storage_thorough.cfg"
    # exhaustive TLC (laws of the design) + emission of every state (with the expected answer of every
    # query on every view) and of every transition
    res = ctx.tlc_must_hold("storage", "MCStorage", cfg, emit_tags=("STATE", "EDGE", "SPELL"),
                            constants={"Emit": '"both"'}, timeout=7000, heap="16g", emit_raw=True)
    states, edges, spells = res["emit"]["STATE"], res["emit"]["EDGE"], res["emit"]["SPELL"]
    if len(states) != res["distinct"] or not edges or len(spells) != 1:
        raise vlib.Infra("emission incomplete: %d states of %d, %d edges, %d spell tables" % (len(states), res["distinct"], len(edges), len(spells)))
    ctx.exhaustive = True
    spells = json.loads(spells[0])
    vlib.log("TLC: %d states, %d transitions emitted" % (len(states), len(edges)))
    # (memro: immutable memory buckets built from maps with non-normalised keys; observed only, never written through)
    kinds = (KINDS if not ctx.quick else KINDS[:3]) + [["memro", "memro"]]
    ekinds = KINDS if not ctx.quick else KINDS[:2]
    # The records stay unparsed JSON texts on this side (a state carries the expected answer of every query on every
    # view).  They are cut into groups by state so that neither side ever holds all of them: a transition goes with the
    # group of its post-state, whose expected observations it needs.
    ngroups = 1 if ctx.quick else 12

    def canon(st):
        return json.dumps({b: sorted(("/".join(o["p"]), o["c"]) for o in st[b]) for b in sorted(st)}, sort_keys=True)

    def group_of(key):
        return zlib.crc32(key.encode()) % ngroups
    sgroups = [[] for _ in range(ngroups)]
    for raw in states:
        sgroups[group_of(canon(json.loads(raw)["state"]))].append(raw)
    egroups = [[] for _ in range(ngroups)]
    for raw in edges:
        egroups[group_of(canon(json.loads(raw)["to"]))].append(raw)
    del states, edges, res
    # negative controls
    n1 = ctx.vh("storage-states", {"states": sgroups[0][:40], "spells": spells, "kinds": kinds[:1], "corrupt": True})
    n2 = ctx.vh("storage-edges", {"edges": egroups[0][:400], "states": [], "spells": spells, "kinds": kinds[:1], "corrupt": True})
    if not n1["violations"] or not n2["violations"]:
        raise vlib.Infra("negative control failed (states: %d, edges: %d violations)" % (len(n1["violations"]), len(n2["violations"])))
    for g in range(ngroups):
        if sgroups[g]:
            ctx.add_result(ctx.vh("storage-states", {"states": sgroups[g], "spells": spells, "kinds": kinds}, timeout=7000))
        if egroups[g]:
            ctx.add_result(ctx.vh("storage-edges", {"edges": egroups[g], "states": sgroups[g], "spells": spells, "kinds": ekinds}, timeout=7000))
    ctx.assumptions += [
        "path universe {a/x, ab/x, a.proto, b/c/d, b/c.proto}; contents empty/small/70kB; two bases of kinds memory/disk",
        "ObjectInfo.Path() is compared after cleaning (disk and mapped buckets report the spelling they were given); ExternalPath/LocalPath are outside the property",
        "every transition is executed from a freshly materialised pre-state; history dependence is covered by the recorded-trace stage",
    ]
    return vlib.finish(ctx, rule="every state and every transition of Storage.tla within the constants (TLC-enumerated); each state: every view x every query path x every equivalent spelling x get/stat/walk + copy/tar/zip round trip; each transition: result class, projected post-state, root walk of every view; distinct = distinct (pre-state, operation) pairs + states")

"""C10 — workspace dependency resolution is exact and ambiguity is an error.  Spec: specs/image/Workspace.tla."""
import vlib


def run(ctx):
    res = ctx.tlc_must_hold("image", "Workspace", "Workspace.cfg", emit_tags=("CASE",), constants={"Emit": "TRUE"}, timeout=20000, heap="16g")
    cases = res["emit"]["CASE"]
    if len(cases) != res["distinct"]:
        raise vlib.Infra("emission incomplete")
    ctx.exhaustive = True
    if ctx.quick:
        # quick: every import graph, but the full product with commit orders only for a rotating third
        cases = [c for i, c in enumerate(cases) if len(c["cCommits"]) <= 2 or i % 3 == ctx.seed % 3]
    neg = ctx.vh("deps-replay", {"cases": cases[:3000], "corrupt": True})
    if not neg["violations"]:
        raise vlib.Infra("negative control failed")
    out = ctx.vh("deps-replay", {"cases": cases}, timeout=20000)
    ctx.add_result(out)
    ctx.assumptions += [
        "three module names, four files; remote modules are served by an in-process ModuleDataProvider/CommitProvider (creation time = commit id)",
        "when a cycle, an ambiguous path and a missing import coexist any error is accepted; otherwise the error class must match",
    ]
    return vlib.finish(ctx, rule="every workspace of Workspace.tla: file-level import choices (incl. module cycles) x B local/remote/both x every non-empty ordered selection of 1..3 commits of C x duplicate provider x missing import; ModuleDeps of every module (set, direct flags, error class), ModuleSetToDAG edges, selected commit and local-over-remote precedence, ls-files closure = files of the built image; distinct = workspaces")

"""C10 — workspace dependency resolution is exact and ambiguity is an error.  Spec: specs/image/Workspace.tla."""
import vlib


def run(ctx):
    res = ctx.tlc_must_hold("image", "Workspace", "Workspace.cfg", emit_tags=("CASE",), constants={"Emit": "TRUE"}, timeout=20000, heap="16g")
    cases = res["emit"]["CASE"]
    if len(cases) != res["distinct"]:
        raise vlib.Infra("emission incomplete")
    ctx.exhaustive = True
    if ctx.quick:
        # quick: every import graph, but the full product with commit orders only for a rotating third
        cases = [c for i, c in enumerate(cases) if len(c["cCommits"]) <= 2 or i % 3 == ctx.seed % 3]
    neg = ctx.vh("deps-replay", {"cases": cases[:3000], "corrupt": True})
    if not neg["violations"]:
        raise vlib.Infra("negative control failed")
    out = ctx.vh("deps-replay", {"cases": cases}, timeout=20000)
    ctx.add_result(out)
    # end to end: the workspaces with one pinned commit of C on disk, remote modules in a seeded cache directory, buf binary offline
    import random
    single = [c for c in res["emit"]["CASE"] if len(c["cCommits"]) == 1]
    random.Random(ctx.seed).shuffle(single)
    single = single[:500 if ctx.quick else 5000]
    buf = ctx.build_buf()
    n2 = ctx.vh("deps-cli", {"buf": buf, "cases": single[:40], "corrupt": True})
    if not n2["violations"]:
        raise vlib.Infra("negative control of the end-to-end stage failed")
    ctx.add_result(ctx.vh("deps-cli", {"buf": buf, "cases": single}, timeout=20000), kind="cli")
    ctx.assumptions += [
        "end to end: 500 (5000) seeded workspaces with one pinned commit of C materialised on disk twice - as buf.yaml v2 with local modules, deps and a v2 buf.lock, and as buf.work.yaml with v1 modules that each declare the remote modules and pin them in a v1 buf.lock with b4 digests -, remote modules stored with the real ModuleDataStore / CommitStore in a cache directory, the buf binary run offline: build of module A (error class by exit status), ls-files --include-imports = files of the built image, buf build . --path <directory of the module's files> = the image of buf build <module> (files and import flags), dep graph edges in DOT and (v2 layout) JSON form",
        "three module names, four files; remote modules are served by an in-process ModuleDataProvider/CommitProvider (creation time = commit id)",
        "when a cycle, an ambiguous path and a missing import coexist any error is accepted; otherwise the error class must match",
    ]
    return vlib.finish(ctx, rule="every workspace of Workspace.tla: file-level import choices (incl. module cycles) x B local/remote/both x every non-empty ordered selection of 1..3 commits of C x duplicate provider x missing import; ModuleDeps of every module (set, direct flags, error class), ModuleSetToDAG edges, selected commit and local-over-remote precedence, ls-files closure = files of the built image; a seeded sample end to end through the buf binary (build, ls-files, dep graph) over a seeded module cache; distinct = workspaces")

"""C01 — an image is the exact, closed, ordered compilation of the targeted files.  Spec: specs/image/ImageGraph.tla."""
import vlib


def constants(ctx):
    if ctx.quick:
        return {"MaxImportsA": 2, "MaxImportsOther": 1, "MaxDev": 2, "Emit": "TRUE"}
    return {"MaxImportsA": 3, "MaxImportsOther": 1, "MaxDev": 2, "Emit": "TRUE"}


def run(ctx):
    res = ctx.tlc_must_hold("image", "ImageGraph", "ImageGraph.cfg", emit_tags=("CASE",), constants=constants(ctx), timeout=20000, heap="20g")
    cases = res["emit"]["CASE"]
    if len(cases) != res["distinct"]:
        raise vlib.Infra("emission incomplete: %d of %d" % (len(cases), res["distinct"]))
    ctx.exhaustive = True
    neg = ctx.vh("image-replay", {"cases": cases[:2000], "corrupt": True})
    if not neg["violations"]:
        raise vlib.Infra("negative control failed")
    out = ctx.vh("image-replay", {"cases": cases}, timeout=20000)
    ctx.add_result(out)
    ctx.assumptions += [
        "five fixed file paths in two modules (incl. a look-alike directory acme/v1beta1 next to acme/v1 and a nested acme/v1/sub); import graphs are acyclic by construction; at most MaxDev of the selection dimensions deviate from the default at once",
        "descriptor contents are compared with an independent protocompile compilation of the same text (the compiler is uninterpreted in the specification); the built-in well-known types come from buf's datawkt bucket in both compilations",
        "--path/--exclude-path are given to every targeted module through LocalModuleWithTargetPaths (API semantics)",
    ]
    return vlib.finish(ctx, rule="every workspace of ImageGraph.tla within the constants: ordered import lists x unused import x target modules x path/exclude selections x supplied well-known type x missing syntax x planted compile errors; BuildImage result compared in order (path, import flag, module, commit, unused indexes, syntax flag) and each descriptor with an independent compilation; distinct = workspaces")

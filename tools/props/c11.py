"""C11 — an image faithfully stands in for its sources, in every encoding.  Spec: specs/imageio/ImageIO.tla."""
import json
import random
import vlib, tours


def run(ctx):
    thorough = ctx.tier == "thorough"
    rnd = random.Random(ctx.seed)
    res = ctx.tlc_must_hold("imageio", "ImageIO", "ImageIO.cfg", emit_tags=("EDGE", "STATE"),
                            constants={"Emit": "TRUE", "MaxFlags": 3 if thorough else 1, "ConvertCompressions": '{"none", "gz", "zst"}' if thorough else '{"none"}'}, timeout=6000, heap="8g")
    edges = res["emit"]["EDGE"]
    states = res["emit"]["STATE"]
    if len(edges) < res["generated"] - 1 or len(states) < res["distinct"]:
        raise vlib.Infra("emission incomplete: %d edges of %d, %d states of %d" % (len(edges), res["generated"], len(states), res["distinct"]))
    ops = {json.dumps(s["art"], sort_keys=True): s["ops"] for s in states}
    tl, left = tours.build_tours(edges, max_len=40, rnd=rnd)
    if left:
        raise vlib.Infra("%d transitions not covered by tours" % left)
    seen = set()
    nobs = 0
    for t in tl:
        for e in t:
            k = json.dumps(e["to"], sort_keys=True)
            if k not in seen and ops.get(k):
                seen.add(k)
                e["observe"] = [{"op": o["op"], "paths": [sorted(o["paths"][0]), sorted(o["paths"][1])]} for o in ops[k]]
                nobs += len(e["observe"])
    vlib.log("%d states, %d transitions, %d tours, %d steps, %d observations" % (res["distinct"], len(edges), len(tl), sum(len(t) for t in tl), nobs))
    ctx.exhaustive = True
    buf = ctx.build_buf()
    neg = ctx.vh("imageio-replay", {"buf": buf, "tours": tl[:3], "corrupt": True})
    if not neg["violations"]:
        raise vlib.Infra("negative control failed")
    out = ctx.vh("imageio-replay", {"buf": buf, "tours": tl}, timeout=12000)
    ctx.add_result(out)
    ctx.assumptions += [
        "one workspace (two modules: the targeted one and one that supplies a vendored well-known type and the option definitions; custom options with message, repeated and string values, an extension, a map, a oneof, defaults, comments incl. a lint ignore)",
        "the reference of a selection is the binpb image the buf binary builds from the directory; every other artifact is decoded with google.golang.org/protobuf, protoyaml, gzip and zstd directly, not with buf's readers",
        "operations are compared with their outcome on the directory sources after stripping the module directory prefix from paths",
    ]
    return vlib.finish(ctx, rule="every transition of ImageIO.tla (open a packaging: dir / tar / tar.gz / zip x module / workspace; export; build and convert to 4 encodings x 3 compressions with <=1 (3) of --exclude-imports / --exclude-source-info / --as-file-descriptor-set), covered by tours executed with the buf binary; after every step the written file is decoded independently and compared with the content the state prescribes; on every complete artifact lint, lint --path, breaking and build with 8 valid --path / --exclude-path selections must equal the outcome on the directory sources; distinct = tours")

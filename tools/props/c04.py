"""C04 — compatible changes are never reported and breaking categories are ordered.  Spec: specs/breaking/Breaking.tla."""
from props import breaking_common


def run(ctx):
    return breaking_common.run(ctx, "C04", "every pair of versions of every history of Breaking.tla: identical versions and additive / cosmetic steps (also chains of them, compared with every earlier version) report nothing under 3 configuration versions x 4 categories; every pair (also breaking ones) satisfies clean(FILE) => clean(PACKAGE) => clean(WIRE_JSON) => clean(WIRE); distinct = compiled versions")

"""C03 — no documented breaking change goes unreported.  Spec: specs/breaking/Breaking.tla."""
from props import breaking_common


def run(ctx):
    return breaking_common.run(ctx, "C03", "every pair (older, newer) of versions of every history of Breaking.tla (<=3 versions; <=1 (2) non-additive edits; every value pair of every slot): each expected (rule, names, anchor) must be reported under every configuration version x category that contains the rule and under the single-rule configuration; distinct = compiled versions")

"""C13 — no path can escape a bucket's root.  Spec: specs/storage/PathEscape.tla (+ common/PathAlg.tla)."""
import json
import vlib


def run(ctx):
    maxlen = 4 if ctx.quick else 6
    if ctx.replay:
        rp = json.load(open(ctx.replay))
        cases = [rp["case"]["tlc_case"]] if rp.get("case") and "tlc_case" in rp["case"] else None
    # 1. exhaustive TLC: containment lemma, frame, nested views, archive containment — and emission of
    #    one expectation record per raw path.
    res = ctx.tlc_must_hold("storage", "PathEscape", "PathEscape.cfg", emit_tags=("CASE",),
                            constants={"MaxLen": maxlen, "Emit": "TRUE"}, timeout=3000, heap="12g")
    cases = res["emit"]["CASE"]
    n_expected = sum(7 ** k for k in range(1, maxlen + 1))
    if len(cases) != n_expected:
        raise vlib.Infra("expected %d emitted cases, got %d" % (n_expected, len(cases)))
    ctx.exhaustive = True
    if ctx.replay:
        rp = json.load(open(ctx.replay))
        raw = rp["case"]["raw"]
        cases = [c for c in cases if "/".join(c["raw"]) == raw]
    # 2. negative control: a corrupted expectation must be objected to by the oracle
    neg = ctx.vh("pathescape", {"cases": cases[:50], "corrupt": True})
    if not ctx.replay and not neg["violations"]:
        raise vlib.Infra("negative control failed: corrupted expectation was not detected")
    # 3. replay every case on every bucket kind
    out = ctx.vh("pathescape", {"cases": cases}, timeout=6000)
    ctx.add_result(out)
    ctx.assumptions += [
        "component alphabet {a, b, a.b, ..a, ., .., empty}; raw paths up to %d components (exhaustive)" % maxlen,
        "disk buckets without symlink following (following symlinks leaves the root by design)",
        "normalpath_windows.go is not exercised on this platform",
    ]
    ctx.notes["kinds"] = "os, os-map, os-map-map, os-chain, os-filter, os-filternot (negated matcher: hidden under every spelling), os-pfxmap / os-pfxmaprw (the raw path as the prefix of a view nested in another view), and the same on memory; untar/unzip strip 0..2 into os and mem-map; bufcas.NewFileNode"
    return vlib.finish(ctx, rule="every raw path over 7 component symbols up to the length bound (TLC-enumerated, expectation computed by PathEscape.tla) x 7 operations x 16 bucket kinds (incl. the raw path used as the untrusted prefix of a nested view, and a negated filter) on a universe with sentinels outside every root; distinct = raw paths")

"""C17 — each file is generated exactly once and plugin output stays in its directory.
Specs: specs/image/CodeGenRequests.tla, specs/image/CodeGenResponses.tla."""
import vlib


def run(ctx):
    r1 = ctx.tlc_must_hold("image", "CodeGenRequests", "CodeGenRequests.cfg", emit_tags=("CASE",),
                           constants={"MaxImports": 1 if ctx.quick else 2, "Emit": "TRUE"}, timeout=20000, heap="16g")
    reqs = r1["emit"]["CASE"]
    r2 = ctx.tlc_must_hold("image", "CodeGenResponses", "CodeGenResponses.cfg", emit_tags=("CASE",), constants={"Emit": "TRUE"}, timeout=20000, heap="8g")
    resps = r2["emit"]["CASE"]
    if len(reqs) != r1["distinct"] or len(resps) != r2["distinct"]:
        raise vlib.Infra("emission incomplete")
    ctx.exhaustive = True
    n1 = ctx.vh("codegen-requests", {"cases": reqs[:3000], "corrupt": True})
    n2 = ctx.vh("codegen-responses", {"cases": resps, "corrupt": True})
    if not n1["violations"] or not n2["violations"]:
        raise vlib.Infra("negative control failed")
    ctx.add_result(ctx.vh("codegen-requests", {"cases": reqs}, timeout=20000))
    ctx.add_result(ctx.vh("codegen-responses", {"cases": resps}, timeout=20000))
    ctx.assumptions += [
        "requests: four files in three directories plus one well-known type, acyclic import graphs with <= 1 (2) imports per file; plugin configuration reduced to strategy x include_imports x include_wkt (type filters are C12, managed mode C18)",
        "responses: two plugins, three spellings of output directories incl. a nested one, seven file-name spellings incl. escaping and absolute ones, insertion points; executed with the real ValidatePluginResponses and bufprotopluginos.ResponseWriter on a scratch tree with sentinels",
    ]
    return vlib.finish(ctx, rule="every (import graph, target set, include_imports, include_wkt, strategy) of CodeGenRequests.tla compared request by request (file_to_generate, proto_file order), source-retention stripping on a fixed scenario; every (out, files) x (out, file) pair of CodeGenResponses.tla executed on disk: rejection class, nothing written on rejection, written set, sentinels; distinct = cases")

"""C17 — each file is generated exactly once and plugin output stays in its directory.
Specs: specs/image/CodeGenRequests.tla, specs/image/CodeGenResponses.tla."""
import vlib


def run(ctx):
    r1 = ctx.tlc_must_hold("image", "CodeGenRequests", "CodeGenRequests.cfg", emit_tags=("CASE",),
                           constants={"MaxImports": 1 if ctx.quick else 2, "Emit": "TRUE"}, timeout=20000, heap="16g")
    reqs = r1["emit"]["CASE"]
    r2 = ctx.tlc_must_hold("image", "CodeGenResponses", "CodeGenResponses.cfg", emit_tags=("CASE",), constants={"Emit": "TRUE"}, timeout=20000, heap="8g")
    resps = r2["emit"]["CASE"]
    if len(reqs) != r1["distinct"] or len(resps) != r2["distinct"]:
        raise vlib.Infra("emission incomplete")
    ctx.exhaustive = True
    n1 = ctx.vh("codegen-requests", {"cases": reqs[:3000], "corrupt": True})
    n2 = ctx.vh("codegen-responses", {"cases": resps, "corrupt": True})
    if not n1["violations"] or not n2["violations"]:
        raise vlib.Infra("negative control failed")
    ctx.add_result(ctx.vh("codegen-requests", {"cases": reqs}, timeout=20000))
    ctx.add_result(ctx.vh("codegen-responses", {"cases": resps}, timeout=20000))
    # end-to-end: a seeded sample of the request cases through `buf generate` with the harness binary as recording plugin
    import random
    rnd = random.Random(ctx.seed)
    sample = list(reqs)
    rnd.shuffle(sample)
    sample = sample[:400 if ctx.quick else 4000]
    buf = ctx.build_buf()
    n3 = ctx.vh("codegen-cli", {"buf": buf, "exe": ctx.harness(), "cases": sample[:20], "corrupt": True})
    if not n3["violations"]:
        raise vlib.Infra("negative control of the end-to-end stage failed")
    ctx.add_result(ctx.vh("codegen-cli", {"buf": buf, "exe": ctx.harness(), "cases": sample}, timeout=20000), kind="cli")
    rsample = [c for c in resps if not c["samePluginDuplicate"]]
    rnd.shuffle(rsample)
    rsample = rsample[:400 if ctx.quick else 4000]
    n4 = ctx.vh("codegen-cli-responses", {"buf": buf, "exe": ctx.harness(), "cases": rsample, "corrupt": True})
    if not n4["violations"]:
        raise vlib.Infra("negative control of the end-to-end response stage failed")
    ctx.add_result(ctx.vh("codegen-cli-responses", {"buf": buf, "exe": ctx.harness(), "cases": rsample}, timeout=20000), kind="cli-responses")
    ctx.assumptions += [
        "end-to-end responses: 400 (4000) seeded response cases through buf generate with two scripted plugins (the harness binary answering with the files of the case): failure class, nothing written on failure, written set, sentinels outside the working directory",
        "end-to-end: 400 (4000) seeded request cases run through the buf binary (buf generate, --path for the targets, one local plugin = the harness binary that records each CodeGeneratorRequest and returns one file per file to generate); the multiset of requests and the files created on disk are compared",
        "requests: four files in three directories plus one well-known type, acyclic import graphs with <= 1 (2) imports per file; plugin configuration reduced to strategy x include_imports x include_wkt (type filters are C12, managed mode C18)",
        "responses: two plugins, three spellings of output directories incl. a nested one, seven file-name spellings incl. escaping and absolute ones, insertion points; executed with the real ValidatePluginResponses and bufprotopluginos.ResponseWriter on a scratch tree with sentinels",
    ]
    return vlib.finish(ctx, rule="every (import graph, target set, include_imports, include_wkt, strategy) of CodeGenRequests.tla compared request by request (file_to_generate, proto_file order), source-retention stripping on a fixed scenario; every (out, files) x (out, file) pair of CodeGenResponses.tla executed on disk: rejection class, nothing written on rejection, written set, sentinels; a seeded sample of the request cases end to end through buf generate with a recording plugin (requests received, files on disk); distinct = cases")

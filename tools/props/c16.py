"""C16 — configuration files round-trip and migration to v2 preserves behaviour.
Specs: specs/config/BufYAML.tla, Samples.tla, Migrate.tla, Lock.tla."""
import vlib


def run(ctx):
    r1 = ctx.tlc_must_hold("config", "BufYAML", "BufYAML.cfg", emit_tags=("CASE",), constants={"Emit": "TRUE"}, timeout=6000, heap="8g")
    r2 = ctx.tlc_must_hold("config", "Samples", "Samples.cfg", emit_tags=("CASE",), constants={"MaxFeatures": 2 if ctx.quick else 3, "Emit": "TRUE"}, timeout=6000, heap="8g")
    r3 = ctx.tlc_must_hold("config", "Migrate", "Migrate.cfg", emit_tags=("CASE",), constants={"Emit": "TRUE"}, timeout=6000, heap="8g")
    r4 = ctx.tlc_must_hold("config", "Lock", "Lock.cfg", emit_tags=("CASE",), constants={"MaxDeps": 2 if ctx.quick else 3, "Emit": "TRUE"}, timeout=6000, heap="8g")
    locks = r4["emit"]["CASE"]
    if len(locks) != r4["distinct"]:
        raise vlib.Infra("emission incomplete (Lock)")
    y, s, m = r1["emit"]["CASE"], r2["emit"]["CASE"], r3["emit"]["CASE"]
    if not y or len(s) != r2["distinct"] or len(m) != r3["distinct"]:
        raise vlib.Infra("emission incomplete")
    ctx.exhaustive = True
    for c in y:
        c["modules"] = [c["modules"][k] for k in sorted(c["modules"])] if isinstance(c["modules"], dict) else c["modules"]
    samples = [{"kind": c["kind"].replace("_", "-"), "features": sorted(c["features"])} for c in s]
    negs = [ctx.vh("config-bufyaml", {"cases": y, "corrupt": True}), ctx.vh("config-samples", {"cases": samples[:5], "corrupt": True}),
            ctx.vh("config-migrate", {"cases": m[:1], "corrupt": True}), ctx.vh("config-lock", {"cases": locks, "corrupt": True})]
    if not all(n["violations"] for n in negs):
        raise vlib.Infra("negative control failed")
    ctx.add_result(ctx.vh("config-bufyaml", {"cases": y}, timeout=6000))
    ctx.add_result(ctx.vh("config-samples", {"cases": samples}, timeout=6000))
    ctx.add_result(ctx.vh("config-migrate", {"cases": m}, timeout=6000))
    ctx.add_result(ctx.vh("config-lock", {"cases": locks}, timeout=6000))
    ctx.assumptions += [
        "buf.yaml v2 documents are enumerated from module shapes and section shapes (not arbitrary YAML); buf.gen.yaml / buf.work.yaml documents are feature combinations of a fixed grammar; buf.lock documents are version x <= 2 (3) dependency entries (3 names whose string order differs from their component order, commit present or missing, digest b4 / b5 / deprecated / missing) x plugin section shapes x legacy keys x digest resolver",
        "the oracle of a round trip is the reader itself (first read vs re-read) plus, for buf.yaml, the effective configuration computed by the specification",
        "migration is judged by observable behaviour (files built, lint annotations, configured breaking rules) before and after",
    ]
    return vlib.finish(ctx, rule="every v2 buf.yaml of BufYAML.tla (module directories incl. '.' and overlapping ones, names, includes/excludes, per-module and top-level lint/breaking shapes incl. switched-off and ignore_only into the second module): reader = Effective, read-write-read, idempotent write; every feature combination (<=2/<=3) of buf.gen.yaml v1/v2 and buf.work.yaml: read-write-read on all accessors, idempotent write; every v1/v1beta1 workspace of Migrate.tla: behaviour before = after; every buf.lock document of Lock.tla: refused or read to exactly the pins of the specification in name order, write-read-write fixed point, legacy keys dropped, constructor agrees; distinct = documents / workspaces")

"""C02 — outputs are deterministic and independent of scheduling and enumeration order.
Specs: specs/thread/Parallelize.tla (MCParallelize), specs/thread/ParallelizeTrace.tla."""
import json, random
import vlib


def envs(ctx):
    rnd = random.Random(ctx.seed)
    out = []
    pols = ["free", "fifo", "lifo", "rand"]
    ps = [2, 16] if ctx.quick else [1, 2, 3, 16]
    for p in ps:
        for pol in pols:
            out.append(dict(parallelism=p, gomaxprocs=16, policy=pol, walk_seed=rnd.randrange(1, 10**6), arg_seed=rnd.randrange(1, 10**6), rep=0))
    # enumeration order only / argument order only / repetition only (map iteration order)
    for i in range(3 if ctx.quick else 8):
        out.append(dict(parallelism=1, gomaxprocs=16, policy="free", walk_seed=rnd.randrange(1, 10**6), arg_seed=0, rep=i))
        out.append(dict(parallelism=1, gomaxprocs=16, policy="free", walk_seed=0, arg_seed=rnd.randrange(1, 10**6), rep=i))
        out.append(dict(parallelism=16, gomaxprocs=16, policy="free", walk_seed=0, arg_seed=0, rep=i))
    out.append(dict(parallelism=16, gomaxprocs=1, policy="free", walk_seed=0, arg_seed=0, rep=0))
    out.append(dict(parallelism=16, gomaxprocs=2, policy="rand", walk_seed=0, arg_seed=0, rep=0))
    return out


def validate(ctx, traces, what):
    lines = [json.dumps(e) for t in traces for e in t]
    if not lines:
        raise vlib.Infra("no Parallelize trace recorded for " + what)
    ok, info = ctx.trace_validate("thread", "ParallelizeTrace", "ParallelizeTrace.cfg", lines)
    vlib.log("trace validation (%s): %d calls, %d events, accepted=%s" % (what, len(traces), len(lines), ok))
    if not ok:
        # find the first rejected call by validating call after call (bisection keeps it cheap)
        lo, hi = 0, len(traces)
        while hi - lo > 1:
            mid = (lo + hi) // 2
            ok2, _ = ctx.trace_validate("thread", "ParallelizeTrace", "ParallelizeTrace.cfg",
                                        [json.dumps(e) for t in traces[lo:mid] for e in t])
            if ok2:
                lo = mid
            else:
                hi = mid
        bad = traces[lo]
        ctx.violation("trace-rejected/parallelize/%s" % what,
                      "a recorded call of thread.Parallelize is not a behaviour of Parallelize.tla (%s)" % info.get("violated_invariants"),
                      {"trace": bad})
    return ok


def run(ctx):
    cfg = "Parallelize.cfg" if ctx.quick else "Parallelize_thorough.cfg"
    ctx.tlc_must_hold("thread", "MCParallelize", cfg, timeout=3000, heap="12g")
    ctx.exhaustive = True
    # direct driver + trace validation
    neg = ctx.vh("sched-driver", {"iterations": 3, "sabotage": True})
    if not neg["violations"]:
        raise vlib.Infra("negative control of the driver failed")
    out = ctx.vh("sched-driver", {"iterations": 300 if ctx.quick else 3000})
    traces = out["extra"].pop("traces")
    ctx.add_result(out)
    # negative control of trace validation: drop one finish event
    bad = [json.dumps(e) for t in traces[:20] for e in t]
    idx = next(i for i, l in enumerate(bad) if '"finish"' in l)
    ok, _ = ctx.trace_validate("thread", "ParallelizeTrace", "ParallelizeTrace.cfg", bad[:idx] + bad[idx + 1:])
    if ok:
        raise vlib.Infra("negative control failed: a trace with a missing finish event was accepted")
    validate(ctx, traces, "driver")
    # end-to-end determinism
    neg = ctx.vh("sched-determinism", {"envs": envs(ctx)[:6], "sabotage": True})
    if not neg["violations"]:
        raise vlib.Infra("negative control of the determinism oracle failed")
    out = ctx.vh("sched-determinism", {"envs": envs(ctx)}, timeout=6000)
    traces = out["extra"].pop("traces")
    ctx.add_result(out)
    if traces:
        validate(ctx, traces, "operations")
    ctx.assumptions += [
        "goroutines that are not started by thread.Parallelize (inside protocompile) are not steered, only exposed to GOMAXPROCS 1/2/16 and repetition",
        "one dispatch event may be logged after the cancellation it raced with (the hook fires after the context check)",
    ]
    return vlib.finish(ctx, rule="Parallelize.tla exhaustively (all interleavings for n<=4(5), cap<=3(6), failures, cancel-on-failure, external cancel); every recorded call of the real thread.Parallelize (random driver and inside end-to-end operations, under fifo/lifo/random/free completion orders) validated against it; 11 end-to-end operations x environments (parallelism, schedule policy, storage walk permutation, argument permutation, repetition) compared byte-wise with the canonical run; distinct = (operation, environment) pairs + driver parameter shapes")

"""C19 — credentials are only sent to the registry they were configured for.  Spec: specs/auth/Auth.tla."""
import vlib


def run(ctx):
    maxlen = 5 if ctx.quick else 6
    res = ctx.tlc_must_hold("auth", "Auth", "Auth.cfg", emit_tags=("CASE", "NETRC"), constants={"MaxLen": maxlen, "Emit": "TRUE"},
                            timeout=6000, heap="12g")
    cases, netrcs = res["emit"]["CASE"], res["emit"]["NETRC"]
    if len(cases) != sum(7 ** k for k in range(0, maxlen + 1)) or len(netrcs) != 1:
        raise vlib.Infra("emission incomplete: %d cases, %d netrc tables" % (len(cases), len(netrcs)))
    ctx.exhaustive = True
    netrcs = netrcs[0]
    neg = ctx.vh("auth-replay", {"cases": cases, "netrcs": netrcs, "corrupt": True})
    if not neg["violations"]:
        raise vlib.Infra("negative control failed")
    out = ctx.vh("auth-replay", {"cases": cases, "netrcs": netrcs}, timeout=6000)
    ctx.add_result(out)
    ctx.assumptions += [
        "token strings over {t, u, @, ',', ':', host1, host2} up to %d symbols (exhaustive); a host name is one symbol" % maxlen,
        "the registry is replaced by a recording transport under a real connect client; everything above it (BUF_TOKEN parsing, .netrc file and provider, interceptor provider, connectclient.Make, bufcli.NewConnectClientConfig) is the real code",
        "a well-formed token that the code rejects is not an alarm (the property is about leaks and partial application)",
    ]
    return vlib.finish(ctx, rule="every BUF_TOKEN symbol string up to the bound (parse result and per-host token computed by Auth.tla) x .netrc configurations (rotating, all 9 for every 40th string) x 7 request hosts incl. suffix/prefix look-alikes and two that differ from a configured host only by the port, asked in rotating orders on one configuration; plus concurrent client construction for two registries; distinct = token strings")

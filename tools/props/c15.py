"""C15 — write failures are always reported and atomic puts are all-or-nothing.
Spec: specs/storage/StorageFaults.tla."""
import json
from concurrent.futures import ThreadPoolExecutor
import vlib


ERR_KINDS = '{"plain", "notexist", "exist", "permission", "eof", "unexpected-eof", "canceled", "deadline", "closed"}'


def run(ctx):
    files_opts = ["{1}", "{1, 2}"] if ctx.quick else ["{1}", "{1, 2}", "{1, 2, 3}"]
    chunks_opts = [1, 2]
    configs = []
    for kind, atomic in (("mem", "FALSE"), ("mem", "TRUE"), ("os", "FALSE")):
        for mode in ("all", "seq"):
            for files in files_opts:
                for nch in chunks_opts:
                    configs.append(dict(Files=files, NChunks=nch, MaxFaults=2, Atomic=atomic, Kind='"%s"' % kind,
                                        Mode='"%s"' % mode, MaxKills=0, ErrKinds=ERR_KINDS, Emit="TRUE"))
    # design-level check of the disk atomic writer incl. kill points (no emission: the oracle of the
    # atomic stage is the invariant AtomicVisible itself)
    design = [dict(Files="{1, 2}", NChunks=2, MaxFaults=2, Atomic="TRUE", Kind='"os"', Mode='"%s"' % m, MaxKills=1, ErrKinds=ERR_KINDS, Emit="FALSE")
              for m in ("all", "seq")]

    def one(c):
        return ctx.tlc_must_hold("storage", "StorageFaults", "StorageFaults.cfg", constants=c, workers=2,
                                 emit_tags=("CASE",) if c["Emit"] == "TRUE" else (), timeout=3000, heap="3g")
    with ThreadPoolExecutor(max_workers=6) as ex:
        results = list(ex.map(one, configs + design))
    cases = {}
    for r in results:
        for c in r["emit"].get("CASE", []):
            c["errKinds"] = sorted(c["errKinds"])
            key = json.dumps([c["mode"], c["kind"], c["atomic"], c["nchunks"], c["init"], sorted(map(str, c["plan"]))])
            out = json.dumps([c["ret"], c["dest"], c["count"]])
            if key in cases and cases[key][0] != out:
                raise vlib.Infra("specification is not confluent: plan %s has outcomes %s and %s" % (key, cases[key][0], out))
            cases[key] = (out, c)
    caselist = [v[1] for v in cases.values()]
    vlib.log("TLC: %d runs, %d distinct (plan -> outcome) cases" % (len(results), len(caselist)))
    ctx.exhaustive = True
    neg = ctx.vh("faults-replay", {"cases": caselist, "corrupt": True})
    if not neg["violations"]:
        raise vlib.Infra("negative control failed: a corrupted expectation was not detected")
    out = ctx.vh("faults-replay", {"cases": caselist}, timeout=6000)
    ctx.add_result(out)
    ctx.notes["model_divergences_not_forbidden_by_property"] = out.get("extra", {}).get("model_divergences_not_forbidden_by_property")
    ctx.notes["plans_not_applicable_to_operation"] = out.get("extra", {}).get("plans_not_applicable_to_operation")
    # the operations built on thread.Parallelize once more with a parallelism of 1 (jobs one after the other)
    allmode = [c for c in caselist if c["mode"] == "all"]
    ctx.add_result(ctx.vh("faults-replay", {"cases": allmode, "parallelism": 1}, timeout=6000), kind="parallelism-1")
    out = ctx.vh("faults-atomic", {"exe": ctx.harness()}, timeout=3000)
    ctx.add_result(out)
    ctx.assumptions += [
        "faults above the bucket are injected by a wrapper WriteBucket keyed by (object, step, occurrence); a failing Write passes half of its data on (short write with error)",
        "disk atomicity is observed on the real storageos writer: verif hooks at temp-closed/renamed/abort, real rename failures (temp removed; directory at the target), real EFBIG write failures under RLIMIT_FSIZE and real SIGKILL in child processes",
        "a source read failure is not a write failure and is outside the property",
    ]
    return vlib.finish(ctx, rule="every terminal state of StorageFaults.tla (fault plan -> outcome; <=2 faults over put/write/close of <=3 objects x 1-2 chunks, modes all/seq, destinations memory and disk) replayed on Copy, CopyPath, CopyReader, CopyReadObject, PutPath, Untar, Unzip, PutFileSetToBucket, WriteResponse; plus every primitive step / kill point / real fault of the disk atomic writer; distinct = (operation, plan, initial content) triples")

"""C20 — exit status and every diagnostic format tell the same verdict.  Spec: specs/cli/Verdict.tla."""
import vlib


def run(ctx):
    res = ctx.tlc_must_hold("cli", "Verdict", "Verdict.cfg", emit_tags=("CASE",), constants={"Emit": "TRUE", "MaxProblems": 4 if ctx.tier == "thorough" else 2}, timeout=3000, heap="4g")
    cases = res["emit"]["CASE"]
    if len(cases) != res["distinct"]:
        raise vlib.Infra("emission incomplete")
    ctx.exhaustive = True
    buf = ctx.build_buf()
    neg = ctx.vh("cli-verdict", {"buf": buf, "cases": cases, "corrupt": True})
    if not neg["violations"]:
        raise vlib.Infra("negative control failed")
    out = ctx.vh("cli-verdict", {"buf": buf, "cases": cases}, timeout=6000)
    ctx.add_result(out)
    ctx.assumptions += [
        "the buf binary is built from the tree under test (tag verif) and run as a process; scenarios are workspaces with planted problems, not arbitrary inputs",
        "line-oriented formats (text, msvs, github-actions) are not parsed back for the path that contains a newline; json and junit must stay well-formed there",
    ]
    return vlib.finish(ctx, rule="every scenario of Verdict.tla: command (build, lint, breaking, format --exit-code) x <=2 planted problems (compile error, missing import, lint violations incl. a multi-line range, breaking change, deleted file, format difference) x operational error (bad flag, missing input, bad config) x input spelling (., absolute, ./, proto file with package files) x hostile path; each run with all 5 error formats: exit class, well-formedness, same annotations in the same order with agreeing fields; distinct = scenarios")

#!/usr/bin/env python3
"""Regenerates MANIFEST.json from the table below (single source of truth for what is claimed)."""
import json, os
HERE = os.path.dirname(os.path.dirname(os.path.abspath(__file__)))

BASELINE_OFF = ("cd /repo && GOFLAGS=-mod=mod GOPROXY=off GOSUMDB=off GOTOOLCHAIN=local "
                "go test -json -vet=off -count=1 -timeout 25m ./...")

CHECKS = {
 "C13": dict(engine="storage", technique="TLC-enumerated path algebra (PathEscape.tla) replayed on real buckets with sentinels",
   text="TLC checks the containment lemma (lexically valid => under the root, for every root shape), the frame property and archive-name containment for every raw path over a 7-symbol component alphabet up to the bound, and emits the expected verdict (reject / act at Root∘Clean(raw)) per path and operation; every emitted case is replayed on 10 real bucket kinds (disk, memory, prefix-mapped, chained, filtered) plus untar/unzip and bufcas.NewFileNode inside a universe with sentinel objects outside every root, and the whole universe is compared before/after.",
   note="Bounded: paths up to 4 (quick) / 6 (thorough) components; symlink-following buckets and the Windows variant are out of scope; the expected verdict is the spec's, the observed effect is the real code's.",
   ref="4/C13"),
}

NOT_APPLICABLE = {}

def main():
    props = [json.loads(l) for l in open(os.path.join(HERE, "properties.jsonl"))]
    checks = []
    for p in props:
        c = CHECKS.get(p["id"])
        if not c:
            continue
        checks.append({
            "property_id": p["id"],
            "quick_cmd": "./check %s --tier quick" % p["id"],
            "thorough_cmd": "./check %s --tier thorough" % p["id"],
            "evidence_file": "/verif/evidence/%s.json" % p["id"],
            "replay_cmd_template": "./check %s --replay {path}" % p["id"],
            "engine": c["engine"],
            "level_claimed": {"category": "model_checking", "text": c["text"], "design_ref": "DESIGN.md section " + c["ref"]},
            "level_note": c["note"],
            "technique": c["technique"],
        })
    na = []
    for p in props:
        if p["id"] not in CHECKS:
            na.append({"property_id": p["id"], "reason": NOT_APPLICABLE.get(p["id"], "check not built yet in this round (planned, see DESIGN.md section 8); not claimed")})
    engines = {}
    for pid, c in CHECKS.items():
        engines.setdefault(c["engine"], []).append(pid)
    man = {
        "version": 1,
        "setup_cmd": "./check --setup",
        "hooks": {
            "guard": "verif",
            "enable": "go build -tags verif (the harness module replaces github.com/bufbuild/buf with /repo)",
            "baseline_off_cmd": BASELINE_OFF,
            "source_commits": ["8514446"],
            "add_only": True,
        },
        "engines": [{"name": k, "path": "specs/%s" % k, "serves_properties": sorted(v),
                     "kind_free_text": "TLA+ specification checked with TLC; cases/behaviours replayed into, and traces validated against, the real Go code through harness/"} for k, v in sorted(engines.items())],
        "checks": checks,
        "not_applicable": na,
        "notes": "All checks: ./check <id> --tier quick|thorough; exit 0/1/2; VIOLATION and KNOWN-FINDING lines on stdout; evidence/<id>.json rewritten on every run. Known findings: known_findings.json.",
    }
    json.dump(man, open(os.path.join(HERE, "MANIFEST.json"), "w"), indent=1)
    print("MANIFEST.json: %d checks, %d not claimed" % (len(checks), len(na)))

if __name__ == "__main__":
    main()

#!/usr/bin/env python3
"""Regenerates MANIFEST.json from the table below (single source of truth for what is claimed)."""
import json, os
HERE = os.path.dirname(os.path.dirname(os.path.abspath(__file__)))

BASELINE_OFF = ("cd /repo && GOFLAGS=-mod=mod GOPROXY=off GOSUMDB=off GOTOOLCHAIN=local "
                "go test -json -vet=off -count=1 -timeout 25m ./...")

CHECKS = {
 "C13": dict(engine="storage", technique="TLC-enumerated path algebra (PathEscape.tla) replayed on real buckets with sentinels",
   text="TLC checks the containment lemma (lexically valid => under the root, for every root shape), the frame property and archive-name containment for every raw path over a 7-symbol component alphabet up to the bound, and emits the expected verdict (reject / act at Root∘Clean(raw)) per path and operation; every emitted case is replayed on 10 real bucket kinds (disk, memory, prefix-mapped, chained, filtered) plus untar/unzip and bufcas.NewFileNode inside a universe with sentinel objects outside every root, and the whole universe is compared before/after.",
   note="Bounded: paths up to 4 (quick) / 6 (thorough) components; symlink-following buckets and the Windows variant are out of scope; the expected verdict is the spec's, the observed effect is the real code's.",
   ref="4/C13"),
 "C14": dict(engine="storage", technique="TLC state graph of Storage.tla (views as combinator trees, Sem) with every state and every transition replayed on real buckets",
   text="TLC explores every reachable content of two base buckets under put/delete/delete-all/copy (direct and through mapped views), checks the combinator laws (map/unmap inverse, chained = nested, path-wise walk, union reports / overlay hides, strip is identity, equivalent spellings clean to the same path) and emits, per state, the expected answer of every get/stat/walk on 19 views and, per transition, the expected result and post-state; the harness materialises every state on memory and disk buckets, builds the views from the real combinators and compares every answer in every spelling, plus Copy / tar / zip round trips and AllPaths.",
   note="Bounded path universe (5 paths chosen to separate path-wise from string-wise prefixes), 2-3 contents incl. empty and 70 kB; each transition starts from a materialised pre-state.",
   ref="4/C14"),
 "C15": dict(engine="storage", technique="TLC-enumerated fault plans of StorageFaults.tla replayed with a fault-injecting bucket; disk atomic writer observed at hooks, with real rename/EFBIG failures and SIGKILL",
   text="TLC explores every interleaving of per-object Put/Write/Close jobs with up to 2 injected step failures (and a kill for disk atomic puts), checks ErrorTransparency, FaultReported, Count, AtomicVisible, FailedAtomicLeavesNothing and termination, and emits each terminal (fault plan -> outcome); every plan is replayed on Copy, CopyPath, CopyReader, CopyReadObject, PutPath, Untar, Unzip, PutFileSetToBucket and WriteResponse through a fault-injecting WriteBucket over memory and disk; the real storageos atomic writer is observed at every primitive step through the verif hooks, with real rename failures, real write failures under RLIMIT_FSIZE and real SIGKILLs at every kill point in child processes (directly, through a prefix-mapped view and through LimitWriteBucket).",
   note="Faults above the bucket are injected by a wrapper; only what the property states is an alarm (success with missing/truncated output, unreported fault, over-count, torn or leftover atomic object); other model/code differences are listed as divergences in the evidence.",
   ref="4/C15"),
 "C02": dict(engine="thread", technique="TLC on Parallelize.tla; traces of the real thread.Parallelize validated by ParallelizeTrace.tla; hook-gated schedules and perturbed environments on end-to-end operations",
   text="TLC checks every interleaving of dispatcher and job steps of Parallelize.tla (semaphore bound, every job error recorded exactly once, skipped jobs explained by a context error, nil iff clean, termination) for all parameter combinations; the verif hooks in thread.Parallelize record every call made by a randomised driver and by 11 end-to-end operations (build+marshal, lint, breaking, format, copy, code-generator requests, dependency graph, digests, module order, type filter, ls-files) and TLC validates each recorded call against the specification; the same hooks gate job completion (fifo / lifo / seeded random) while parallelism, GOMAXPROCS, storage walk order and argument order are permuted and runs repeated, and every output must be byte-identical to the canonical run.",
   note="Goroutines not created by thread.Parallelize (inside protocompile) are not steered; environments are sampled (seeded), interleavings of the model are exhaustive within n<=5 jobs.",
   ref="4/C02"),
 "C09": dict(engine="cache", technique="TLC state graph of ModuleCache.tla covered by transition tours that are replayed on real ModuleDataStore instances with gated storage and lock operations, faults, crashes and tampering",
   text="TLC explores every interleaving of 2-3 processes storing/loading one cache entry (dir and tar layouts) with write faults, process crashes between any two storage/lock operations and single-file tampering, and checks NoFalseComplete, Repair, LockSafety, NoWriteAfterComplete and absence of stuck states; every transition is covered by a tour that is executed on real stores: each process is a goroutine with a real ModuleDataStore over a gating wrapper of one real disk bucket and a gating Locker; the name of every operation the store issues, the classified cache directory after every step, and the results of PutModuleDatas, GetModuleDatasForModuleKeys and of the lazy content access are compared with the specification.",
   note="One entry, files copied sequentially (parallelism 1); locks are an in-process table (the flock implementation itself is not part of the replay); faults at Put/Write of files and Put of the marker (failures inside the disk atomic writer: C15).",
   ref="4/C09"),
 "C08": dict(engine="digest", technique="TLC on Digest.tla (hash as a free term algebra) with digest terms evaluated by an independent SHAKE256 and compared with Module.Digest on five backends",
   text="TLC explores base file sets closed under perturbations (any of 14 paths incl. spaces, unicode, look-alike directories, doc/license variants and non-module files; module name; targeting; dependency and transitive dependency content; vendored well-known-type dependency) and checks Sensitive (digest changes iff module files or dependency digests change), Frame and NonModuleIrrelevant as action properties over an injective uninterpreted hash; each state carries the b5 digest and the canonical manifest as terms mirroring the published construction; the harness evaluates them with x/crypto/sha3 and compares with Module.Digest on memory, disk, tar round trip, shuffled walk and prefix-mapped buckets in both argument orders, and checks Manifest.String / ParseManifest round trip.",
   note="The hash function itself is uninterpreted; dependencies are local modules resolved through imports; perturbation depth 1 (quick) / 2 (thorough).",
   ref="4/C08"),
 "C12": dict(engine="image", technique="TLC on TypeFilter.tla (Keep as least fixpoint over a fixed tangled schema, every small filter) replayed on bufimageutil.FilterImage with structural oracles",
   text="TLC enumerates every filter with up to 2 (3) names over 27 names (messages incl. nested, enums, a map, a oneof, an extension, custom options with message and Any values used from two files, a service, packages, a file without types), checks Closed, NoExcluded, Minimal, Idempotent and NoConflictWithoutInclude for the intended semantics and emits the surviving elements, surviving fields and needed imports; FilterImage is run in copy and in-place mode with custom options on/off and the result is checked for error class, linking (protodesc.NewFiles), element and field sets, unchanged fields, comment attachment, declared imports and idempotence.",
   note="One fixed schema: the filter space is enumerated, not the schema space; known-extension retention is off; contradictory filters (include of something excluded) may error or reduce quietly.",
   ref="4/C12"),
 "C18": dict(engine="image", technique="TLC on Managed.tla (transcribed decision procedure, every small configuration) replayed through the v2 buf.gen.yaml reader and the constructors with a whole-image oracle",
   text="TLC enumerates every managed configuration with up to 2 (3) ordered disable rules from a pool of 9 and up to 2 (3) ordered override rules from a pool of 13, enabled or not, checks OffMeansUntouched, WktUntouched, DisabledUntouched, PathWise, LastWins and JsOnlyWide, and emits the decision (keep / set to a value term) for 12 file options x 4 files and js_type x 6 fields plus the exact set of source locations to sweep; Modify is applied to a clone of a real image with source info and must be proto-equal, file by file, to the clone on which exactly those decisions were applied.",
   note="One fixed image (two modules, pre-set options, custom field options with nested paths, a well-known-type import); option value functions are uninterpreted terms rendered by the harness.",
   ref="4/C18"),
 "C19": dict(engine="auth", technique="TLC on Auth.tla (transcribed BUF_TOKEN parser, .netrc lookup, first-source-wins) with every token string replayed through bufcli config, connectclient.Make and a recording transport",
   text="TLC enumerates every BUF_TOKEN symbol string up to 5 (6) symbols over {t,u,@,',',':',host1,host2}, checks NoLeak, NetrcNoLeak, EnvFirst and TokenClean and emits the parse class and the per-host token; every string is given to the real bufcli.NewConnectClientConfig with a real .netrc file, clients are made with connectclient.Make for five hosts (two configured, one foreign, a suffix and a prefix look-alike) in rotating orders on one configuration, and the Authorization header that reaches the transport of a real connect client is compared; clients for two registries are also made concurrently from one configuration.",
   note="The registry is a recording RoundTripper, not a network peer; a well-formed token that the code rejects is not an alarm.",
   ref="4/C19"),
 "C01": dict(engine="image", technique="TLC on ImageGraph.tla (transcribed target decision and post-order DFS, every small workspace) replayed on BuildImage with an ordered oracle and independent compilation",
   text="TLC enumerates ordered import lists over five files in two modules, the unused import, target modules, --path/--exclude-path selections (incl. a look-alike directory), a workspace-supplied well-known type, a file without syntax and single planted compile errors, checks EachOnce, Closed, Topological, Flags, WktBuiltinUnlessSupplied and ExcludeIsPathWise for the transcribed algorithm, and emits the expected ordered image; every workspace is materialised on disk, built with BuildImage and compared element-wise in order (path, import flag, module, commit, unused-dependency indexes, syntax flag); every descriptor incl. source info is compared with an independent protocompile compilation; planted errors must come back as annotations at the planted file:line under the external path.",
   note="Five fixed paths; at most two selection dimensions deviate from the default at once; path options are applied through LocalModuleWithTargetPaths (API semantics); the compiler is uninterpreted.",
   ref="4/C01"),
 "C06": dict(engine="check", technique="TLC on RulesConfig.tla over rule tables generated from the code, replayed on Client.Lint/Breaking/ConfiguredRules against measured per-rule results",
   text="The rule IDs, categories, default bits and deprecations of every config version are dumped from the tree under test into RuleTables.tla; TLC enumerates configurations (use, except, ignore, ignore_only incl. a deprecated key plus one of its replacements, comment ignores, exclude-imports) and checks category nesting, existence of replacements, that lint never reports import-only files and that a look-alike ignore path suppresses nothing, and emits the selected rule set and the suppressed (rule, file, commented, against-file) places; the harness measures what each rule reports alone on fixed images with planted violations (incl. a message that moves between files of one package) and requires the real result to equal the union over the selected rules minus exactly the suppressed places.",
   note="Alone(r) is measured, not specified; selection and suppression dimensions are explored against fixed representatives of each other; buf.yaml parsing is C16.",
   ref="4/C06"),
 "C10": dict(engine="image", technique="TLC on Workspace.tla (module-level reachability, precedence, error shapes) replayed on ModuleSetBuilder with an in-process provider",
   text="TLC enumerates file-level import choices between three modules (incl. cycles), module B local / remote / both, every ordered selection of 1..3 pinned commits of module C (whose file imports differently per commit), a path provided twice, an import nobody provides and a vendored well-known type, and checks DepsAreReachability, DirectSubset and NewestWins; the harness builds the module set with the real builder over an in-process ModuleDataProvider/CommitProvider and compares ModuleDeps of every module (set, direct flags, error class), ModuleSetToDAG edges and cycle reporting, the selected commit, local-over-remote precedence and that the ls-files closure equals the files of the built image.",
   note="Three module names and four files; coexisting error shapes accept any error; workspace discovery from buf.yaml/buf.work.yaml is not part of this check.",
   ref="4/C10"),
 "C17": dict(engine="image", technique="TLC on CodeGenRequests.tla / CodeGenResponses.tla replayed on ImageByDir, ImagesToCodeGeneratorRequests, ValidatePluginResponses and the on-disk ResponseWriter",
   text="Requests: TLC enumerates import graphs over four files in three directories plus a well-known type, target sets, include_imports/include_wkt and the strategy, checks ExactlyOnce and ClosedAndOrdered for the transcribed bookkeeping and emits every request; the real requests must match (file_to_generate and proto_file order, source_file_descriptors count) and source-retention options must be stripped from proto_file only. Responses: TLC enumerates two plugins with three spellings of output directories (incl. nested) and seven file-name spellings (incl. escaping and absolute) and insertion points, checks Contained and NothingOnFailure and emits rejection class and written set; the real ValidatePluginResponses + ResponseWriter run on a scratch tree with sentinels.",
   note="Plugin processes are not started (the responses are given); type filters and managed mode per plugin are C12 / C18.",
   ref="4/C17"),
 "C16": dict(engine="config", technique="TLC on BufYAML.tla (what a v2 document means after reading), Samples.tla and Migrate.tla; documents and workspaces replayed through the real readers, writers and the migrator",
   text="BufYAML.tla enumerates v2 buf.yaml documents (module directories incl. '.' and overlapping ones, names, includes/excludes, per-module and top-level lint/breaking shapes incl. switched-off checks and ignore_only entries pointing into the second module), checks that top-level paths stay in their module and reach later modules, and emits the effective configuration of every module; the real reader must produce exactly that, write-then-read must preserve every accessor and writing must be idempotent. Samples.tla enumerates feature combinations of buf.gen.yaml v1/v2 (all input kinds, managed sections, plugin options) and buf.work.yaml for the same round trip on all accessors. Migrate.tla enumerates v1/v1beta1 workspaces (single module or buf.work.yaml, per-module lint settings incl. both allow-Empty switches, ignore paths, breaking category); the real migrator runs and files built, lint annotations and configured breaking rules per module must be unchanged.",
   note="Documents come from shapes, not arbitrary YAML; buf.lock is not enumerated; the round-trip oracle is the reader itself plus, for buf.yaml, the specification's Effective.",
   ref="4/C16"),
 "C20": dict(engine="cli", technique="TLC on Verdict.tla (exit class and printing per scenario) with every scenario run through the real buf binary in all five error formats and the outputs parsed back and compared",
   text="TLC enumerates scenarios: command (build, lint, breaking, format --exit-code) x up to two planted problems (syntax error, malformed import caught by the import scanner, missing import, lint violations in two files, a lint range spanning lines whose end column is smaller than its start column, breaking change, deleted file, format difference) x operational error (unknown flag, missing input, unreadable configuration) x input spelling (., absolute, ./, file#include_package_files=true) x a directory whose name has a space, quotes, angle brackets, an ampersand, non-ASCII and a newline; it checks that the three exit classes partition the scenarios and emits the class and whether annotations are printed; the harness materialises every scenario, runs the buf binary built from the tree once per --error-format, compares the exit class, requires JSON lines and JUnit XML to be well-formed, and compares count, order, path, start (and, where carried, end) position, rule ID and message of every annotation across formats.",
   note="Workspaces come from planted shapes; annotation messages are those the planted problems produce (the hostile text is in the path); text/msvs/github-actions are not parsed back for the path that contains a newline. format's parse failure exits 1 (named deviation in the spec, pinned by a repository test).",
   ref="4/C20"),
 "C03": dict(engine="breaking", technique="TLC on Breaking.tla (schema versions as slot valuations, histories of edits, Expected(p, c) per documented rule) with every version pair replayed on bufcheck.Client.Breaking for 3 config versions x 4 categories and single-rule configs",
   text="Breaking.tla models a schema version as a valuation of 75 slots of a fixed five-file skeleton (field type / name / JSON name / cardinality / oneof membership / default / jstype, map value type, message- and enum-typed fields incl. a namesake enum with more values, deletions of fields and enum values with every reservation variant incl. an aliased number, reserved ranges and names, nested and top-level messages / enums / services / RPCs / oneofs / extensions / extension ranges, RPC request / response / streaming / idempotency, 16 tracked file options, file package and syntax, file deletion with and without the package surviving, a message moving between files of one package, additive slots, cosmetic styles); a history appends one edited version per step; TLC enumerates every history with up to 3 versions, every value pair of every slot and at most 1 (thorough: 2) non-additive edits, checks TypeOK, CompatibleExpectsNothing, ExpectedRulesExist, TablesNested and CategoryNesting on the specification, and emits for every (older, newer) pair the expected annotations (rule ID, names the message must carry, anchor element); the harness renders and compiles each version and requires each expected annotation, located at the anchor, under every configuration version x category whose documented table (BreakingTables.tla) contains the rule and under the single-rule configuration.",
   note="Expected is a lower bound per pair; schemas are versions of one skeleton (proto2 and proto3 files; editions features are not part of it); the category tables are a static transcription.",
   ref="4/C03"),
 "C04": dict(engine="breaking", technique="TLC on Breaking.tla (additive / cosmetic steps, chains, category ordering) with every version pair replayed on bufcheck.Client.Breaking for 3 config versions x 4 categories",
   text="Same specification and histories as C03. For every version compared with itself, and for every pair whose steps are all additive (new file, message, nested message, enum, enum value, field, oneof with new fields, reserved range, RPC, service) or cosmetic (comments everywhere, re-indentation, reordered top-level declarations), incl. chains compared against every earlier version, the real detector must report nothing under v1beta1 / v1 / v2 x FILE / PACKAGE / WIRE_JSON / WIRE; for every pair (also breaking ones, every value pair of every slot) clean(FILE) => clean(PACKAGE) => clean(WIRE_JSON) => clean(WIRE) must hold on the real results.",
   note="Compatible(p, c) is the specification's classification of slot transitions; it is never inferred from the code.",
   ref="4/C04"),
 "C05": dict(engine="lint", technique="TLC on Lint.tla (plantings into a clean-by-construction workspace, exact Expected incl. the transcribed RPC signature rules) with every workspace replayed on bufcheck.Client.Lint through the real buf.yaml reader for 3 config versions x every category",
   text="Lint.tla models a workspace as a valuation of 69 slots over a six-file skeleton that is clean by construction (wrong-case names of messages, nested messages, fields, nested fields, extensions incl. a nested one, oneofs, enums, nested enums, enum values, services, RPCs; zero value suffix and service suffix against the configured option; value prefix; missing / empty / trailing-only comments on every kind of declaration in // and /* */ style; unused, public and cyclic imports; a second file of the package in another directory, with another package, with differing or missing language options; a file without syntax, without package, with an unversioned / wrongly cased / misplaced package, with a camel-case file name; a required field, a first enum value that is not zero, allow_alias; streaming RPCs; the last file in path order; 8*P+7 files) and a signature block (request / response type of three RPCs x rpc_allow_* options) whose rules RPC_REQUEST_RESPONSE_UNIQUE and RPC_*_STANDARD_NAME are transcribed; TLC enumerates up to 2 plantings and the full product of the signature block (6.7k workspaces), checks TypeOK, CleanByConstruction, ExpectedRulesExist and BothAllowedEmptyIsFree, and emits the exact expected (rule, anchor) set; the harness renders each workspace with known line and column of every anchor, reads a generated buf.yaml (v1beta1, v1, v2 with top-level / module-level / options-only module-level lint section) with the real reader, lints, and requires the reported (rule, file, line, column) set to equal the expected one for every category and single-rule configuration.",
   note="One skeleton; no planting for PROTOVALIDATE, STABLE_PACKAGE_NO_IMPORT_UNSTABLE, the deprecated IMPORT_NO_WEAK; the category tables are a static transcription (LintTables.tla). Quick replays all single plantings, the whole signature block and a seeded sample of 1500 pairs.",
   ref="4/C05"),
}

NOT_APPLICABLE = {}

def main():
    props = [json.loads(l) for l in open(os.path.join(HERE, "properties.jsonl"))]
    checks = []
    for p in props:
        c = CHECKS.get(p["id"])
        if not c:
            continue
        checks.append({
            "property_id": p["id"],
            "quick_cmd": "./check %s --tier quick" % p["id"],
            "thorough_cmd": "./check %s --tier thorough" % p["id"],
            "evidence_file": "/verif/evidence/%s.json" % p["id"],
            "replay_cmd_template": "./check %s --replay {path}" % p["id"],
            "engine": c["engine"],
            "level_claimed": {"category": "model_checking", "text": c["text"], "design_ref": "DESIGN.md section " + c["ref"]},
            "level_note": c["note"],
            "technique": c["technique"],
        })
    na = []
    for p in props:
        if p["id"] not in CHECKS:
            na.append({"property_id": p["id"], "reason": NOT_APPLICABLE.get(p["id"], "check not built yet in this round (planned, see DESIGN.md section 8); not claimed")})
    engines = {}
    for pid, c in CHECKS.items():
        engines.setdefault(c["engine"], []).append(pid)
    man = {
        "version": 1,
        "setup_cmd": "./check --setup",
        "hooks": {
            "guard": "verif",
            "enable": "go build -tags verif (the harness module replaces github.com/bufbuild/buf with /repo)",
            "baseline_off_cmd": BASELINE_OFF,
            "source_commits": ["8514446"],
            "add_only": True,
        },
        "engines": [{"name": k, "path": "specs/%s" % k, "serves_properties": sorted(v),
                     "kind_free_text": "TLA+ specification checked with TLC; cases/behaviours replayed into, and traces validated against, the real Go code through harness/"} for k, v in sorted(engines.items())],
        "checks": checks,
        "not_applicable": na,
        "notes": "All checks: ./check <id> --tier quick|thorough; exit 0/1/2; VIOLATION and KNOWN-FINDING lines on stdout; evidence/<id>.json rewritten on every run. Known findings: known_findings.json.",
    }
    json.dump(man, open(os.path.join(HERE, "MANIFEST.json"), "w"), indent=1)
    print("MANIFEST.json: %d checks, %d not claimed" % (len(checks), len(na)))

if __name__ == "__main__":
    main()

#!/usr/bin/env python3
"""Regenerates MANIFEST.json from the table below (single source of truth for what is claimed)."""
import json, os
HERE = os.path.dirname(os.path.dirname(os.path.abspath(__file__)))

BASELINE_OFF = ("cd /repo && GOFLAGS=-mod=mod GOPROXY=off GOSUMDB=off GOTOOLCHAIN=local "
                "go test -json -vet=off -count=1 -timeout 25m ./...")

CHECKS = {
 "C13": dict(engine="storage", technique="TLC-enumerated path algebra (PathEscape.tla) replayed on real buckets with sentinels",
   text="TLC checks the containment lemma (lexically valid => under the root, for every root shape), the frame property and archive-name containment for every raw path over a 7-symbol component alphabet up to the bound, and emits the expected verdict (reject / act at Root∘Clean(raw)) per path and operation; every emitted case is replayed on 10 real bucket kinds (disk, memory, prefix-mapped, chained, filtered) plus untar/unzip and bufcas.NewFileNode inside a universe with sentinel objects outside every root, and the whole universe is compared before/after.",
   note="Bounded: paths up to 4 (quick) / 6 (thorough) components; symlink-following buckets and the Windows variant are out of scope; the expected verdict is the spec's, the observed effect is the real code's.",
   ref="4/C13"),
 "C14": dict(engine="storage", technique="TLC state graph of Storage.tla (views as combinator trees, Sem) with every state and every transition replayed on real buckets",
   text="TLC explores every reachable content of two base buckets under put/delete/delete-all/copy (direct and through mapped views), checks the combinator laws (map/unmap inverse, chained = nested, path-wise walk, union reports / overlay hides, strip is identity, equivalent spellings clean to the same path) and emits, per state, the expected answer of every get/stat/walk on 19 views and, per transition, the expected result and post-state; the harness materialises every state on memory and disk buckets, builds the views from the real combinators and compares every answer in every spelling, plus Copy / tar / zip round trips and AllPaths.",
   note="Bounded path universe (5 paths chosen to separate path-wise from string-wise prefixes), 2-3 contents incl. empty and 70 kB; each transition starts from a materialised pre-state.",
   ref="4/C14"),
 "C15": dict(engine="storage", technique="TLC-enumerated fault plans of StorageFaults.tla replayed with a fault-injecting bucket; disk atomic writer observed at hooks, with real rename/EFBIG failures and SIGKILL",
   text="TLC explores every interleaving of per-object Put/Write/Close jobs with up to 2 injected step failures (and a kill for disk atomic puts), checks ErrorTransparency, FaultReported, Count, AtomicVisible, FailedAtomicLeavesNothing and termination, and emits each terminal (fault plan -> outcome); every plan is replayed on Copy, CopyPath, CopyReader, CopyReadObject, PutPath, Untar, Unzip, PutFileSetToBucket and WriteResponse through a fault-injecting WriteBucket over memory and disk; the real storageos atomic writer is observed at every primitive step through the verif hooks, with real rename failures, real write failures under RLIMIT_FSIZE and real SIGKILLs at every kill point in child processes (directly, through a prefix-mapped view and through LimitWriteBucket).",
   note="Faults above the bucket are injected by a wrapper; only what the property states is an alarm (success with missing/truncated output, unreported fault, over-count, torn or leftover atomic object); other model/code differences are listed as divergences in the evidence.",
   ref="4/C15"),
}

NOT_APPLICABLE = {}

def main():
    props = [json.loads(l) for l in open(os.path.join(HERE, "properties.jsonl"))]
    checks = []
    for p in props:
        c = CHECKS.get(p["id"])
        if not c:
            continue
        checks.append({
            "property_id": p["id"],
            "quick_cmd": "./check %s --tier quick" % p["id"],
            "thorough_cmd": "./check %s --tier thorough" % p["id"],
            "evidence_file": "/verif/evidence/%s.json" % p["id"],
            "replay_cmd_template": "./check %s --replay {path}" % p["id"],
            "engine": c["engine"],
            "level_claimed": {"category": "model_checking", "text": c["text"], "design_ref": "DESIGN.md section " + c["ref"]},
            "level_note": c["note"],
            "technique": c["technique"],
        })
    na = []
    for p in props:
        if p["id"] not in CHECKS:
            na.append({"property_id": p["id"], "reason": NOT_APPLICABLE.get(p["id"], "check not built yet in this round (planned, see DESIGN.md section 8); not claimed")})
    engines = {}
    for pid, c in CHECKS.items():
        engines.setdefault(c["engine"], []).append(pid)
    man = {
        "version": 1,
        "setup_cmd": "./check --setup",
        "hooks": {
            "guard": "verif",
            "enable": "go build -tags verif (the harness module replaces github.com/bufbuild/buf with /repo)",
            "baseline_off_cmd": BASELINE_OFF,
            "source_commits": ["8514446"],
            "add_only": True,
        },
        "engines": [{"name": k, "path": "specs/%s" % k, "serves_properties": sorted(v),
                     "kind_free_text": "TLA+ specification checked with TLC; cases/behaviours replayed into, and traces validated against, the real Go code through harness/"} for k, v in sorted(engines.items())],
        "checks": checks,
        "not_applicable": na,
        "notes": "All checks: ./check <id> --tier quick|thorough; exit 0/1/2; VIOLATION and KNOWN-FINDING lines on stdout; evidence/<id>.json rewritten on every run. Known findings: known_findings.json.",
    }
    json.dump(man, open(os.path.join(HERE, "MANIFEST.json"), "w"), indent=1)
    print("MANIFEST.json: %d checks, %d not claimed" % (len(checks), len(na)))

if __name__ == "__main__":
    main()

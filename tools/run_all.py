#!/usr/bin/env python3
"""Run every check of MANIFEST.json on the current tree: tools/run_all.py [quick|thorough] [seed ...].
Prints one line per (check, seed); exit 0 iff every run exited 0."""
import json, os, subprocess, sys, time
VERIF = os.path.dirname(os.path.dirname(os.path.abspath(__file__)))
tier = sys.argv[1] if len(sys.argv) > 1 else "quick"
seeds = sys.argv[2:] or ["1"]
only = os.environ.get("ONLY", "").split(",") if os.environ.get("ONLY") else None
man = json.load(open(os.path.join(VERIF, "MANIFEST.json")))
bad = 0
for seed in seeds:
    for c in man["checks"]:
        pid = c["property_id"]
        if only and pid not in only:
            continue
        t0 = time.time()
        env = dict(os.environ, VERIF_SEED=seed)
        if seed != "1" or tier != "quick":
            env["VERIF_NO_EVIDENCE"] = "1"
        p = subprocess.run(c[tier + "_cmd"], shell=True, cwd=VERIF, env=env, stdout=subprocess.PIPE, stderr=subprocess.STDOUT, text=True)
        last = [l for l in p.stdout.splitlines() if l.startswith(pid + " ") or "INCONCLUSIVE" in l or l.startswith("VIOLATION")]
        print("%s seed=%s tier=%s exit=%d wall=%ds %s" % (pid, seed, tier, p.returncode, time.time() - t0, " | ".join(last[-2:])[:300]), flush=True)
        if p.returncode != 0:
            bad += 1
            open("/tmp/run_all_%s_%s_%s.log" % (pid, tier, seed), "w").write(p.stdout)
sys.exit(1 if bad else 0)

#!/usr/bin/env python3
"""Debug aid: run ImageIO.tla + imageio-replay and print one violation per class."""
import sys, os, json, re, random
sys.path.insert(0, os.path.dirname(os.path.abspath(__file__)))
import vlib, tours
ctx = vlib.Ctx("C11", "quick", 1, "dbg")
res = ctx.tlc_must_hold("imageio", "ImageIO", "ImageIO.cfg", emit_tags=("EDGE", "STATE"), constants={"Emit": "TRUE", "MaxFlags": 1, "ConvertCompressions": '{"none"}'}, timeout=6000)
edges, states = res["emit"]["EDGE"], res["emit"]["STATE"]
ops = {json.dumps(s["art"], sort_keys=True): s["ops"] for s in states}
tl, left = tours.build_tours(edges, max_len=40, rnd=random.Random(1))
seen = set()
for t in tl:
    for e in t:
        k = json.dumps(e["to"], sort_keys=True)
        if k not in seen and ops.get(k):
            seen.add(k)
            e["observe"] = [{"op": o["op"], "paths": [sorted(o["paths"][0]), sorted(o["paths"][1])]} for o in ops[k]]
out = ctx.vh("imageio-replay", {"buf": ctx.build_buf(), "tours": tl}, timeout=12000)
cls = {}
for v in out["violations"]:
    k = re.sub(r"image:[\w.]+", "image:*", v["sig"])
    k = re.sub(r"source:\w+", "source:*", k)
    cls.setdefault(k, []).append(v)
for k, vs in sorted(cls.items()):
    print(len(vs), k)
    print("     ", vs[0]["sig"])
    print("     ", vs[0]["detail"][:900])
    if os.environ.get("FULL"):
        print(json.dumps(vs[0]["case"], indent=1)[:3000])
print(len(out["violations"]), "kept violations;", {k: v for k, v in out["extra"].items() if k not in ("violation_counts", "reference_files")})

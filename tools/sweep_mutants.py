#!/usr/bin/env python3
"""Apply every seeded change to /repo in turn, run the quick check of its property (plus listed extra checks),
revert, and record the outcome in seeded/<id>/meta.json and seeded/RESULTS.json.  Never leaves /repo dirty."""
import json, os, re, subprocess, sys, time
VERIF = os.path.dirname(os.path.dirname(os.path.abspath(__file__)))
EXTRA = {"C09-m2": ["C15"], "C06-m3": ["C16"], "C12-m5": ["C17"], "C09-m4": ["C15"], "C02-m5": ["C10"], "C09-m7": ["C02"], "C15-m6": ["C02"], "C02-m9": ["C08"], "C02-m8": ["C20"], "C01-m8": ["C11"]}
only = sys.argv[1:]
results = {}
rp = os.path.join(VERIF, "seeded", "RESULTS.json")
if os.path.exists(rp):
    results = json.load(open(rp))


def sh(cmd, **kw):
    return subprocess.run(cmd, shell=True, stdout=subprocess.PIPE, stderr=subprocess.STDOUT, text=True, **kw)


def needs_from_readme(d):
    p = os.path.join(d, "README.md")
    if not os.path.exists(p):
        return ""
    txt = open(p).read()
    m = re.search(r"^##[^\n]*(?:needed|need)[^\n]*\n(.*?)(?=^## |\Z)", txt, re.S | re.M | re.I)
    return (m.group(1).strip() if m else "")[:1500]


for name in sorted(os.listdir(os.path.join(VERIF, "seeded"))):
    d = os.path.join(VERIF, "seeded", name)
    patch = os.path.join(d, "patch.diff")
    if not os.path.isfile(patch) or (only and name not in only):
        continue
    prop = name.split("-")[0]
    assert sh("git -C /repo status --porcelain").stdout.strip() == "", "/repo is dirty"
    entry = {"property": prop, "checks": {}}
    chk = sh("git -C /repo apply --check %s" % patch)
    if chk.returncode != 0:
        entry["applies"] = False
        entry["note"] = chk.stdout.strip()[:300]
    else:
        entry["applies"] = True
        sh("git -C /repo apply %s" % patch)
        try:
            for c in [prop] + EXTRA.get(name, []):
                t0 = time.time()
                r = sh("./check %s --tier quick" % c, cwd=VERIF, env=dict(os.environ, VERIF_NO_EVIDENCE="1", VERIF_SEED="1"))
                sigs = re.findall(r"signature: (.*)", r.stdout)
                entry["checks"][c] = {"exit": r.returncode, "violation_lines": len(re.findall(r"^VIOLATION ", r.stdout, re.M)),
                                      "first_signatures": sigs[:3], "wall_s": round(time.time() - t0)}
        finally:
            sh("git -C /repo checkout -- .")
            sh("git -C /repo clean -fdq")
    entry["detected_by"] = [c for c, v in entry["checks"].items() if v["exit"] == 1]
    results[name] = entry
    json.dump(results, open(rp, "w"), indent=1, sort_keys=True)
    mp = os.path.join(d, "meta.json")
    meta = json.load(open(mp)) if os.path.exists(mp) else {}
    meta.update({
        "property": prop,
        "needs_to_manifest": meta.get("needs_to_manifest") or needs_from_readme(d),
        "what_i_ran": ["git -C /repo apply seeded/%s/patch.diff" % name] + ["./check %s --tier quick" % c for c in entry["checks"]] + ["git -C /repo checkout -- ."],
        "applies_to_current_tree": entry["applies"],
        "detected_by": entry["detected_by"],
        "first_signatures": {c: v["first_signatures"] for c, v in entry["checks"].items()},
    })
    json.dump(meta, open(mp, "w"), indent=1)
    print(name, entry["applies"], entry["detected_by"], {c: (v["exit"], v["wall_s"]) for c, v in entry["checks"].items()}, flush=True)

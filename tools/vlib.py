"""Shared machinery of the checks: TLC runner, emission parser, Go harness driver,
known-findings matching and evidence writing.

Exit codes of a check: 0 = nothing forbidden observed; 1 = VIOLATION (real code did something
the specification forbids); 2 = could not decide (infrastructure problem, never a violation).
"""
import atexit, glob, json, os, re, shutil, subprocess, sys, tempfile, time

VERIF = os.path.dirname(os.path.dirname(os.path.abspath(__file__)))
REPO = os.environ.get("VERIF_REPO", "/repo")
JAR = "/opt/veriftools/tla/tla2tools.jar"
CM_JAR_GLOB = "/opt/veriftools/tla/*.jar"


class Infra(Exception):
    """Raised for infrastructure problems (exit 2)."""


def log(*a):
    print(*a, flush=True)


class Ctx:
    def __init__(self, prop, tier, seed, replay=None):
        self.prop, self.tier, self.seed, self.replay = prop, tier, seed, replay
        base = os.environ.get("VERIF_SCRATCH") or None
        self.scratch = tempfile.mkdtemp(prefix="verif-%s-" % prop, dir=base)
        atexit.register(self.cleanup)
        self.t0 = time.time()
        self.states = 0
        self.transitions = 0
        self.tlc_runs = []
        self.traces = 0
        self.evaluations = 0
        self.distinct = 0
        self.samples = []
        self.assumptions = []
        self.notes = {}
        self.violations = []      # unlisted violations
        self.known_hits = []      # (finding, violation)
        self.exhaustive = False
        self._harness = None

    def cleanup(self):
        if os.environ.get("VERIF_KEEP"):
            log("scratch kept:", self.scratch)
            return
        shutil.rmtree(self.scratch, ignore_errors=True)

    @property
    def quick(self):
        return self.tier == "quick"

    def path(self, *p):
        d = os.path.join(self.scratch, *p)
        os.makedirs(os.path.dirname(d), exist_ok=True)
        return d

    # ------------------------------------------------------------------ TLC
    def tlc(self, spec_dir, module, cfg, workers=None, simulate=None, depth=None, timeout=1800,
            coverage=False, emit_tags=(), extra_files=(), props=None, deadlock=True, dfs=False, emit_raw=False,
            expect_violation=False, heap=None, constants=None):
        """Run TLC on specs/<spec_dir>/<module>.tla with <cfg>. Returns a dict.

        The spec directory (plus specs/common) is copied to a scratch directory first.
        emit_tags: stdout lines of the form <<"TAG", "json">> are parsed and returned under
        result["emit"][TAG] (requires workers=1 to keep lines whole).
        constants: optional dict name->TLA expression text appended to a copy of the cfg.
        """
        run_dir = tempfile.mkdtemp(prefix="tlc-", dir=self.scratch)
        for d in ("common", spec_dir):
            src = os.path.join(VERIF, "specs", d)
            for f in glob.glob(os.path.join(src, "*")):
                if os.path.isfile(f):
                    shutil.copy(f, run_dir)
        for f in extra_files:
            shutil.copy(f, run_dir)
        cfg_path = os.path.join(run_dir, cfg)
        if constants:
            txt = open(cfg_path).read()
            txt += "\nCONSTANTS\n" + "".join(("  %s\n" % k) if v is None else ("  %s = %s\n" % (k, v)) for k, v in constants.items())
            cfg_path = os.path.join(run_dir, "gen_" + cfg)
            open(cfg_path, "w").write(txt)
        if workers is None:
            workers = 1 if emit_tags else min(16, os.cpu_count() or 4)
        java = ["java", "-XX:+UseParallelGC", "-Xss64m"]
        java.append("-Xmx%s" % (heap or "8g"))
        if dfs:
            java.append("-Dtlc2.tool.queue.IStateQueue=StateDeque")
        cp = JAR + ":" + ":".join(sorted(glob.glob(CM_JAR_GLOB)))
        cmd = java + ["-cp", cp, "tlc2.TLC", "-workers", str(workers), "-metadir",
                      os.path.join(run_dir, "meta"), "-config", os.path.basename(cfg_path),
                      "-seed", str(self.seed), "-noGenerateSpecTE"]
        if not deadlock:
            cmd.append("-deadlock")
        if coverage:
            cmd += ["-coverage", "1"]
        if simulate:
            cmd += ["-simulate", "num=%d" % simulate]
            if depth:
                cmd += ["-depth", str(depth)]
        cmd.append(module)
        t0 = time.time()
        # TLC's output goes to a file and is read line by line: emitted records can be gigabytes
        out_path = os.path.join(run_dir, "tlc.out")
        try:
            with open(out_path, "w") as of:
                p = subprocess.run(cmd, cwd=run_dir, stdout=of, stderr=subprocess.STDOUT, text=True, timeout=timeout)
        except subprocess.TimeoutExpired:
            raise Infra("TLC timed out after %ds on %s/%s" % (timeout, module, cfg))
        res = {"rc": p.returncode, "module": module, "cfg": cfg, "wall_s": round(time.time() - t0, 1),
               "emit": {t: [] for t in emit_tags}, "run_dir": run_dir}
        other = []
        line_re = re.compile(r'^<<"([A-Z0-9_]+)", "(.*)">>$')
        with open(out_path) as f:
            for line in f:
                line = line.rstrip("\n")
                if emit_tags and line.startswith('<<"'):
                    mm = line_re.match(line)
                    if mm and mm.group(1) in res["emit"]:
                        s = mm.group(2).replace('\\"', '"').replace("\\\\", "\\")
                        if emit_raw:
                            res["emit"][mm.group(1)].append(RawJSON(s))
                            continue
                        try:
                            res["emit"][mm.group(1)].append(json.loads(s))
                        except Exception as e:
                            raise Infra("cannot parse emitted line: %r (%s)" % (line[:200], e))
                        continue
                other.append(line)
        os.unlink(out_path)
        out = "\n".join(other)
        res["out"] = out
        m = re.search(r"(\d+) states generated, (\d+) distinct states found", out)
        if m:
            res["generated"], res["distinct"] = int(m.group(1)), int(m.group(2))
        else:
            res["generated"], res["distinct"] = 0, 0
        m = re.search(r"depth of the complete state graph search is (\d+)", out)
        res["depth"] = int(m.group(1)) if m else 0
        res["violated"] = ("is violated" in out) or ("Error: Deadlock" in out) or ("violated" in out and "Error:" in out)
        ok_rc = (0,) if not expect_violation else (0, 10, 11, 12, 13)
        if p.returncode not in ok_rc and not res["violated"]:
            tail = "\n".join(out.splitlines()[-40:])
            raise Infra("TLC failed rc=%d on %s/%s:\n%s" % (p.returncode, module, cfg, tail))
        if coverage:
            res["zero_coverage"] = re.findall(r"^<(\w+) line .*>: 0:0$", out, re.M)
        self.tlc_runs.append({k: res[k] for k in ("module", "cfg", "generated", "distinct", "depth", "wall_s", "rc")})
        if not simulate:
            self.states += res["distinct"]
            self.transitions += res["generated"]
        return res

    def tlc_must_hold(self, *a, **kw):
        """Exhaustive run whose invariants must hold in the design; a design-level failure is an
        infrastructure problem of the check (the spec is wrong or was edited), not a code violation."""
        res = self.tlc(*a, **kw)
        if res["violated"] or res["rc"] != 0:
            tail = "\n".join(res["out"].splitlines()[-60:])
            raise Infra("specification property failed in the design (%s/%s):\n%s" % (res["module"], res["cfg"], tail))
        if res["distinct"] == 0:
            raise Infra("TLC explored no states (%s/%s)" % (res["module"], res["cfg"]))
        return res

    # ------------------------------------------------------------ Go harness
    def harness(self):
        """Build the harness (and through `replace` the current /repo tree) with -tags verif."""
        if self._harness:
            return self._harness
        out = self.path("bin", "vh")
        env = goenv()
        # (VERIF_DEV_HARNESS: a copy of harness/ whose go.mod points at a scratch copy of the repository; development only)
        hdir = os.environ.get("VERIF_DEV_HARNESS") or os.path.join(VERIF, "harness")
        shutil.copy(os.path.join(REPO, "go.sum"), os.path.join(hdir, "go.sum"))
        t0 = time.time()
        p = subprocess.run(["go", "build", "-tags", "verif", "-o", out, "./cmd/vh"], cwd=hdir, env=env,
                           stdout=subprocess.PIPE, stderr=subprocess.STDOUT, text=True)
        if p.returncode != 0:
            raise Infra("harness build failed:\n" + p.stdout[-4000:])
        log("harness built in %.1fs" % (time.time() - t0))
        self._harness = out
        return out

    def build_buf(self):
        out = self.path("bin", "buf")
        if os.path.exists(out):
            return out
        p = subprocess.run(["go", "build", "-tags", "verif", "-o", out, "./cmd/buf"], cwd=REPO, env=goenv(),
                           stdout=subprocess.PIPE, stderr=subprocess.STDOUT, text=True)
        if p.returncode != 0:
            raise Infra("buf build failed:\n" + p.stdout[-4000:])
        return out

    def vh(self, sub, payload, timeout=3000, extra_env=None, args=()):
        """Run harness sub-command with JSON payload on a file; returns parsed JSON result."""
        exe = self.harness()
        inp = tempfile.mktemp(prefix="in-%s-" % sub, suffix=".json", dir=self.scratch)
        outp = tempfile.mktemp(prefix="out-%s-" % sub, suffix=".json", dir=self.scratch)
        with open(inp, "w") as f:
            dump_payload(payload, f)
        env = goenv()
        env["VERIF_SEED"] = str(self.seed)
        env["VERIF_TIER"] = self.tier
        env["VERIF_WORK"] = self.path("work", "x")[:-2]
        if extra_env:
            env.update(extra_env)
        try:
            p = subprocess.run([exe, sub, inp, outp] + list(args), env=env, stdout=subprocess.PIPE,
                               stderr=subprocess.STDOUT, text=True, timeout=timeout, cwd=self.scratch)
        except subprocess.TimeoutExpired:
            raise Infra("harness %s timed out" % sub)
        if p.returncode != 0 or not os.path.exists(outp):
            raise Infra("harness %s failed rc=%d:\n%s" % (sub, p.returncode, p.stdout[-6000:]))
        if p.stdout.strip():
            for l in p.stdout.strip().splitlines()[-15:]:
                log("  [vh] " + l)
        with open(outp) as f:
            res = json.load(f)
        os.unlink(inp)
        os.unlink(outp)
        return res

    # ------------------------------------------------------------ verdicts
    def add_result(self, res, kind=""):
        """Accumulate a harness result: {evaluations, distinct, traces, samples, violations:[{sig, detail, case}]}"""
        self.evaluations += res.get("evaluations", 0)
        self.distinct += res.get("distinct", 0)
        self.traces += res.get("traces", res.get("evaluations", 0))
        for s in res.get("samples", [])[:3]:
            if len(self.samples) < 12:
                self.samples.append(s)
        vc = (res.get("extra") or {}).get("violation_counts") or {}
        if vc:
            self.notes.setdefault("violation_counts", {}).update(vc)
        for k, v in (res.get("extra") or {}).items():
            if k != "violation_counts" and not self.replay:
                self.notes.setdefault("harness", {})[(kind + ":" if kind else "") + k] = v
        for v in res.get("violations", []) or []:
            self.violation(v.get("sig", "?"), v.get("detail", ""), v.get("case"))

    def violation(self, sig, detail, case=None):
        self.violations_raw = getattr(self, "violations_raw", [])
        self.violations_raw.append({"sig": sig, "detail": detail, "case": case})

    def trace_validate(self, spec_dir, module, cfg, lines, timeout=1800, accept_invariant="TraceNotFinished"):
        """Validate an ndjson trace (list of JSON lines) with a trace specification that reads
        "trace.ndjson" and whose invariant `accept_invariant` (l <= Len(TLog)) is violated exactly when
        the whole log has been consumed. Returns (accepted, info)."""
        tp = os.path.join(tempfile.mkdtemp(prefix="trace-", dir=self.scratch), "trace.ndjson")
        with open(tp, "w") as f:
            f.write("\n".join(lines) + "\n")
        res = self.tlc(spec_dir, module, cfg, workers=1, timeout=timeout, extra_files=[tp],
                       deadlock=False, dfs=True, expect_violation=True)
        out = res["out"]
        accepted = ("Invariant %s is violated" % accept_invariant) in out
        other = re.findall(r"Invariant (\w+) is violated", out)
        info = {"accepted": accepted, "violated_invariants": other, "depth": res["depth"], "generated": res["generated"],
                "events": len(lines)}
        if not accepted:
            m = re.findall(r"^/\\ l = (\d+)", out, re.M)
            info["tail"] = "\n".join(out.splitlines()[-25:])
        self.traces += 1
        return accepted, info


def goenv():
    env = dict(os.environ)
    env.update(GOFLAGS="-mod=mod", GOPROXY="off", GOSUMDB="off", GOTOOLCHAIN="local")
    return env


# ---------------------------------------------------------------- findings
def load_findings():
    p = os.path.join(VERIF, "known_findings.json")
    if not os.path.exists(p):
        return []
    return json.load(open(p))["findings"]


class RawJSON(str):
    """A JSON text that is passed on as it is (never parsed on the Python side)."""


def dump_payload(payload, f):
    """json.dump that writes RawJSON values (also inside top-level lists) verbatim."""
    if not isinstance(payload, dict) or not any(isinstance(v, list) and v and isinstance(v[0], RawJSON) for v in payload.values()):
        json.dump(payload, f)
        return
    f.write("{")
    first = True
    for k, v in payload.items():
        if not first:
            f.write(",")
        first = False
        f.write(json.dumps(k) + ":")
        if isinstance(v, list) and v and isinstance(v[0], RawJSON):
            f.write("[")
            for i, x in enumerate(v):
                if i:
                    f.write(",")
                f.write(x)
            f.write("]")
        elif isinstance(v, RawJSON):
            f.write(v)
        else:
            f.write(json.dumps(v))
    f.write("}")


def finish(ctx, level="model_checking", rule="", extra_cov=None):
    """Match violations against known findings, write evidence, print verdict lines, return exit code."""
    findings = [f for f in load_findings() if f["property"] == ctx.prop and f.get("status") == "known"]
    raw = getattr(ctx, "violations_raw", [])
    unlisted, known = [], {}
    for v in raw:
        hit = None
        for f in findings:
            if v["sig"] == f.get("signature") or (f.get("signature_prefix") and v["sig"].startswith(f["signature_prefix"])) \
                    or (f.get("signature_regex") and re.search(f["signature_regex"], v["sig"])):
                hit = f
                break
        if hit:
            known.setdefault(hit.get("signature") or hit.get("signature_prefix") or hit.get("signature_regex"), (hit, []))[1].append(v)
        else:
            unlisted.append(v)
    for sig, (f, vs) in known.items():
        log("KNOWN-FINDING: property=%s %s [%s] (%d occurrence(s) this run)" % (ctx.prop, f["title"], sig, len(vs)))
    rc = 0
    replay_dir = os.path.join(VERIF, "evidence", "replay")
    for old in glob.glob(os.path.join(replay_dir, "%s-%s-*.json" % (ctx.prop, ctx.tier))):
        os.unlink(old)
    if unlisted:
        os.makedirs(replay_dir, exist_ok=True)
        seen = set()
        n = 0
        for v in unlisted:
            if v["sig"] in seen:
                continue
            seen.add(v["sig"])
            n += 1
            if n > 10:
                break
            rp = os.path.join(replay_dir, "%s-%s-%d.json" % (ctx.prop, ctx.tier, n))
            with open(rp, "w") as fh:
                json.dump({"property": ctx.prop, "seed": ctx.seed, "tier": ctx.tier, "sig": v["sig"],
                           "detail": v["detail"], "case": v["case"]}, fh, indent=1)
            log("VIOLATION property=%s replay=%s" % (ctx.prop, rp))
            log("  signature: %s" % v["sig"])
            log("  detail: %s" % str(v["detail"])[:600])
        rc = 1
    cov = {
        "states": ctx.states,
        "transitions": ctx.transitions,
        "traces_validated_against_impl": ctx.traces,
        "samples": ctx.samples[:12] or [{"note": "no sample recorded"}],
        "evaluations": ctx.evaluations,
        "distinct_nontrivial": ctx.distinct,
        "rule": rule,
        "exhaustive": ctx.exhaustive,
        "tlc_runs": ctx.tlc_runs,
        "known_findings_reobserved": sorted(known.keys()),
    }
    cov.update(ctx.notes)
    if extra_cov:
        cov.update(extra_cov)
    ev = {
        "property_id": ctx.prop,
        "tier": ctx.tier,
        "seed": ctx.seed,
        "level": level,
        "coverage": cov,
        "assumptions": ctx.assumptions,
        "wall_s": round(time.time() - ctx.t0, 1),
        "violations": len(unlisted),
    }
    if not ctx.replay and not os.environ.get("VERIF_NO_EVIDENCE"):
        os.makedirs(os.path.join(VERIF, "evidence"), exist_ok=True)
        with open(os.path.join(VERIF, "evidence", ctx.prop + ".json"), "w") as fh:
            json.dump(ev, fh, indent=1, sort_keys=True)
    log("%s %s: states=%d transitions=%d impl-checked=%d evaluations=%d violations=%d known=%d wall=%.0fs" % (
        ctx.prop, ctx.tier, ctx.states, ctx.transitions, ctx.traces, ctx.evaluations, len(unlisted), len(known), time.time() - ctx.t0))
    return rc

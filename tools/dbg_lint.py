#!/usr/bin/env python3
"""Debug aid: run Lint.tla + lint-replay on single plantings and print one violation per class."""
import sys, os, json
sys.path.insert(0, os.path.dirname(os.path.abspath(__file__)))
import vlib
ctx = vlib.Ctx("C05", "quick", 1, "dbg")
res = ctx.tlc_must_hold("lint", "Lint", "Lint.cfg", emit_tags=("CASE", "BASE", "CATS"),
                        constants={"Emit": "TRUE", "MaxPlants": int(os.environ.get("MP", "1")), "MaxRpc": int(os.environ.get("MR", "1"))}, timeout=6000, heap="12g")
out = ctx.vh("lint-replay", {"base": res["emit"]["BASE"][0], "categories": res["emit"]["CATS"][0], "cases": res["emit"]["CASE"]}, timeout=12000)
seen = set()
for v in out["violations"]:
    if v["sig"] in seen:
        continue
    seen.add(v["sig"])
    print(v["sig"]); print("    " + v["detail"][:500])
    if os.environ.get("FULL"):
        print(json.dumps(v["case"], indent=1)[:3000])
print(len(out["violations"]), "violations,", len(seen), "classes", out.get("extra"))

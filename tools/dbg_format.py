#!/usr/bin/env python3
"""Debug aid: run Format.tla + format-replay and print one violation per class."""
import sys, os, json, re
sys.path.insert(0, os.path.dirname(os.path.abspath(__file__)))
import vlib
ctx = vlib.Ctx("C07", "quick", 1, "dbg")
res = ctx.tlc_must_hold("format", "Format", "Format.cfg", emit_tags=("CASE", "BASE"),
                        constants={"Emit": "TRUE", "MaxDev": int(os.environ.get("MD", "1"))}, timeout=6000, heap="12g")
print(res["distinct"], "states", len(res["emit"]["CASE"]), "cases")
out = ctx.vh("format-replay", {"base": res["emit"]["BASE"][0], "cases": res["emit"]["CASE"]}, timeout=12000)
seen = set()
for v in out["violations"]:
    k = "/".join(v["sig"].split("/")[:2]) if os.environ.get("MD", "1") != "1" else v["sig"]
    if k in seen:
        continue
    seen.add(k)
    print(v["sig"]); print("    " + v["detail"][:600])
    if os.environ.get("FULL"):
        print(v["case"].get("input", "")); print("-----"); print(v["case"].get("output", ""))
print(len(out["violations"]), "violations,", len(seen), "classes", {k: v for k, v in out.get("extra", {}).items() if k != "violation_counts"})

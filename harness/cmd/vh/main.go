// Command vh is the Go side of the verification framework: it renders abstract cases emitted by
// TLC into real inputs, runs the real bufbuild/buf code (built from /repo with -tags verif) and
// compares the projected result with what the specification expects, or records traces of the
// real code for validation by TLC.
//
// usage: vh <sub-command> <input.json> <output.json>
package main

import (
	"encoding/json"
	"fmt"
	"os"

	"github.com/bufbuild/verifharness/internal/codegenmodel"
	"github.com/bufbuild/verifharness/internal/reg"

	_ "github.com/bufbuild/verifharness/internal/authmodel"
	_ "github.com/bufbuild/verifharness/internal/breakmodel"
	_ "github.com/bufbuild/verifharness/internal/cachemodel"
	_ "github.com/bufbuild/verifharness/internal/climodel"
	_ "github.com/bufbuild/verifharness/internal/commitmodel"
	_ "github.com/bufbuild/verifharness/internal/configmodel"
	_ "github.com/bufbuild/verifharness/internal/depsmodel"
	_ "github.com/bufbuild/verifharness/internal/digestmodel"
	_ "github.com/bufbuild/verifharness/internal/faults"
	_ "github.com/bufbuild/verifharness/internal/filtermodel"
	_ "github.com/bufbuild/verifharness/internal/formatmodel"
	_ "github.com/bufbuild/verifharness/internal/imageiomodel"
	_ "github.com/bufbuild/verifharness/internal/imagemodel"
	_ "github.com/bufbuild/verifharness/internal/lintmodel"
	_ "github.com/bufbuild/verifharness/internal/managedmodel"
	_ "github.com/bufbuild/verifharness/internal/pathescape"
	_ "github.com/bufbuild/verifharness/internal/rulesmodel"
	_ "github.com/bufbuild/verifharness/internal/sched"
	_ "github.com/bufbuild/verifharness/internal/storagemodel"
)

func main() {
	if len(os.Args) >= 2 && os.Args[1] == "codegen-plugin" {
		// invoked by `buf generate` as a local plugin (C17, end-to-end stage)
		codegenmodel.PluginMain()
		return
	}
	if len(os.Args) >= 2 && os.Args[1] == "protoc-standin" {
		// invoked by `buf generate` in the place of protoc for a protoc_builtin plugin (C17, retention scenario)
		codegenmodel.ProtocStandinMain()
		return
	}
	if len(os.Args) < 4 {
		fmt.Fprintln(os.Stderr, "usage: vh <sub-command> <input.json> <output.json>; sub-commands:", reg.Names())
		os.Exit(2)
	}
	f, ok := reg.Lookup(os.Args[1])
	if !ok {
		fmt.Fprintln(os.Stderr, "unknown sub-command", os.Args[1])
		os.Exit(2)
	}
	in, err := os.ReadFile(os.Args[2])
	if err != nil {
		fmt.Fprintln(os.Stderr, err)
		os.Exit(2)
	}
	res, err := f(in)
	if err != nil {
		fmt.Fprintln(os.Stderr, "harness error:", err)
		os.Exit(2)
	}
	res.Finalize()
	out, err := json.Marshal(res)
	if err != nil {
		fmt.Fprintln(os.Stderr, err)
		os.Exit(2)
	}
	if err := os.WriteFile(os.Args[3], out, 0o644); err != nil {
		fmt.Fprintln(os.Stderr, err)
		os.Exit(2)
	}
}

// Package reg is the registry of harness sub-commands and the common result shape.
package reg

import (
	"encoding/json"
	"fmt"
	"os"
	"sort"
	"strconv"
	"sync"
)

// Violation is one observation of the real code doing what the specification forbids.
type Violation struct {
	// Sig is the canonical signature used to match known findings.
	Sig    string `json:"sig"`
	Detail string `json:"detail"`
	Case   any    `json:"case,omitempty"`
}

// Result is what every sub-command returns.
type Result struct {
	Evaluations int            `json:"evaluations"`
	Distinct    int            `json:"distinct"`
	Traces      int            `json:"traces"`
	Samples     []any          `json:"samples"`
	Violations  []Violation    `json:"violations"`
	Extra       map[string]any `json:"extra,omitempty"`

	mu   sync.Mutex
	seen map[string]int
}

// Violate records a violation (at most 20 per signature are kept, all are counted).
func (r *Result) Violate(sig string, c any, format string, args ...any) {
	r.mu.Lock()
	defer r.mu.Unlock()
	if r.seen == nil {
		r.seen = map[string]int{}
	}
	r.seen[sig]++
	if r.seen[sig] > 5 {
		return
	}
	r.Violations = append(r.Violations, Violation{Sig: sig, Detail: fmt.Sprintf(format, args...), Case: c})
}

// Count adds to the counters under the lock.
func (r *Result) Count(evals, distinct int) {
	r.mu.Lock()
	r.Evaluations += evals
	r.Distinct += distinct
	r.Traces += evals
	r.mu.Unlock()
}

// Sample records a sample case (first few only).
func (r *Result) Sample(s any) {
	r.mu.Lock()
	if len(r.Samples) < 4 {
		r.Samples = append(r.Samples, s)
	}
	r.mu.Unlock()
}

// SetExtra sets an extra value.
func (r *Result) SetExtra(k string, v any) {
	r.mu.Lock()
	if r.Extra == nil {
		r.Extra = map[string]any{}
	}
	r.Extra[k] = v
	r.mu.Unlock()
}

// Finalize sorts violations so that output is deterministic.
func (r *Result) Finalize() {
	sort.SliceStable(r.Violations, func(i, j int) bool { return r.Violations[i].Sig < r.Violations[j].Sig })
	if r.Extra == nil {
		r.Extra = map[string]any{}
	}
	if r.Violations == nil {
		r.Violations = []Violation{}
	}
	if r.Samples == nil {
		r.Samples = []any{}
	}
	counts := map[string]int{}
	for k, v := range r.seen {
		counts[k] = v
	}
	r.Extra["violation_counts"] = counts
}

// Func is a sub-command: raw JSON input -> result.
type Func func(input []byte) (*Result, error)

var cmds = map[string]Func{}

// Register registers a sub-command.
func Register(name string, f Func) { cmds[name] = f }

// Lookup returns a sub-command.
func Lookup(name string) (Func, bool) { f, ok := cmds[name]; return f, ok }

// Names returns registered names.
func Names() []string {
	var out []string
	for k := range cmds {
		out = append(out, k)
	}
	sort.Strings(out)
	return out
}

// Seed returns VERIF_SEED (default 1).
func Seed() int64 {
	if s := os.Getenv("VERIF_SEED"); s != "" {
		if n, err := strconv.ParseInt(s, 10, 64); err == nil {
			return n
		}
	}
	return 1
}

// Thorough reports whether VERIF_TIER=thorough.
func Thorough() bool { return os.Getenv("VERIF_TIER") == "thorough" }

// WorkDir returns a scratch directory for this process.
func WorkDir() string {
	if d := os.Getenv("VERIF_WORK"); d != "" {
		_ = os.MkdirAll(d, 0o755)
		return d
	}
	d, err := os.MkdirTemp("", "vh-work-")
	if err != nil {
		panic(err)
	}
	return d
}

// Decode unmarshals input into v.
func Decode(input []byte, v any) error { return json.Unmarshal(input, v) }

// Package digestmodel replays specs/digest/Digest.tla (C08): every emitted state is materialised as a
// module on several backends; the digest terms of the specification are evaluated with a real
// SHAKE256 (crypto/sha3, not buf's wrapper) and compared with Module.Digest / bufcas manifests.
package digestmodel

import (
	"archive/tar"
	"bytes"
	"context"
	"encoding/hex"
	"encoding/json"
	"fmt"
	"github.com/bufbuild/buf/private/buf/buftarget"
	"github.com/bufbuild/buf/private/buf/bufworkspace"
	"github.com/bufbuild/buf/private/bufpkg/bufplugin"
	"github.com/bufbuild/buf/private/pkg/storage/storageos"
	"github.com/bufbuild/verifharness/internal/bufx"
	"math/rand"
	"os"
	"path/filepath"
	"sort"
	"strings"
	"sync"

	"github.com/bufbuild/buf/private/bufpkg/bufcas"
	"github.com/bufbuild/buf/private/bufpkg/bufmodule"
	"github.com/bufbuild/buf/private/bufpkg/bufmodule/bufmoduletesting"
	"github.com/bufbuild/buf/private/bufpkg/bufparse"
	"github.com/bufbuild/buf/private/pkg/storage"
	"github.com/bufbuild/buf/private/pkg/storage/storagearchive"
	"github.com/bufbuild/buf/private/pkg/storage/storagemem"
	"github.com/bufbuild/verifharness/internal/reg"
	"golang.org/x/crypto/sha3"
)

func init() { reg.Register("digest-replay", run) }

type term struct {
	Op      string `json:"op"`
	Arg     *term  `json:"arg"`
	S       string `json:"s"`
	ID      string `json:"id"`
	P       string `json:"p"`
	Args    []term `json:"args"`
	Prefix  string `json:"prefix"`
	H       *term  `json:"h"`
	First   *term  `json:"first"`
	Rest    []term `json:"rest"`
	M       string `json:"m"`
	Imports bool   `json:"imports"`
}

type stateRec struct {
	Files []struct {
		P string `json:"p"`
		C string `json:"c"`
	} `json:"files"`
	Name        string   `json:"name"`
	Target      bool     `json:"target"`
	Dep         string   `json:"dep"`
	DepDep      string   `json:"depdep"`
	DepWKT      bool     `json:"depwkt"`
	ModuleFiles []string `json:"modulefiles"`
	B5          term     `json:"b5"`
	B4          term     `json:"b4"`
	Manifest    term     `json:"manifest"`
	RoundTrips  bool     `json:"roundtrips"`
}

type input struct {
	States  []stateRec `json:"states"`
	Corrupt bool       `json:"corrupt"`
}

func (st *stateRec) depImport() string {
	if st.Dep == "-" {
		return ""
	}
	if st.DepWKT {
		return "google/protobuf/timestamp.proto"
	}
	return "dep/d.proto"
}

var realPath = map[string]string{"d/u-umlaut.proto": "d/ü.proto", "wide-space.proto": "\u3000w.proto"}

func rp(p string) string {
	if r, ok := realPath[p]; ok {
		return r
	}
	return p
}

// content renders the bytes of (path, content id) in a state.
func content(path, id string, depImport string) []byte {
	if id == "ce" {
		return []byte{}
	}
	if !strings.HasSuffix(path, ".proto") {
		// (the same bytes for every file that is not a .proto file: a licence, a documentation file and a stray file with
		//  one content id are byte-identical files at different paths)
		return []byte("content " + id + "\n")
	}
	pkg := "m" + fmt.Sprint(len(path)) + strings.NewReplacer("/", "_", ".", "_", "-", "_", " ", "_").Replace(path)
	var sb strings.Builder
	sb.WriteString("syntax = \"proto3\";\npackage " + pkg + ";\n")
	if path == "a.proto" && depImport != "" {
		sb.WriteString("import \"" + depImport + "\";\n")
	}
	if id == "c2" {
		sb.WriteString("// second version\n")
	}
	sb.WriteString("message M { string id = 1; }\n")
	return []byte(sb.String())
}

func depContent(m, id string, imports bool) []byte {
	var sb strings.Builder
	if m == "W" {
		// a vendored copy of a well-known type (not byte-identical to the built-in one)
		sb.WriteString("syntax = \"proto3\";\npackage google.protobuf;\n")
		if id == "c2" {
			sb.WriteString("// second version\n")
		}
		sb.WriteString("message Timestamp { int64 seconds = 1; int32 nanos = 2; }\n")
		return []byte(sb.String())
	}
	sb.WriteString("syntax = \"proto3\";\npackage dep" + strings.ToLower(m) + ";\n")
	if imports {
		sb.WriteString("import \"e/e.proto\";\n")
	}
	if id == "c2" {
		sb.WriteString("// second version\n")
	}
	sb.WriteString("message D" + m + " { string id = 1; }\n")
	return []byte(sb.String())
}

func shake(b []byte) []byte {
	out := make([]byte, 64)
	sha3.ShakeSum256(out, b)
	return out
}

// eval evaluates a digest term to bytes.
func eval(t *term, st *stateRec) []byte {
	switch t.Op {
	case "lit":
		return []byte(t.S)
	case "path":
		return []byte(rp(t.P))
	case "content":
		panic("content term needs its path: handled in cat")
	case "depcontent":
		return depContent(t.M, t.ID, t.Imports)
	case "H":
		return shake(eval(t.Arg, st))
	case "str":
		return []byte(t.Prefix + hex.EncodeToString(eval(t.H, st)))
	case "cat":
		var out []byte
		// manifest line: <<CasStr(H(content)), "  ", path, "\n">> : the content term gets the path of its line
		if len(t.Args) == 4 && t.Args[2].Op == "path" && t.Args[0].Op == "str" && t.Args[0].H.Arg != nil && t.Args[0].H.Arg.Op == "content" {
			c := content(t.Args[2].P, t.Args[0].H.Arg.ID, st.depImport())
			out = append(out, []byte("shake256:"+hex.EncodeToString(shake(c)))...)
			for i := 1; i < 4; i++ {
				out = append(out, eval(&t.Args[i], st)...)
			}
			return out
		}
		for i := range t.Args {
			out = append(out, eval(&t.Args[i], st)...)
		}
		return out
	case "sortjoin":
		var rest []string
		for i := range t.Rest {
			rest = append(rest, string(eval(&t.Rest[i], st)))
		}
		sort.Strings(rest)
		all := append([]string{string(eval(t.First, st))}, rest...)
		return []byte(strings.Join(all, "\n"))
	}
	panic("unknown term op " + t.Op)
}

type shuffleBucket struct {
	storage.ReadBucket
	seed int64
}

func (s shuffleBucket) Walk(ctx context.Context, prefix string, f func(storage.ObjectInfo) error) error {
	var infos []storage.ObjectInfo
	if err := s.ReadBucket.Walk(ctx, prefix, func(oi storage.ObjectInfo) error { infos = append(infos, oi); return nil }); err != nil {
		return err
	}
	r := rand.New(rand.NewSource(s.seed))
	r.Shuffle(len(infos), func(i, j int) { infos[i], infos[j] = infos[j], infos[i] })
	for _, oi := range infos {
		if err := f(oi); err != nil {
			return err
		}
	}
	return nil
}

func backends() []string { return []string{"mem", "os", "tar", "shuffled", "mapped"} }

func makeBucket(ctx context.Context, backend string, files map[string][]byte, dir string, seed int64) (storage.ReadBucket, error) {
	mem, err := storagemem.NewReadBucket(files)
	if err != nil {
		return nil, err
	}
	switch backend {
	case "mem":
		return mem, nil
	case "shuffled":
		return shuffleBucket{mem, seed}, nil
	case "mapped":
		outer := map[string][]byte{}
		for k, v := range files {
			outer["some/prefix/"+k] = v
		}
		outer["other/x.proto"] = []byte("syntax = \"proto3\";")
		b, err := storagemem.NewReadBucket(outer)
		if err != nil {
			return nil, err
		}
		return storage.MapReadBucket(b, storage.MapOnPrefix("some/prefix")), nil
	case "tar":
		var buf bytes.Buffer
		tw := tar.NewWriter(&buf)
		// reverse path order inside the archive
		var names []string
		for k := range files {
			names = append(names, k)
		}
		sort.Sort(sort.Reverse(sort.StringSlice(names)))
		for _, n := range names {
			_ = tw.WriteHeader(&tar.Header{Typeflag: tar.TypeReg, Name: n, Size: int64(len(files[n])), Mode: 0o644})
			_, _ = tw.Write(files[n])
		}
		_ = tw.Close()
		dst := storagemem.NewReadWriteBucket()
		if err := storagearchive.Untar(ctx, &buf, dst); err != nil {
			return nil, err
		}
		return dst, nil
	case "os":
		return nil, nil // handled through DirPath
	}
	return nil, fmt.Errorf("unknown backend %s", backend)
}

func run(in []byte) (*reg.Result, error) {
	var inp input
	if err := reg.Decode(in, &inp); err != nil {
		return nil, err
	}
	if inp.Corrupt && len(inp.States) > 0 {
		// claim the digest is the digest of another state's files
		inp.States[0].B5 = inp.States[len(inp.States)-1].B5
		inp.States = inp.States[:1]
	}
	res := &reg.Result{}
	ctx := context.Background()
	work := reg.WorkDir()
	const workers = 16
	var wg sync.WaitGroup
	var emu sync.Mutex
	var firstErr error
	fail := func(err error) {
		emu.Lock()
		if firstErr == nil {
			firstErr = err
		}
		emu.Unlock()
	}
	for wk := 0; wk < workers; wk++ {
		wg.Add(1)
		go func(wk int) {
			defer wg.Done()
			dir := filepath.Join(work, fmt.Sprintf("digest-%d", wk))
			defer os.RemoveAll(dir)
			for i := wk; i < len(inp.States); i += workers {
				st := inp.States[i]
				hasDep := st.Dep != "-"
				files := map[string][]byte{}
				var desc []string
				for _, f := range st.Files {
					files[rp(f.P)] = content(f.P, f.C, st.depImport())
					desc = append(desc, f.P+"="+f.C)
				}
				sort.Strings(desc)
				caseInfo := map[string]any{"files": desc, "name": st.Name, "target": st.Target, "dep": st.Dep, "depdep": st.DepDep, "dep_is_vendored_wkt": st.DepWKT}
				wantB5 := "b5:" + hex.EncodeToString(eval(&st.B5, &st))
				wantManifest := string(eval(&st.Manifest, &st))
				for _, backend := range backends() {
					md := bufmoduletesting.ModuleData{Name: "buf.test/verif/" + st.Name, NotTargeted: !st.Target}
					if backend == "os" {
						d := filepath.Join(dir, "m")
						_ = os.RemoveAll(d)
						for k, v := range files {
							p := filepath.Join(d, filepath.FromSlash(k))
							_ = os.MkdirAll(filepath.Dir(p), 0o755)
							if err := os.WriteFile(p, v, 0o644); err != nil {
								fail(err)
								return
							}
						}
						_ = os.MkdirAll(d, 0o755)
						md.DirPath = d
					} else {
						b, err := makeBucket(ctx, backend, files, dir, int64(i)+reg.Seed())
						if err != nil {
							fail(err)
							return
						}
						md.Bucket = b
					}
					datas := []bufmoduletesting.ModuleData{md}
					if hasDep {
						datas = append(datas, bufmoduletesting.ModuleData{Name: "buf.test/verif/dep", PathToData: map[string][]byte{st.depImport(): depContent(map[bool]string{true: "W", false: "D"}[st.DepWKT], st.Dep, st.DepDep != "-")}})
						if st.DepDep != "-" {
							datas = append(datas, bufmoduletesting.ModuleData{Name: "buf.test/verif/depdep", PathToData: map[string][]byte{"e/e.proto": depContent("E", st.DepDep, false)}})
						}
					}
					if i%2 == 1 {
						// argument order must not matter either
						for l, r := 0, len(datas)-1; l < r; l, r = l+1, r-1 {
							datas[l], datas[r] = datas[r], datas[l]
						}
					}
					ms, err := bufmoduletesting.NewModuleSet(datas...)
					if err != nil {
						fail(fmt.Errorf("module set for %v (%s): %w", desc, backend, err))
						return
					}
					fn, _ := bufparse.NewFullName("buf.test", "verif", st.Name)
					mod := ms.GetModuleForFullName(fn)
					if mod == nil {
						fail(fmt.Errorf("module not found in set"))
						return
					}
					d, err := mod.Digest(bufmodule.DigestTypeB5)
					res.Count(1, 0)
					sig := "b5/" + backend
					if err != nil {
						res.Violate(sig+"/error", caseInfo, "Module.Digest(b5) on backend %s failed: %v", backend, err)
						continue
					}
					if d.String() != wantB5 {
						res.Violate(sig+"/value", caseInfo, "Module.Digest(b5) on backend %s = %s; the published construction (evaluated with x/crypto/sha3) gives %s", backend, d.String(), wantB5)
					}
				}
				// the same module loaded as a module of a v2 workspace on disk (bufworkspace adds the licence and the
				// documentation file of the module directory on its own way); dependencies are sibling modules
				if st.Target {
					ws := filepath.Join(dir, "ws")
					_ = os.RemoveAll(ws)
					write := func(rel string, data []byte) error {
						p := filepath.Join(ws, filepath.FromSlash(rel))
						if err := os.MkdirAll(filepath.Dir(p), 0o755); err != nil {
							return err
						}
						return os.WriteFile(p, data, 0o644)
					}
					yaml := "version: v2\nmodules:\n  - path: mod\n    name: buf.test/verif/" + st.Name + "\n"
					var werr error
					for k, v := range files {
						if err := write("mod/"+k, v); err != nil {
							werr = err
						}
					}
					// (in every other state the sibling modules have no name: the digest of a dependency counts, not its name)
					depName, depdepName := "    name: buf.test/verif/dep\n", "    name: buf.test/verif/depdep\n"
					if i%2 == 1 {
						depName, depdepName = "", ""
					}
					if hasDep {
						yaml += "  - path: dep\n" + depName
						if err := write("dep/"+st.depImport(), depContent(map[bool]string{true: "W", false: "D"}[st.DepWKT], st.Dep, st.DepDep != "-")); err != nil {
							werr = err
						}
						if st.DepDep != "-" {
							yaml += "  - path: depdep\n" + depdepName
							if err := write("depdep/e/e.proto", depContent("E", st.DepDep, false)); err != nil {
								werr = err
							}
						}
					}
					if err := write("buf.yaml", []byte(yaml)); err != nil {
						werr = err
					}
					if werr != nil {
						fail(werr)
						return
					}
					d, err := workspaceDigest(ctx, ws, "buf.test/verif/"+st.Name)
					res.Count(1, 0)
					if err != nil {
						res.Violate("b5/workspace/error", caseInfo, "the digest of the module loaded through a v2 workspace on disk failed: %v", err)
					} else if d != wantB5 {
						res.Violate("b5/workspace/value", caseInfo, "Module.Digest(b5) of the module loaded through a v2 workspace on disk = %s; the published construction gives %s", d, wantB5)
					}
				}
				// manifest: canonical text and round trip
				var nodes []bufcas.FileNode
				nodeErr := false
				for _, p := range st.ModuleFiles {
					dg, err := bufcas.NewDigestForContent(bytes.NewReader(files[rp(p)]))
					if err != nil {
						fail(err)
						return
					}
					n, err := bufcas.NewFileNode(rp(p), dg)
					if err != nil {
						nodeErr = true
						break
					}
					nodes = append(nodes, n)
				}
				if !nodeErr {
					// the file set of a bucket that holds exactly the module files: one node per path, whatever the contents
					mf := map[string][]byte{}
					for _, p := range st.ModuleFiles {
						mf[rp(p)] = files[rp(p)]
					}
					if mb, err := storagemem.NewReadBucket(mf); err == nil {
						fs, err := bufcas.NewFileSetForBucket(ctx, mb)
						if err != nil {
							res.Violate("fileset/error", caseInfo, "NewFileSetForBucket failed: %v", err)
						} else if fs.Manifest().String() != wantManifest {
							res.Violate("fileset/manifest", caseInfo, "the manifest of NewFileSetForBucket differs from the canonical text of the specification:\n%q\nvs\n%q", fs.Manifest().String(), wantManifest)
						}
					}
					m, err := bufcas.NewManifest(nodes)
					if err != nil {
						fail(err)
						return
					}
					res.Count(1, 0)
					if m.String() != wantManifest {
						res.Violate("manifest/text", caseInfo, "Manifest.String() differs from the canonical text of the specification:\n%q\nvs\n%q", m.String(), wantManifest)
					}
					parsed, err := bufcas.ParseManifest(m.String())
					if err != nil || parsed.String() != m.String() || len(parsed.FileNodes()) != len(nodes) {
						class := "other"
						for _, p := range st.ModuleFiles {
							if strings.Contains(p, "  ") {
								class = "two-consecutive-spaces-in-path"
							}
						}
						res.Violate("manifest/roundtrip/"+class, caseInfo, "the canonical manifest text does not parse back to an equal manifest: %v", err)
					}
				}
				if i < 2 {
					b, _ := json.Marshal(caseInfo)
					res.Sample(map[string]any{"state": string(b), "b5": wantB5})
				}
			}
		}(wk)
	}
	wg.Wait()
	if firstErr != nil {
		return nil, firstErr
	}
	res.Distinct = len(inp.States)
	return res, nil
}

// workspaceDigest loads the v2 workspace at root with the real workspace provider and returns the b5 digest of
// the named module.
func workspaceDigest(ctx context.Context, root string, name string) (string, error) {
	bucket, err := storageos.NewProvider(storageos.ProviderWithSymlinks()).NewReadWriteBucket(root, storageos.ReadWriteBucketWithSymlinksIfSupported())
	if err != nil {
		return "", err
	}
	targeting, err := buftarget.NewBucketTargeting(ctx, bufx.Logger, bucket, ".", nil, nil, buftarget.TerminateAtControllingWorkspace)
	if err != nil {
		return "", err
	}
	ws, err := bufworkspace.NewWorkspaceProvider(bufx.Logger, bufmodule.NopGraphProvider, bufmodule.NopModuleDataProvider, bufmodule.NopCommitProvider, bufplugin.NopPluginKeyProvider).
		GetWorkspaceForBucket(ctx, bucket, targeting)
	if err != nil {
		return "", err
	}
	for _, m := range ws.Modules() {
		if m.FullName() != nil && m.FullName().String() == name {
			d, err := m.Digest(bufmodule.DigestTypeB5)
			if err != nil {
				return "", err
			}
			return d.String(), nil
		}
	}
	return "", fmt.Errorf("module %s not in the workspace", name)
}

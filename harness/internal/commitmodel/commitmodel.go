// Package commitmodel binds specs/cache/CommitCache.tla (C09, second part) to the real commit store and the
// caching commit provider: every transition of the state graph is replayed from its materialised pre-state.
package commitmodel

import (
	"context"
	"errors"
	"fmt"
	"os"
	"path/filepath"
	"strings"
	"sync"
	"time"

	"github.com/bufbuild/buf/private/bufpkg/bufmodule"
	"github.com/bufbuild/buf/private/bufpkg/bufmodule/bufmodulecache"
	"github.com/bufbuild/buf/private/bufpkg/bufmodule/bufmodulestore"
	"github.com/bufbuild/buf/private/bufpkg/bufparse"
	"github.com/bufbuild/buf/private/pkg/storage"
	"github.com/bufbuild/buf/private/pkg/storage/storageos"
	"github.com/bufbuild/buf/private/pkg/uuidutil"
	"github.com/bufbuild/verifharness/internal/bufx"
	"github.com/bufbuild/verifharness/internal/reg"
	"github.com/google/uuid"
)

func init() { reg.Register("commit-replay", run) }

type opRec struct {
	Op            string   `json:"op"`
	Key           string   `json:"key"`
	To            string   `json:"to"`
	Kind          string   `json:"kind"`
	Keys          []string `json:"keys"`
	Fails         bool     `json:"fails"`
	DelegateFails bool     `json:"delegateFails"`
	PutFails      bool     `json:"putFails"`
	Result        any      `json:"result"`
}
type edge struct {
	From map[string]string `json:"from"`
	Op   opRec             `json:"op"`
	To   map[string]string `json:"to"`
}
type input struct {
	Edges   []edge `json:"edges"`
	Corrupt bool   `json:"corrupt"`
}

const registry = "buf.test"

var (
	commitIDs = map[string]uuid.UUID{
		"k1": uuid.MustParse("11111111-1111-4111-8111-111111111111"),
		"k2": uuid.MustParse("22222222-2222-4222-8222-222222222222"),
	}
	modules     = map[string]string{"k1": "alpha", "k2": "beta"}
	digestHex   = map[string]string{"k1": strings.Repeat("1a", 64), "k2": strings.Repeat("2b", 64)}
	otherHex    = strings.Repeat("9f", 64)
	createTime  = time.Date(2024, 1, 2, 3, 4, 5, 0, time.UTC)
	createTimeS = "2024-01-02T03:04:05Z"
)

func digestOf(k string) (bufmodule.Digest, error) { return bufmodule.ParseDigest("b5:" + digestHex[k]) }

func moduleKey(k string) (bufmodule.ModuleKey, error) {
	name, err := bufparse.NewFullName(registry, "acme", modules[k])
	if err != nil {
		return nil, err
	}
	return bufmodule.NewModuleKey(name, commitIDs[k], func() (bufmodule.Digest, error) { return digestOf(k) })
}

func commitKey(k string) (bufmodule.CommitKey, error) {
	return bufmodule.NewCommitKey(registry, commitIDs[k], bufmodule.DigestTypeB5)
}

func commitOf(k string) (bufmodule.Commit, error) {
	mk, err := moduleKey(k)
	if err != nil {
		return nil, err
	}
	return bufmodule.NewCommit(mk, func() (time.Time, error) { return createTime, nil }), nil
}

func filePath(k string) string {
	return filepath.Join("b5", registry, uuidutil.ToDashless(commitIDs[k])+".json")
}

// content is what a file in the given abstract state holds.
func content(k, state string) string {
	j := func(version, owner, module, digest string) string {
		var parts []string
		if version != "" {
			parts = append(parts, fmt.Sprintf(`"version":%q`, version))
		}
		if owner != "" {
			parts = append(parts, fmt.Sprintf(`"owner":%q`, owner))
		}
		parts = append(parts, fmt.Sprintf(`"module":%q`, module), fmt.Sprintf(`"create_time":%q`, createTimeS), fmt.Sprintf(`"digest":%q`, digest))
		return "{" + strings.Join(parts, ",") + "}"
	}
	good := "b5:" + digestHex[k]
	switch state {
	case "valid":
		return j("v1", "acme", modules[k], good)
	case "other_digest":
		return j("v1", "acme", modules[k], "b5:"+otherHex)
	case "corrupt":
		return `{"version":"v1","owner":`
	case "incomplete":
		return j("v1", "", modules[k], good)
	case "old_version":
		return j("v0", "acme", modules[k], good)
	case "bad_digest":
		return j("v1", "acme", modules[k], "b5:zz")
	case "wrong_digest_type":
		return j("v1", "acme", modules[k], "b4:"+digestHex[k])
	case "bad_name":
		return j("v1", "Acme Corp/..", modules[k], good)
	}
	return ""
}

func materialize(root string, st map[string]string) error {
	if err := os.RemoveAll(root); err != nil {
		return err
	}
	if err := os.MkdirAll(root, 0o755); err != nil {
		return err
	}
	for k, s := range st {
		if s == "absent" {
			continue
		}
		p := filepath.Join(root, filePath(k))
		if err := os.MkdirAll(filepath.Dir(p), 0o755); err != nil {
			return err
		}
		if err := os.WriteFile(p, []byte(content(k, s)), 0o644); err != nil {
			return err
		}
	}
	return nil
}

// project reads the abstract state back from the directory.
func project(root string, keys []string) (map[string]string, []string) {
	out := map[string]string{}
	known := map[string]bool{}
	for _, k := range keys {
		known[filePath(k)] = true
		data, err := os.ReadFile(filepath.Join(root, filePath(k)))
		if err != nil {
			out[k] = "absent"
			continue
		}
		out[k] = "unrecognised:" + string(data)
		for _, s := range []string{"valid", "other_digest", "corrupt", "incomplete", "old_version", "bad_digest", "wrong_digest_type", "bad_name"} {
			if string(data) == content(k, s) {
				out[k] = s
			}
		}
		if strings.HasPrefix(out[k], "unrecognised") {
			// a file written by the store itself: classify by what it says
			if strings.Contains(string(data), digestHex[k]) && strings.Contains(string(data), `"version":"v1"`) && strings.Contains(string(data), modules[k]) {
				out[k] = "valid"
			}
		}
	}
	var extra []string
	_ = filepath.WalkDir(root, func(p string, d os.DirEntry, err error) error {
		if err != nil || d.IsDir() {
			return nil
		}
		rel, _ := filepath.Rel(root, p)
		if !known[rel] {
			extra = append(extra, rel)
		}
		return nil
	})
	return out, extra
}

// failingPuts makes every Put of the wrapped bucket fail.
type failingPuts struct{ storage.ReadWriteBucket }

var errInjected = errors.New("injected put failure")

func (f failingPuts) Put(context.Context, string, ...storage.PutOption) (storage.WriteObjectCloser, error) {
	return nil, errInjected
}

type delegate struct {
	fails bool
	mu    sync.Mutex
	asked [][]string
}

var errDelegate = errors.New("delegate failure")

func (d *delegate) GetCommitsForModuleKeys(_ context.Context, mks []bufmodule.ModuleKey) ([]bufmodule.Commit, error) {
	var ks []string
	for _, mk := range mks {
		for k, id := range commitIDs {
			if id == mk.CommitID() {
				ks = append(ks, k)
			}
		}
	}
	return d.answer(ks)
}

func (d *delegate) GetCommitsForCommitKeys(_ context.Context, cks []bufmodule.CommitKey) ([]bufmodule.Commit, error) {
	var ks []string
	for _, ck := range cks {
		for k, id := range commitIDs {
			if id == ck.CommitID() {
				ks = append(ks, k)
			}
		}
	}
	return d.answer(ks)
}

func (d *delegate) answer(ks []string) ([]bufmodule.Commit, error) {
	d.mu.Lock()
	d.asked = append(d.asked, ks)
	d.mu.Unlock()
	if d.fails {
		return nil, errDelegate
	}
	var out []bufmodule.Commit
	for _, k := range ks {
		c, err := commitOf(k)
		if err != nil {
			return nil, err
		}
		out = append(out, c)
	}
	return out, nil
}

// classify maps a returned commit to the outcome names of the specification.
func classify(c bufmodule.Commit, k string) string {
	if c == nil {
		return "nil-commit"
	}
	if c.ModuleKey() == nil {
		return "commit-without-module-key"
	}
	if c.ModuleKey().CommitID() != commitIDs[k] {
		return "commit-of-another-key"
	}
	d, err := c.ModuleKey().Digest()
	var mismatch *bufmodule.DigestMismatchError
	switch {
	case errors.As(err, &mismatch):
		return "hit-digest-mismatch"
	case err != nil:
		return "digest-error:" + err.Error()
	case d == nil:
		return "nil-digest"
	}
	if _, err := c.CreateTime(); err != nil {
		return "create-time-error:" + err.Error()
	}
	return "hit"
}

func sameMap(a, b map[string]string) bool {
	if len(a) != len(b) {
		return false
	}
	for k, v := range a {
		if b[k] != v {
			return false
		}
	}
	return true
}

func run(in []byte) (*reg.Result, error) {
	var inp input
	if err := reg.Decode(in, &inp); err != nil {
		return nil, err
	}
	ctx := context.Background()
	res := &reg.Result{}
	edges := inp.Edges
	if inp.Corrupt {
		for _, e := range edges {
			if e.Op.Op == "get" && e.From["k1"] == "valid" && len(e.Op.Keys) == 1 && e.Op.Keys[0] == "k1" {
				e.Op.Result = []any{"miss"}
				edges = []edge{e}
				break
			}
		}
	}
	work := filepath.Join(reg.WorkDir(), "commits")
	defer os.RemoveAll(work)
	var wg sync.WaitGroup
	ch := make(chan int)
	for wk := 0; wk < 16; wk++ {
		wg.Add(1)
		go func(wk int) {
			defer wg.Done()
			root := filepath.Join(work, fmt.Sprintf("w%d", wk))
			for i := range ch {
				e := edges[i]
				if e.Op.Op == "tamper" {
					// tampering is how states are materialised; nothing of the code runs
					continue
				}
				var keys []string
				for k := range e.From {
					keys = append(keys, k)
				}
				if err := materialize(root, e.From); err != nil {
					res.Violate("harness/materialize", nil, "%v", err)
					continue
				}
				base, err := storageos.NewProvider().NewReadWriteBucket(root)
				if err != nil {
					res.Violate("harness/bucket", nil, "%v", err)
					continue
				}
				var bucket storage.ReadWriteBucket = base
				if (e.Op.Op == "put" && e.Op.Fails) || (e.Op.Op == "provide" && e.Op.PutFails) {
					bucket = failingPuts{base}
				}
				store := bufmodulestore.NewCommitStore(bufx.Logger, bucket)
				sig := func(what string) string {
					from := fmt.Sprintf("k1=%s,k2=%s", e.From["k1"], e.From["k2"])
					return fmt.Sprintf("%s/%s/%s/keys=%s/%s", what, e.Op.Op, e.Op.Kind, strings.Join(e.Op.Keys, "+")+e.Op.Key, from)
				}
				info := map[string]any{"from": e.From, "op": e.Op, "to": e.To}
				var got []string
				func() {
					defer func() {
						if r := recover(); r != nil {
							got = []string{fmt.Sprintf("panic: %v", r)}
						}
					}()
					switch e.Op.Op {
					case "put":
						c, err := commitOf(e.Op.Key)
						if err != nil {
							got = []string{"harness:" + err.Error()}
							return
						}
						if err := store.PutCommits(ctx, []bufmodule.Commit{c}); err != nil {
							got = []string{"error"}
						} else {
							got = []string{"ok"}
						}
					case "get", "provide":
						var commits []bufmodule.Commit
						var missing []string
						var err error
						var provider bufmodule.CommitProvider
						if e.Op.Op == "provide" {
							provider = bufmodulecache.NewCommitProvider(bufx.Logger, &delegate{fails: e.Op.DelegateFails}, store)
						}
						if e.Op.Kind == "module-key" {
							var mks []bufmodule.ModuleKey
							for _, k := range e.Op.Keys {
								mk, kerr := moduleKey(k)
								if kerr != nil {
									got = []string{"harness:" + kerr.Error()}
									return
								}
								mks = append(mks, mk)
							}
							if provider != nil {
								commits, err = provider.GetCommitsForModuleKeys(ctx, mks)
							} else {
								var nf []bufmodule.ModuleKey
								commits, nf, err = store.GetCommitsForModuleKeys(ctx, mks)
								for _, mk := range nf {
									for k, id := range commitIDs {
										if id == mk.CommitID() {
											missing = append(missing, k)
										}
									}
								}
							}
						} else {
							var cks []bufmodule.CommitKey
							for _, k := range e.Op.Keys {
								ck, kerr := commitKey(k)
								if kerr != nil {
									got = []string{"harness:" + kerr.Error()}
									return
								}
								cks = append(cks, ck)
							}
							if provider != nil {
								commits, err = provider.GetCommitsForCommitKeys(ctx, cks)
							} else {
								var nf []bufmodule.CommitKey
								commits, nf, err = store.GetCommitsForCommitKeys(ctx, cks)
								for _, ck := range nf {
									for k, id := range commitIDs {
										if id == ck.CommitID() {
											missing = append(missing, k)
										}
									}
								}
							}
						}
						if err != nil {
							got = []string{"error"}
							return
						}
						if provider != nil {
							// the provider answers in the order of the request
							if len(commits) != len(e.Op.Keys) {
								got = []string{fmt.Sprintf("%d commits for %d keys", len(commits), len(e.Op.Keys))}
								return
							}
							for i, k := range e.Op.Keys {
								got = append(got, classify(commits[i], k))
							}
							return
						}
						// the store answers with found and not-found lists, each in request order
						ci := 0
						for _, k := range e.Op.Keys {
							isMissing := false
							for _, m := range missing {
								if m == k {
									isMissing = true
								}
							}
							if isMissing {
								got = append(got, "miss")
								continue
							}
							if ci >= len(commits) {
								got = append(got, "neither-found-nor-missing")
								continue
							}
							got = append(got, classify(commits[ci], k))
							ci++
						}
						if ci != len(commits) {
							got = append(got, fmt.Sprintf("%d extra commits", len(commits)-ci))
						}
					}
				}()
				var want []string
				switch r := e.Op.Result.(type) {
				case string:
					want = []string{r}
				case []any:
					for _, x := range r {
						want = append(want, fmt.Sprint(x))
					}
				}
				res.Count(1, 1)
				info["got"], info["want"] = got, want
				if strings.Join(got, ",") != strings.Join(want, ",") {
					res.Violate(sig("result"), info, "the store answered %v, the specification says %v", got, want)
				}
				post, extra := project(root, keys)
				info["post"] = post
				if !sameMap(post, e.To) {
					res.Violate(sig("post-state"), info, "after the step the store holds %v, the specification says %v", post, e.To)
				}
				if len(extra) > 0 {
					res.Violate(sig("leftover"), info, "files that belong to no entry were left behind: %v", extra)
				}
			}
		}(wk)
	}
	for i := range edges {
		ch <- i
	}
	close(ch)
	wg.Wait()
	return res, nil
}

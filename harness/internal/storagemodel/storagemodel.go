// Package storagemodel binds specs/storage/Storage.tla (C14) to the real bucket implementations.
//
// "storage-states": for every distinct state emitted by TLC the bases are materialised on the chosen
// bucket kinds, every view of the catalogue is constructed from the real combinators and every
// get/stat/walk query (in every equivalent spelling) is compared with the specification's answer.
// "storage-edges": every transition emitted by TLC is executed on the real buckets from its
// pre-state; the result of the call and the projected post-state are compared with the spec.
package storagemodel

import (
	"bytes"
	"context"
	"errors"
	"fmt"
	"io"
	"os"
	"path/filepath"
	"sort"
	"strings"
	"sync"

	"github.com/bufbuild/buf/private/pkg/storage"
	"github.com/bufbuild/buf/private/pkg/storage/storagearchive"
	"github.com/bufbuild/buf/private/pkg/storage/storagemem"
	"github.com/bufbuild/buf/private/pkg/storage/storageos"
	"github.com/bufbuild/verifharness/internal/reg"
)

func init() {
	reg.Register("storage-states", runStates)
	reg.Register("storage-edges", runEdges)
}

// ---------------------------------------------------------------- abstract values

// Obj is one object of an abstract state.
type Obj struct {
	P []string `json:"p"`
	C string   `json:"c"`
}

// State is the abstract content of the two bases.
type State map[string][]Obj

type getRes struct {
	R string `json:"r"`
	C string `json:"c"`
}
type walkRes struct {
	R     string     `json:"r"`
	Paths [][]string `json:"paths"`
}
type viewRec struct {
	Objs []Obj      `json:"objs"`
	Dup  [][]string `json:"dup"`
	Walk []struct {
		Pre []string `json:"pre"`
		Res walkRes  `json:"res"`
	} `json:"walk"`
	Get []struct {
		Q   []string `json:"q"`
		Res getRes   `json:"res"`
	} `json:"get"`
}
type stateRec struct {
	State State              `json:"state"`
	Views map[string]viewRec `json:"views"`
}
type spell struct {
	Q        []string   `json:"q"`
	Variants [][]string `json:"variants"`
}
type op struct {
	Op      string   `json:"op"`
	Via     string   `json:"via"`
	From    string   `json:"from"`
	Path    []string `json:"path"`
	Content string   `json:"content"`
	Atomic  bool     `json:"atomic"`
	Res     string   `json:"res"`
	Count   int      `json:"count"`
}
type edge struct {
	From State `json:"from"`
	Op   op    `json:"op"`
	To   State `json:"to"`
}

// Large is bigger than io.Copy's buffer so that multi-chunk paths are exercised.
var contents = map[string][]byte{
	"E": {},
	"S": []byte("small-content"),
	"L": bytes.Repeat([]byte("0123456789abcdef"), 70000/16),
}

func contentID(b []byte) string {
	for k, v := range contents {
		if bytes.Equal(v, b) {
			return k
		}
	}
	if len(b) > 40 {
		return fmt.Sprintf("?len=%d:%q...", len(b), b[:40])
	}
	return fmt.Sprintf("?%q", b)
}

func join(p []string) string { return strings.Join(p, "/") }

// ---------------------------------------------------------------- concrete worlds

// World holds the two real base buckets and the views built over them.
type World struct {
	Kinds [2]string
	Dir   string
	Bases [2]storage.ReadWriteBucket
	cur   State
	loads int
}

// NewWorld creates the bases (kind "os" or "mem") under dir.
func NewWorld(kinds [2]string, dir string) (*World, error) {
	w := &World{Kinds: kinds, Dir: dir}
	for i := 0; i < 2; i++ {
		if err := w.resetBase(i); err != nil {
			return nil, err
		}
	}
	return w, nil
}

// roBucket: a read-only bucket where a read-write one is expected (states are only observed through it).
type roBucket struct{ storage.ReadBucket }

func (roBucket) Put(context.Context, string, ...storage.PutOption) (storage.WriteObjectCloser, error) {
	return nil, errors.New("read-only base")
}
func (roBucket) Delete(context.Context, string) error    { return errors.New("read-only base") }
func (roBucket) DeleteAll(context.Context, string) error { return errors.New("read-only base") }
func (roBucket) SetExternalAndLocalPathsSupported() bool { return false }

// respell gives a valid but not normalised spelling of a path (the keys of a map handed to storagemem.NewReadBucket).
func respell(p string) string {
	if i := strings.Index(p, "/"); i > 0 {
		return p[:i] + "//" + p[i+1:]
	}
	return "./" + p
}

func (w *World) resetBase(i int) error {
	switch w.Kinds[i] {
	case "memro":
		b, err := storagemem.NewReadBucket(map[string][]byte{})
		if err != nil {
			return err
		}
		w.Bases[i] = roBucket{b}
	case "mem":
		w.Bases[i] = storagemem.NewReadWriteBucket()
	case "os":
		d := filepath.Join(w.Dir, fmt.Sprintf("base%d", i+1))
		if err := os.RemoveAll(d); err != nil {
			return err
		}
		if err := os.MkdirAll(d, 0o755); err != nil {
			return err
		}
		b, err := storageos.NewProvider().NewReadWriteBucket(d)
		if err != nil {
			return err
		}
		w.Bases[i] = b
	default:
		return fmt.Errorf("unknown kind %q", w.Kinds[i])
	}
	return nil
}

// Load makes the bases hold exactly the state. When the world already holds a known state only
// the difference is applied (directly on the directory for disk bases, so that the bucket under
// test is not what prepares its own pre-state); every 64th load rebuilds from scratch.
func (w *World) Load(ctx context.Context, s State) error {
	w.loads++
	fresh := w.cur == nil || w.loads%64 == 0
	for i := 0; i < 2; i++ {
		key := fmt.Sprint(i + 1)
		want := map[string]string{}
		for _, o := range s[key] {
			want[join(o.P)] = o.C
		}
		have := map[string]string{}
		if w.Kinds[i] == "memro" {
			// an immutable memory bucket built from a map whose keys are spelled in a non-normalised way
			m := map[string][]byte{}
			for p, c := range want {
				m[respell(p)] = contents[c]
			}
			b, err := storagemem.NewReadBucket(m)
			if err != nil {
				return err
			}
			w.Bases[i] = roBucket{b}
			continue
		}
		if fresh {
			if err := w.resetBase(i); err != nil {
				return err
			}
		} else {
			for _, o := range w.cur[key] {
				have[join(o.P)] = o.C
			}
		}
		for p := range have {
			if _, ok := want[p]; !ok {
				if w.Kinds[i] == "os" {
					if err := os.Remove(filepath.Join(w.Dir, fmt.Sprintf("base%d", i+1), filepath.FromSlash(p))); err != nil {
						return err
					}
				} else if err := w.Bases[i].Delete(ctx, p); err != nil {
					return err
				}
			}
		}
		for p, c := range want {
			if have[p] == c {
				continue
			}
			if w.Kinds[i] == "os" {
				full := filepath.Join(w.Dir, fmt.Sprintf("base%d", i+1), filepath.FromSlash(p))
				if err := os.MkdirAll(filepath.Dir(full), 0o755); err != nil {
					return err
				}
				if err := os.WriteFile(full, contents[c], 0o644); err != nil {
					return err
				}
			} else if err := storage.PutPath(ctx, w.Bases[i], p, contents[c]); err != nil {
				return err
			}
		}
	}
	w.cur = s
	return nil
}

// Project reads the bases back into an abstract state (by walking the whole base).
func (w *World) Project(ctx context.Context) (State, error) {
	out := State{}
	for i := 0; i < 2; i++ {
		objs := []Obj{}
		if w.Kinds[i] == "os" {
			// read the directory itself, not through the bucket under test
			root := filepath.Join(w.Dir, fmt.Sprintf("base%d", i+1))
			err := filepath.Walk(root, func(p string, info os.FileInfo, err error) error {
				if err != nil {
					if os.IsNotExist(err) {
						return nil
					}
					return err
				}
				if info.Mode().IsRegular() {
					data, err := os.ReadFile(p)
					if err != nil {
						return err
					}
					rel, _ := filepath.Rel(root, p)
					objs = append(objs, Obj{P: strings.Split(filepath.ToSlash(rel), "/"), C: contentID(data)})
				}
				return nil
			})
			if err != nil {
				return nil, err
			}
		} else {
			err := w.Bases[i].Walk(ctx, "", func(oi storage.ObjectInfo) error {
				data, err := storage.ReadPath(ctx, w.Bases[i], oi.Path())
				if err != nil {
					return err
				}
				objs = append(objs, Obj{P: strings.Split(oi.Path(), "/"), C: contentID(data)})
				return nil
			})
			if err != nil {
				return nil, err
			}
		}
		out[fmt.Sprint(i+1)] = objs
	}
	w.cur = out
	return out, nil
}

func canon(s State) string {
	var parts []string
	for _, b := range []string{"1", "2"} {
		var l []string
		for _, o := range s[b] {
			l = append(l, join(o.P)+"="+o.C)
		}
		sort.Strings(l)
		parts = append(parts, b+":{"+strings.Join(l, ",")+"}")
	}
	return strings.Join(parts, " ")
}

func ext(x string) storage.Matcher { return storage.MatchPathExt(x) }

// ReadView builds the named view of the catalogue (mirror of Catalogue in Storage.tla).
func (w *World) ReadView(name string) (storage.ReadBucket, error) {
	b1, b2 := w.Bases[0], w.Bases[1]
	switch name {
	case "b1":
		return b1, nil
	case "b2":
		return b2, nil
	case "map_b":
		return storage.MapReadBucket(b1, storage.MapOnPrefix("b")), nil
	case "map_a":
		return storage.MapReadBucket(b1, storage.MapOnPrefix("a")), nil
	case "map_b_c":
		return storage.MapReadBucket(storage.MapReadBucket(b1, storage.MapOnPrefix("b")), storage.MapOnPrefix("c")), nil
	case "chain_b_c":
		return storage.MapReadBucket(b1, storage.MapOnPrefix("b"), storage.MapOnPrefix("c")), nil
	case "map_bc":
		return storage.MapReadBucket(b1, storage.MapOnPrefix("b/c")), nil
	case "f_proto":
		return storage.FilterReadBucket(b1, ext(".proto")), nil
	case "f_in_a":
		return storage.FilterReadBucket(b1, storage.MatchPathContained("a")), nil
	case "f_not_b":
		return storage.FilterReadBucket(b1, storage.MatchNot(storage.MatchPathEqualOrContained("b"))), nil
	case "f_in_file":
		return storage.FilterReadBucket(b1, storage.MatchPathContained("a.proto")), nil
	case "f_not_in_file":
		return storage.FilterReadBucket(b1, storage.MatchNot(storage.MatchPathContained("a.proto"))), nil
	case "multi":
		return storage.MultiReadBucket(b1, b2), nil
	case "multi_rev":
		return storage.MultiReadBucket(b2, b1), nil
	case "overlay":
		return storage.OverlayReadBucket(b1, b2), nil
	case "overlay_r":
		return storage.OverlayReadBucket(b2, b1), nil
	case "multi_map":
		return storage.MultiReadBucket(storage.MapReadBucket(b1, storage.MapOnPrefix("a")), storage.MapReadBucket(b2, storage.MapOnPrefix("a"))), nil
	case "map_multi":
		return storage.MapReadBucket(storage.MultiReadBucket(b1, b2), storage.MapOnPrefix("a")), nil
	case "f_multi":
		return storage.FilterReadBucket(storage.OverlayReadBucket(b2, b1), ext(".proto")), nil
	case "ov_multi":
		return storage.OverlayReadBucket(storage.MultiReadBucket(b1, b2), storage.MapReadBucket(b1, storage.MapOnPrefix("b"))), nil
	case "multi_ov":
		return storage.MultiReadBucket(storage.OverlayReadBucket(b1, b2), storage.MapReadBucket(b2, storage.MapOnPrefix("a"))), nil
	case "strip":
		return storage.StripReadBucketExternalPaths(b1), nil
	case "strip_map":
		return storage.StripReadBucketExternalPaths(storage.MapReadBucket(b1, storage.MapOnPrefix("b"))), nil
	}
	return nil, fmt.Errorf("unknown view %q", name)
}

// WriteView builds the named writable view (mirror of Writable in Storage.tla).
func (w *World) WriteView(name string) (storage.ReadWriteBucket, error) {
	b1, b2 := w.Bases[0], w.Bases[1]
	switch name {
	case "b1":
		return b1, nil
	case "b2":
		return b2, nil
	case "map_b":
		return storage.MapReadWriteBucket(b1, storage.MapOnPrefix("b")), nil
	case "map_a":
		return storage.MapReadWriteBucket(b1, storage.MapOnPrefix("a")), nil
	case "map_b_c":
		return storage.MapReadWriteBucket(storage.MapReadWriteBucket(b1, storage.MapOnPrefix("b")), storage.MapOnPrefix("c")), nil
	case "chain_b_c":
		return storage.MapReadWriteBucket(b1, storage.MapOnPrefix("b"), storage.MapOnPrefix("c")), nil
	}
	return nil, fmt.Errorf("unknown writable view %q", name)
}

// ErrClass maps an error to the classes the specification distinguishes.
func ErrClass(err error) string {
	switch {
	case err == nil:
		return "ok"
	case storage.IsExistsMultipleLocations(err):
		return "multi"
	case storage.IsNotExist(err):
		return "notexist"
	default:
		return "other:" + err.Error()
	}
}

// ---------------------------------------------------------------- observation of one state

type spellTable map[string][][]string

func (t spellTable) variants(q []string) [][]string {
	if v, ok := t[join(q)]; ok {
		return v
	}
	return [][]string{q}
}

func cleanEq(reported string, q []string) bool {
	c := filepath.ToSlash(filepath.Clean(reported))
	want := join(q)
	if want == "" {
		want = "."
	}
	return c == want
}

func observe(ctx context.Context, w *World, rec stateRec, spells spellTable, queries [][]string, res *reg.Result, full bool, kindTag string) error {
	for name, vr := range rec.Views {
		rb, err := w.ReadView(name)
		if err != nil {
			return err
		}
		caseInfo := func(extra map[string]any) map[string]any {
			m := map[string]any{"state": canon(rec.State), "view": name, "kinds": kindTag}
			for k, v := range extra {
				m[k] = v
			}
			return m
		}
		expGet := map[string]getRes{}
		for _, g := range vr.Get {
			expGet[join(g.Q)] = g.Res
		}
		expWalk := map[string]walkRes{}
		for _, wk := range vr.Walk {
			expWalk[join(wk.Pre)] = wk.Res
		}
		qs := queries
		if !full {
			qs = [][]string{{}}
		}
		for _, q := range qs {
			vars := spells.variants(q)
			if !full {
				vars = vars[:1]
			}
			for _, raw := range vars {
				rawS := join(raw)
				// walk
				ew, ok := expWalk[join(q)]
				if !ok {
					ew = walkRes{R: "ok"}
				}
				var got []string
				werr := rb.Walk(ctx, rawS, func(oi storage.ObjectInfo) error {
					got = append(got, oi.Path())
					return nil
				})
				res.Count(1, 0)
				sig := fmt.Sprintf("walk/%s/%s/pre=%s", kindTag, name, join(q))
				if ew.R == "multi" {
					if ErrClass(werr) != "multi" {
						res.Violate(sig, caseInfo(map[string]any{"raw": rawS}), "walk(%q) on view %s: spec expects a duplicate-path error, got %s with %v", rawS, name, ErrClass(werr), got)
					}
				} else {
					var want []string
					for _, p := range ew.Paths {
						want = append(want, join(p))
					}
					sort.Strings(want)
					gs := append([]string{}, got...)
					sort.Strings(gs)
					if werr != nil || strings.Join(gs, "|") != strings.Join(want, "|") {
						res.Violate(sig, caseInfo(map[string]any{"raw": rawS}), "walk(%q) on view %s: spec expects exactly %v (each once), got %v err=%v", rawS, name, want, got, werr)
					}
				}
				if len(q) == 0 {
					continue
				}
				// get + stat
				eg, ok := expGet[join(q)]
				if !ok {
					eg = getRes{R: "notexist"}
				}
				sig = fmt.Sprintf("get/%s/%s/q=%s", kindTag, name, join(q))
				r, gerr := rb.Get(ctx, rawS)
				var data []byte
				var rpath string
				if gerr == nil {
					data, gerr = io.ReadAll(r)
					rpath = r.Path()
					_ = r.Close()
				}
				res.Count(1, 0)
				switch eg.R {
				case "ok":
					if gerr != nil || contentID(data) != eg.C || !cleanEq(rpath, q) {
						res.Violate(sig, caseInfo(map[string]any{"raw": rawS}), "get(%q) on view %s: spec expects content %s at %s, got %s path=%q err=%v", rawS, name, eg.C, join(q), contentID(data), rpath, gerr)
					}
				default:
					if ErrClass(gerr) != eg.R {
						res.Violate(sig, caseInfo(map[string]any{"raw": rawS}), "get(%q) on view %s: spec expects %s, got %s (content %s)", rawS, name, eg.R, ErrClass(gerr), contentID(data))
					}
				}
				oi, serr := rb.Stat(ctx, rawS)
				res.Count(1, 0)
				sig = fmt.Sprintf("stat/%s/%s/q=%s", kindTag, name, join(q))
				switch eg.R {
				case "ok":
					if serr != nil || !cleanEq(oi.Path(), q) {
						res.Violate(sig, caseInfo(map[string]any{"raw": rawS}), "stat(%q) on view %s: spec expects an object at %s, got err=%v", rawS, name, join(q), serr)
					}
				default:
					if ErrClass(serr) != eg.R {
						res.Violate(sig, caseInfo(map[string]any{"raw": rawS}), "stat(%q) on view %s: spec expects %s, got %s", rawS, name, eg.R, ErrClass(serr))
					}
				}
			}
		}
		if !full {
			continue
		}
		// the view as a whole: Copy into a fresh memory bucket, tar and zip round trips, AllPaths
		wantObjs := map[string]string{}
		for _, o := range vr.Objs {
			wantObjs[join(o.P)] = o.C
		}
		hasDup := len(vr.Dup) > 0
		check := func(what string, got map[string]string, err error) {
			sig := fmt.Sprintf("%s/%s/%s", what, kindTag, name)
			if hasDup {
				if ErrClass(err) != "multi" {
					res.Violate(sig, caseInfo(nil), "%s of view %s: spec expects a duplicate-path error, got %s", what, name, ErrClass(err))
				}
				return
			}
			if err != nil || fmt.Sprint(got) != fmt.Sprint(wantObjs) {
				res.Violate(sig, caseInfo(nil), "%s of view %s: spec expects %v, got %v err=%v", what, name, wantObjs, got, err)
			}
		}
		dump := func(b storage.ReadBucket) (map[string]string, error) {
			out := map[string]string{}
			err := b.Walk(ctx, "", func(oi storage.ObjectInfo) error {
				d, err := storage.ReadPath(ctx, b, oi.Path())
				if err != nil {
					return err
				}
				out[oi.Path()] = contentID(d)
				return nil
			})
			return out, err
		}
		{
			dst := storagemem.NewReadWriteBucket()
			n, err := storage.Copy(ctx, rb, dst)
			got, derr := dump(dst)
			if err == nil {
				err = derr
			}
			if err == nil && !hasDup && n != len(wantObjs) {
				err = fmt.Errorf("Copy returned count %d, %d objects expected", n, len(wantObjs))
			}
			check("copy", got, err)
			res.Count(1, 0)
		}
		{
			var buf bytes.Buffer
			err := storagearchive.Tar(ctx, rb, &buf)
			dst := storagemem.NewReadWriteBucket()
			if err == nil {
				err = storagearchive.Untar(ctx, &buf, dst)
			}
			got, derr := dump(dst)
			if err == nil {
				err = derr
			}
			check("tar-roundtrip", got, err)
			res.Count(1, 0)
		}
		{
			var buf bytes.Buffer
			err := storagearchive.Zip(ctx, rb, &buf, true)
			dst := storagemem.NewReadWriteBucket()
			if err == nil {
				err = storagearchive.Unzip(ctx, bytes.NewReader(buf.Bytes()), int64(buf.Len()), dst)
			}
			got, derr := dump(dst)
			if err == nil {
				err = derr
			}
			check("zip-roundtrip", got, err)
			res.Count(1, 0)
		}
		{
			paths, err := storage.AllPaths(ctx, rb, "")
			got := map[string]string{}
			for _, p := range paths {
				got[p] = wantObjs[p]
				if _, ok := wantObjs[p]; !ok {
					got[p] = "?"
				}
			}
			if err == nil && !sort.StringsAreSorted(paths) {
				err = errors.New("AllPaths not sorted")
			}
			check("allpaths", got, err)
			res.Count(1, 0)
		}
	}
	return nil
}

// ---------------------------------------------------------------- sub-commands

type statesInput struct {
	States []stateRec  `json:"states"`
	Spells []spell     `json:"spells"`
	Kinds  [][2]string `json:"kinds"`
	// Corrupt: negative control, alter one expectation
	Corrupt bool `json:"corrupt"`
}

func spellsOf(sp []spell) (spellTable, [][]string) {
	t := spellTable{}
	var qs [][]string
	for _, s := range sp {
		t[join(s.Q)] = s.Variants
		qs = append(qs, s.Q)
	}
	sort.Slice(qs, func(i, j int) bool { return join(qs[i]) < join(qs[j]) })
	return t, qs
}

func parallel(n int, f func(worker int, dir string) error) error {
	work := reg.WorkDir()
	var wg sync.WaitGroup
	errs := make(chan error, n)
	for i := 0; i < n; i++ {
		wg.Add(1)
		go func(i int) {
			defer wg.Done()
			dir := filepath.Join(work, fmt.Sprintf("sm-%d", i))
			_ = os.MkdirAll(dir, 0o755)
			defer os.RemoveAll(dir)
			if err := f(i, dir); err != nil {
				errs <- err
			}
		}(i)
	}
	wg.Wait()
	close(errs)
	for err := range errs {
		return err
	}
	return nil
}

func runStates(in []byte) (*reg.Result, error) {
	var inp statesInput
	if err := reg.Decode(in, &inp); err != nil {
		return nil, err
	}
	spells, queries := spellsOf(inp.Spells)
	if inp.Corrupt && len(inp.States) > 0 {
		// claim that view b1 of a non-empty state holds nothing
		for i := range inp.States {
			if len(inp.States[i].State["1"]) > 0 {
				vr := inp.States[i].Views["b1"]
				vr.Objs, vr.Walk, vr.Get = nil, nil, nil
				inp.States[i].Views["b1"] = vr
				inp.States = inp.States[i : i+1]
				break
			}
		}
	}
	res := &reg.Result{}
	ctx := context.Background()
	const workers = 16
	err := parallel(workers, func(wk int, dir string) error {
		for _, kinds := range inp.Kinds {
			w, err := NewWorld(kinds, dir)
			if err != nil {
				return err
			}
			tag := kinds[0] + "+" + kinds[1]
			for i := wk; i < len(inp.States); i += workers {
				if err := w.Load(ctx, inp.States[i].State); err != nil {
					return err
				}
				if err := observe(ctx, w, inp.States[i], spells, queries, res, true, tag); err != nil {
					return err
				}
			}
		}
		return nil
	})
	if err != nil {
		return nil, err
	}
	res.Distinct = len(inp.States)
	for i := 0; i < len(inp.States) && i < 2; i++ {
		res.Sample(map[string]any{"state": canon(inp.States[i].State), "views": len(inp.States[i].Views), "queries": len(queries)})
	}
	return res, nil
}

type edgesInput struct {
	Edges   []edge      `json:"edges"`
	States  []stateRec  `json:"states"`
	Spells  []spell     `json:"spells"`
	Kinds   [][2]string `json:"kinds"`
	Corrupt bool        `json:"corrupt"`
}

// Apply executes one specification transition on the world and returns the result class.
func Apply(ctx context.Context, w *World, o op, raw string) (string, int, error) {
	switch o.Op {
	case "put":
		wb, err := w.WriteView(o.Via)
		if err != nil {
			return "", 0, err
		}
		var opts []storage.PutOption
		if o.Atomic {
			opts = append(opts, storage.PutWithAtomic())
		}
		return ErrClass(storage.PutPath(ctx, wb, raw, contents[o.Content], opts...)), 0, nil
	case "delete":
		wb, err := w.WriteView(o.Via)
		if err != nil {
			return "", 0, err
		}
		return ErrClass(wb.Delete(ctx, raw)), 0, nil
	case "deleteall":
		wb, err := w.WriteView(o.Via)
		if err != nil {
			return "", 0, err
		}
		return ErrClass(wb.DeleteAll(ctx, raw)), 0, nil
	case "copy":
		rb, err := w.ReadView(o.From)
		if err != nil {
			return "", 0, err
		}
		wb, err := w.WriteView(o.Via)
		if err != nil {
			return "", 0, err
		}
		var opts []storage.CopyOption
		if o.Atomic {
			opts = append(opts, storage.CopyWithAtomic())
		}
		n, cerr := storage.Copy(ctx, rb, wb, opts...)
		return ErrClass(cerr), n, nil
	}
	return "", 0, fmt.Errorf("unknown op %q", o.Op)
}

func runEdges(in []byte) (*reg.Result, error) {
	var inp edgesInput
	if err := reg.Decode(in, &inp); err != nil {
		return nil, err
	}
	spells, queries := spellsOf(inp.Spells)
	byState := map[string]stateRec{}
	for _, s := range inp.States {
		byState[canon(s.State)] = s
	}
	if inp.Corrupt {
		// negative control: claim that a state-changing put changes nothing
		for i := range inp.Edges {
			if inp.Edges[i].Op.Op == "put" && canon(inp.Edges[i].From) != canon(inp.Edges[i].To) {
				inp.Edges[i].To = inp.Edges[i].From
				inp.Edges = inp.Edges[i : i+1]
				break
			}
		}
	}
	res := &reg.Result{}
	ctx := context.Background()
	const workers = 16
	distinct := map[string]bool{}
	var dmu sync.Mutex
	err := parallel(workers, func(wk int, dir string) error {
		for _, kinds := range inp.Kinds {
			w, err := NewWorld(kinds, dir)
			if err != nil {
				return err
			}
			tag := kinds[0] + "+" + kinds[1]
			for i := wk; i < len(inp.Edges); i += workers {
				e := inp.Edges[i]
				if err := w.Load(ctx, e.From); err != nil {
					return err
				}
				vars := spells.variants(e.Op.Path)
				raw := join(vars[(i/workers)%len(vars)])
				class, n, err := Apply(ctx, w, e.Op, raw)
				if err != nil {
					return err
				}
				res.Count(1, 0)
				opDesc := fmt.Sprintf("%s via %s path=%q content=%s atomic=%v from=%s", e.Op.Op, e.Op.Via, raw, e.Op.Content, e.Op.Atomic, e.Op.From)
				caseInfo := map[string]any{"from": canon(e.From), "op": e.Op, "raw": raw, "to": canon(e.To), "kinds": tag}
				sig := fmt.Sprintf("edge/%s/%s/%s/path=%s", tag, e.Op.Op, e.Op.Via+e.Op.From, join(e.Op.Path))
				if class != e.Op.Res {
					res.Violate(sig+"/result", caseInfo, "%s in state %s: spec expects result %s, got %s", opDesc, canon(e.From), e.Op.Res, class)
				}
				if e.Op.Op == "copy" && class == "ok" && n != e.Op.Count {
					res.Violate(sig+"/count", caseInfo, "%s in state %s: spec expects count %d, got %d", opDesc, canon(e.From), e.Op.Count, n)
				}
				got, err := w.Project(ctx)
				if err != nil {
					return err
				}
				if canon(got) != canon(e.To) {
					res.Violate(sig+"/state", caseInfo, "%s in state %s: spec expects post-state %s, real buckets hold %s", opDesc, canon(e.From), canon(e.To), canon(got))
				}
				if rec, ok := byState[canon(e.To)]; ok && !inp.Corrupt {
					// cheap observation of the post-state through every view (root walk only)
					if err := observe(ctx, w, rec, spells, queries, res, false, tag); err != nil {
						return err
					}
				}
				dmu.Lock()
				distinct[e.Op.Op+"|"+e.Op.Via+"|"+e.Op.From+"|"+join(e.Op.Path)+"|"+e.Op.Content+"|"+canon(e.From)] = true
				dmu.Unlock()
			}
		}
		return nil
	})
	if err != nil {
		return nil, err
	}
	res.Distinct = len(distinct)
	for i := 0; i < len(inp.Edges) && i < 3; i++ {
		res.Sample(map[string]any{"from": canon(inp.Edges[i].From), "op": inp.Edges[i].Op, "to": canon(inp.Edges[i].To)})
	}
	return res, nil
}

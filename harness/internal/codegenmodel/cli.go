package codegenmodel

// End-to-end stage of C17: the cases of CodeGenRequests.tla driven through `buf generate` with this binary as a
// recording, scripted plugin (the observation point the property names). The requests the plugin receives and
// the files on disk afterwards are compared with the specification.

import (
	"bytes"
	"encoding/json"
	"fmt"
	"io"
	"os"
	"os/exec"
	"path/filepath"
	"sort"
	"strings"
	"sync"
	"time"

	"github.com/bufbuild/verifharness/internal/reg"
	"google.golang.org/protobuf/encoding/protowire"
	"google.golang.org/protobuf/proto"
	"google.golang.org/protobuf/types/descriptorpb"
	"google.golang.org/protobuf/types/pluginpb"
)

func init() {
	reg.Register("codegen-cli", runCLI)
	reg.Register("codegen-cli-responses", runCLIResponses)
}

type pluginRecord struct {
	Name      string   `json:"name"`
	Generate  []string `json:"generate"`
	ProtoFile []string `json:"proto_file"`
	// Messages: the top-level messages each proto_file still declares (the descriptors, not only the names, must arrive intact)
	Messages map[string][]string `json:"messages"`
}

// PluginMain is the plugin side: it records the request and answers with one file per file to generate.
func PluginMain() {
	data, err := io.ReadAll(os.Stdin)
	if err != nil {
		fmt.Fprintln(os.Stderr, err)
		os.Exit(1)
	}
	req := &pluginpb.CodeGeneratorRequest{}
	if err := proto.Unmarshal(data, req); err != nil {
		fmt.Fprintln(os.Stderr, err)
		os.Exit(1)
	}
	params := map[string]string{}
	for _, kv := range strings.Split(req.GetParameter(), ",") {
		k, v, _ := strings.Cut(kv, "=")
		params[k] = v
	}
	rec := pluginRecord{Name: params["name"], Generate: req.GetFileToGenerate()}
	rec.Messages = map[string][]string{}
	for _, fd := range req.GetProtoFile() {
		rec.ProtoFile = append(rec.ProtoFile, fd.GetName())
		for _, m := range fd.GetMessageType() {
			rec.Messages[fd.GetName()] = append(rec.Messages[fd.GetName()], m.GetName())
		}
	}
	if dir := params["dump"]; dir != "" {
		// the descriptors this plugin received, for stages that judge their content
		b, _ := proto.Marshal(&descriptorpb.FileDescriptorSet{File: req.GetProtoFile()})
		_ = os.WriteFile(filepath.Join(dir, fmt.Sprintf("%s-%d.binpb", rec.Name, os.Getpid())), b, 0o644)
		b, _ = proto.Marshal(&descriptorpb.FileDescriptorSet{File: req.GetSourceFileDescriptors()})
		_ = os.WriteFile(filepath.Join(dir, fmt.Sprintf("%s-%d.source", rec.Name, os.Getpid())), b, 0o644)
	}
	if dir := params["log"]; dir != "" {
		b, _ := json.Marshal(rec)
		_ = os.WriteFile(filepath.Join(dir, fmt.Sprintf("%s-%d-%d.json", rec.Name, os.Getpid(), time.Now().UnixNano())), b, 0o644)
	}
	resp := &pluginpb.CodeGeneratorResponse{SupportedFeatures: proto.Uint64(uint64(pluginpb.CodeGeneratorResponse_FEATURE_PROTO3_OPTIONAL))}
	if script := params["script"]; script != "" {
		// scripted: answer with exactly the files the script lists for this plugin
		var all map[string][]fileRec
		b, err := os.ReadFile(script)
		if err == nil {
			err = json.Unmarshal(b, &all)
		}
		if err != nil {
			fmt.Fprintln(os.Stderr, err)
			os.Exit(1)
		}
		resp.File = response(all[rec.Name], rec.Name).File
		out, _ := proto.Marshal(resp)
		_, _ = os.Stdout.Write(out)
		return
	}
	for _, f := range req.GetFileToGenerate() {
		resp.File = append(resp.File, &pluginpb.CodeGeneratorResponse_File{
			Name:    proto.String(strings.TrimSuffix(f, ".proto") + "." + rec.Name + ".txt"),
			Content: proto.String("generated from " + f + " by " + rec.Name + "\n"),
		})
	}
	out, err := proto.Marshal(resp)
	if err != nil {
		fmt.Fprintln(os.Stderr, err)
		os.Exit(1)
	}
	_, _ = os.Stdout.Write(out)
}

type cliInput struct {
	Buf     string    `json:"buf"`
	Exe     string    `json:"exe"`
	Cases   []reqCase `json:"cases"`
	Corrupt bool      `json:"corrupt"`
}

func has(l []string, x string) bool {
	for _, y := range l {
		if y == x {
			return true
		}
	}
	return false
}

func listTree(root string) []string {
	var out []string
	_ = filepath.WalkDir(root, func(p string, d os.DirEntry, err error) error {
		if err != nil || d.IsDir() {
			return nil
		}
		rel, _ := filepath.Rel(root, p)
		out = append(out, filepath.ToSlash(rel))
		return nil
	})
	sort.Strings(out)
	return out
}

func runCLI(in []byte) (*reg.Result, error) {
	var inp cliInput
	if err := reg.Decode(in, &inp); err != nil {
		return nil, err
	}
	exe := inp.Exe
	if exe == "" {
		exe, _ = os.Executable()
	}
	res := &reg.Result{}
	work := filepath.Join(reg.WorkDir(), "codegen-cli")
	defer os.RemoveAll(work)
	var wg sync.WaitGroup
	ch := make(chan int)
	var emu sync.Mutex
	var firstErr error
	for wk := 0; wk < 16; wk++ {
		wg.Add(1)
		go func(wk int) {
			defer wg.Done()
			root := filepath.Join(work, fmt.Sprintf("w%d", wk))
			for i := range ch {
				c := inp.Cases[i]
				fail := func(err error) {
					emu.Lock()
					if firstErr == nil {
						firstErr = err
					}
					emu.Unlock()
				}
				if err := os.RemoveAll(root); err != nil {
					fail(err)
					continue
				}
				ws, logDir := filepath.Join(root, "ws"), filepath.Join(root, "log")
				_ = os.MkdirAll(logDir, 0o755)
				for _, f := range []string{"xa", "xb", "yc", "zd"} {
					p := filepath.Join(ws, filepath.FromSlash(pathOf[f]))
					_ = os.MkdirAll(filepath.Dir(p), 0o755)
					if err := os.WriteFile(p, []byte(renderFile(f, c.Imports[f])), 0o644); err != nil {
						fail(err)
					}
				}
				_ = os.WriteFile(filepath.Join(ws, "buf.yaml"), []byte("version: v2\n"), 0o644)
				// every fourth case: the template says the opposite and the command line decides (an explicit =false
				// overrides a true of the template just as =true overrides a false)
				viaFlags := i%4 == 3
				tmplImports, tmplWKT := c.IncludeImports, c.IncludeWKT
				if viaFlags {
					tmplImports, tmplWKT = true, true
					if c.IncludeImports && c.IncludeWKT {
						tmplImports, tmplWKT = false, false
					}
				}
				p1 := fmt.Sprintf("  - local: [%q, \"codegen-plugin\"]\n    out: out\n    opt:\n      - log=%s\n      - name=p1\n    strategy: %s\n    include_imports: %v\n",
					exe, logDir, c.Strategy, tmplImports)
				// (a key that is false is left out in every other case: unset means false, whatever include_imports says)
				if tmplWKT || i%2 == 0 {
					p1 += fmt.Sprintf("    include_wkt: %v\n", tmplWKT)
				}
				// a second plugin with a type filter of its own, before or after the observed one: it must not change
				// what the observed plugin receives
				first := c.Targets[0]
				p2 := fmt.Sprintf("  - local: [%q, \"codegen-plugin\"]\n    out: out2\n    opt:\n      - log=%s\n      - name=p2\n    types:\n      - p%s.M%s\n", exe, logDir, first, first)
				gen := "version: v2\nplugins:\n"
				switch i % 3 {
				case 0:
					gen += p1
				case 1:
					gen += p2 + p1
				case 2:
					gen += p1 + p2
				}
				_ = os.WriteFile(filepath.Join(ws, "buf.gen.yaml"), []byte(gen), 0o644)
				args := []string{"generate"}
				if viaFlags {
					args = append(args, fmt.Sprintf("--include-imports=%v", c.IncludeImports), fmt.Sprintf("--include-wkt=%v", c.IncludeWKT))
				}
				if len(c.Targets) < 4 {
					for _, t := range c.Targets {
						args = append(args, "--path", pathOf[t])
					}
				}
				before := listTree(ws)
				cmd := exec.Command(inp.Buf, args...)
				cmd.Dir = ws
				cmd.Env = append(os.Environ(), "HOME="+root, "BUF_CACHE_DIR="+filepath.Join(root, "cache"), "NO_COLOR=1")
				var stderr bytes.Buffer
				cmd.Stderr = &stderr
				runErr := cmd.Run()
				res.Count(1, 1)
				info := map[string]any{"imports": c.Imports, "targets": paths(c.Targets), "include_imports": c.IncludeImports, "include_wkt": c.IncludeWKT,
					"strategy": c.Strategy, "args": args, "stderr": stderr.String()}
				sig := fmt.Sprintf("strategy=%s/imports=%v/wkt=%v", c.Strategy, c.IncludeImports, c.IncludeWKT)
				if runErr != nil {
					res.Violate("cli/generate-failed/"+sig, info, "buf generate failed: %v %s", runErr, stderr.String())
					continue
				}
				// the requests the plugin saw, as a multiset
				var got []string
				count := map[string]int{}
				entries, _ := os.ReadDir(logDir)
				for _, e := range entries {
					b, err := os.ReadFile(filepath.Join(logDir, e.Name()))
					if err != nil {
						continue
					}
					var r pluginRecord
					if json.Unmarshal(b, &r) != nil || r.Name != "p1" {
						continue
					}
					got = append(got, strings.Join(r.Generate, ",")+" | "+strings.Join(r.ProtoFile, ","))
					for _, f := range []string{"xa", "xb", "yc", "zd"} {
						if ms, ok := r.Messages[pathOf[f]]; ok || has(r.ProtoFile, pathOf[f]) {
							if len(ms) != 2 || ms[0] != "M"+f || ms[1] != "N"+f {
								res.Violate("cli/descriptor-content/"+sig, info, "the unfiltered plugin received %s declaring the messages %v instead of [M%s N%s]", pathOf[f], ms, f, f)
							}
						}
					}
					for _, g := range r.Generate {
						count[g]++
					}
				}
				var want []string
				var wantFiles []string
				for _, r := range c.Requests {
					gen := paths(r.Generate)
					if inp.Corrupt && len(gen) > 0 {
						gen = gen[1:]
					}
					// a request without a file to generate is not sent
					if len(gen) == 0 {
						continue
					}
					want = append(want, strings.Join(gen, ",")+" | "+strings.Join(paths(r.ProtoFile), ","))
					for _, g := range gen {
						wantFiles = append(wantFiles, "out/"+strings.TrimSuffix(g, ".proto")+".p1.txt")
					}
				}
				sort.Strings(got)
				sort.Strings(want)
				info["requests_seen"], info["requests_expected"] = got, want
				if strings.Join(got, "\n") != strings.Join(want, "\n") {
					res.Violate("cli/requests/"+sig, info, "the plugin received %v, the specification expects %v", got, want)
				}
				for g, n := range count {
					if n != 1 {
						res.Violate("cli/generated-twice/"+sig, info, "%s was a file to generate in %d requests", g, n)
					}
				}
				// files on disk: exactly the generated ones, all beneath out/
				after := listTree(ws)
				isBefore := map[string]bool{}
				for _, f := range before {
					isBefore[f] = true
				}
				var created []string
				for _, f := range after {
					if !isBefore[f] && !strings.HasPrefix(f, "out2/") {
						created = append(created, f)
					}
				}
				sort.Strings(wantFiles)
				info["created"], info["created_expected"] = created, wantFiles
				if strings.Join(created, ",") != strings.Join(wantFiles, ",") {
					res.Violate("cli/files-on-disk/"+sig, info, "buf generate created %v, the specification expects %v", created, wantFiles)
				}
				if extra := listTree(root); len(extra) > 0 {
					for _, f := range extra {
						if !strings.HasPrefix(f, "ws/") && !strings.HasPrefix(f, "log/") && !strings.HasPrefix(f, "cache/") && !strings.HasPrefix(f, ".") {
							res.Violate("cli/outside-workspace/"+sig, info, "a file was written outside the workspace: %s", f)
						}
					}
				}
			}
		}(wk)
	}
	for i := range inp.Cases {
		ch <- i
	}
	close(ch)
	wg.Wait()
	if firstErr != nil {
		return nil, firstErr
	}
	return res, nil
}

type cliRespInput struct {
	Buf     string     `json:"buf"`
	Exe     string     `json:"exe"`
	Cases   []respCase `json:"cases"`
	Corrupt bool       `json:"corrupt"`
}

// runCLIResponses drives the cases of CodeGenResponses.tla through `buf generate` with two scripted plugins.
func runCLIResponses(in []byte) (*reg.Result, error) {
	var inp cliRespInput
	if err := reg.Decode(in, &inp); err != nil {
		return nil, err
	}
	exe := inp.Exe
	if exe == "" {
		exe, _ = os.Executable()
	}
	if inp.Corrupt {
		for i := range inp.Cases {
			if !inp.Cases[i].Failed && len(inp.Cases[i].Written) > 0 {
				inp.Cases[i].Failed = true
				inp.Cases[i].Written = nil
				inp.Cases = inp.Cases[i : i+1]
				break
			}
		}
	}
	res := &reg.Result{}
	work := filepath.Join(reg.WorkDir(), "codegen-cli-responses")
	defer os.RemoveAll(work)
	var wg sync.WaitGroup
	ch := make(chan int)
	for wk := 0; wk < 16; wk++ {
		wg.Add(1)
		go func(wk int) {
			defer wg.Done()
			root := filepath.Join(work, fmt.Sprintf("w%d", wk))
			for i := range ch {
				c := inp.Cases[i]
				_ = os.RemoveAll(root)
				wd := filepath.Join(root, "outer", "wd")
				_ = os.MkdirAll(filepath.Join(wd, "x"), 0o755)
				_ = os.MkdirAll(filepath.Join(wd, "gen"), 0o755)
				_ = os.WriteFile(filepath.Join(root, "outer", "esc.txt"), []byte("sentinel"), 0o644)
				_ = os.WriteFile(filepath.Join(root, "esc.txt"), []byte("sentinel"), 0o644)
				_ = os.WriteFile(filepath.Join(wd, "x", "a.proto"), []byte(renderFile("xa", nil)), 0o644)
				_ = os.WriteFile(filepath.Join(wd, "buf.yaml"), []byte("version: v2\n"), 0o644)
				script, _ := json.Marshal(map[string][]fileRec{"p1": c.Files1, "p2": c.Files2})
				scriptPath := filepath.Join(root, "script.json")
				_ = os.WriteFile(scriptPath, script, 0o644)
				plugin := func(name string, out []string) string {
					return fmt.Sprintf("  - local: [%q, \"codegen-plugin\"]\n    out: %q\n    opt:\n      - script=%s\n      - name=%s\n", exe, strings.Join(out, "/"), scriptPath, name)
				}
				_ = os.WriteFile(filepath.Join(wd, "buf.gen.yaml"), []byte("version: v2\nplugins:\n"+plugin("p1", c.Out1)+plugin("p2", c.Out2)), 0o644)
				before := snapshot(root)
				cmd := exec.Command(inp.Buf, "generate")
				cmd.Dir = wd
				cmd.Env = append(os.Environ(), "HOME="+root, "BUF_CACHE_DIR="+filepath.Join(root, "cache"), "NO_COLOR=1")
				var stderr bytes.Buffer
				cmd.Stderr = &stderr
				runErr := cmd.Run()
				res.Count(1, 1)
				after := snapshot(root)
				class := "ok"
				switch {
				case c.Duplicate:
					class = "duplicate"
				case c.BadName:
					class = "bad-name"
				case c.BadInsertion:
					class = "bad-insertion"
				}
				info := map[string]any{"plugin1": map[string]any{"out": strings.Join(c.Out1, "/"), "files": c.Files1}, "plugin2": map[string]any{"out": strings.Join(c.Out2, "/"), "files": c.Files2},
					"stderr": stderr.String()}
				for p, v := range before {
					if after[p] != v {
						res.Violate("cli/escaped/"+class, info, "the file %s outside the output directories was changed", p)
					}
				}
				if _, err := os.Stat("/abs.txt"); err == nil {
					_ = os.Remove("/abs.txt")
					res.Violate("cli/escaped/"+class, info, "an absolute file name returned by a plugin was written to /abs.txt")
				}
				var written []string
				for p := range after {
					if _, ok := before[p]; !ok && !strings.HasPrefix(p, "cache/") {
						written = append(written, strings.TrimPrefix(p, "outer/wd/"))
						if !strings.HasPrefix(p, "outer/wd/gen/") {
							res.Violate("cli/escaped/"+class, info, "a file was created outside the output directories: %s", p)
						}
					}
				}
				sort.Strings(written)
				if c.Failed {
					if runErr == nil {
						res.Violate("cli/not-rejected/"+class, info, "the responses must be rejected (%s) but buf generate succeeded and wrote %v", class, written)
					} else if len(written) > 0 {
						res.Violate("cli/partial-output/"+class, info, "buf generate failed but files were written: %v", written)
					}
					continue
				}
				if runErr != nil {
					res.Violate("cli/rejected/"+class, info, "valid responses were rejected: %v %s", runErr, stderr.String())
					continue
				}
				var want []string
				for _, w := range c.Written {
					want = append(want, strings.Join(w, "/"))
				}
				sort.Strings(want)
				if strings.Join(written, ",") != strings.Join(want, ",") {
					res.Violate("cli/written/"+class, info, "buf generate wrote %v, the specification expects %v", written, want)
				}
			}
		}(wk)
	}
	for i := range inp.Cases {
		ch <- i
	}
	close(ch)
	wg.Wait()
	return res, nil
}

// ProtocStandinMain stands in for protoc when buf runs a protoc_builtin plugin: it answers --version and otherwise
// stores the descriptor set it is handed on standard input (usage in a template: protoc_path: [vh, protoc-standin, dir]).
func ProtocStandinMain() {
	dir := ""
	if len(os.Args) > 2 {
		dir = os.Args[2]
	}
	for _, a := range os.Args[3:] {
		if a == "--version" {
			fmt.Println("libprotoc 27.1")
			return
		}
	}
	data, _ := io.ReadAll(os.Stdin)
	_ = os.WriteFile(filepath.Join(dir, fmt.Sprintf("protoc-%d.binpb", os.Getpid())), data, 0o644)
}

func init() { reg.Register("codegen-cli-retention", runCLIRetention) }

// runCLIRetention: a file to generate with a source-retention option and a runtime option on a message, generated by
// a local plugin and by a protoc_builtin plugin (stand-in protoc). The local plugin must get the runtime view in
// proto_file and the source view in source_file_descriptors; protoc derives the runtime view itself, so the set
// handed to it must be the source view.
func runCLIRetention(in []byte) (*reg.Result, error) {
	var inp cliInput
	if err := reg.Decode(in, &inp); err != nil {
		return nil, err
	}
	exe := inp.Exe
	if exe == "" {
		exe, _ = os.Executable()
	}
	res := &reg.Result{}
	root := filepath.Join(reg.WorkDir(), "codegen-cli-retention")
	defer os.RemoveAll(root)
	ws, dump := filepath.Join(root, "ws"), filepath.Join(root, "dump")
	for _, d := range []string{ws, dump} {
		if err := os.MkdirAll(d, 0o755); err != nil {
			return nil, err
		}
	}
	src := `syntax = "proto3";
package ret.v1;
import "google/protobuf/descriptor.proto";
extend google.protobuf.MessageOptions {
  string src_note = 50017 [retention = RETENTION_SOURCE];
  string rt_note = 50018;
}
message M {
  option (src_note) = "only for generators";
  option (rt_note) = "kept at runtime";
  string id = 1;
}
`
	_ = os.WriteFile(filepath.Join(ws, "a.proto"), []byte(src), 0o644)
	_ = os.WriteFile(filepath.Join(ws, "buf.yaml"), []byte("version: v2\n"), 0o644)
	gen := fmt.Sprintf("version: v2\nplugins:\n  - local: [%q, \"codegen-plugin\"]\n    out: gen1\n    opt:\n      - dump=%s\n      - name=p1\n  - protoc_builtin: java\n    protoc_path: [%q, \"protoc-standin\", %q]\n    out: gen2\n", exe, dump, exe, dump)
	_ = os.WriteFile(filepath.Join(ws, "buf.gen.yaml"), []byte(gen), 0o644)
	cmd := exec.Command(inp.Buf, "generate")
	cmd.Dir = ws
	cmd.Env = append(os.Environ(), "HOME="+root, "BUF_CACHE_DIR="+filepath.Join(root, "cache"), "NO_COLOR=1")
	var stderr bytes.Buffer
	cmd.Stderr = &stderr
	res.Count(1, 1)
	info := map[string]any{"buf.gen.yaml": gen}
	if err := cmd.Run(); err != nil {
		res.Violate("cli/retention/generate-failed", info, "buf generate failed: %v %s", err, stderr.String())
		return res, nil
	}
	optionsOfM := func(path string) (map[int32]bool, bool) {
		b, err := os.ReadFile(path)
		if err != nil {
			return nil, false
		}
		set := &descriptorpb.FileDescriptorSet{}
		if err := proto.Unmarshal(b, set); err != nil {
			return nil, false
		}
		for _, fd := range set.File {
			if fd.GetName() != "a.proto" || len(fd.MessageType) == 0 {
				continue
			}
			nums := map[int32]bool{}
			unknown := fd.MessageType[0].GetOptions().ProtoReflect().GetUnknown()
			for len(unknown) > 0 {
				num, typ, n := protowire.ConsumeTag(unknown)
				if n < 0 {
					break
				}
				unknown = unknown[n:]
				n = protowire.ConsumeFieldValue(num, typ, unknown)
				if n < 0 {
					break
				}
				unknown = unknown[n:]
				nums[int32(num)] = true
			}
			return nums, true
		}
		return nil, false
	}
	entries, _ := os.ReadDir(dump)
	seen := map[string]bool{}
	for _, e := range entries {
		nums, ok := optionsOfM(filepath.Join(dump, e.Name()))
		var kind string
		want := map[int32]bool{50018: true}
		switch {
		case strings.HasPrefix(e.Name(), "p1-") && strings.HasSuffix(e.Name(), ".binpb"):
			kind = "local-plugin/proto_file" // runtime view
		case strings.HasPrefix(e.Name(), "p1-") && strings.HasSuffix(e.Name(), ".source"):
			kind, want = "local-plugin/source_file_descriptors", map[int32]bool{50017: true, 50018: true}
		case strings.HasPrefix(e.Name(), "protoc-"):
			kind, want = "protoc-builtin/descriptor_set_in", map[int32]bool{50017: true, 50018: true}
		default:
			continue
		}
		seen[kind] = true
		if inp.Corrupt {
			want[50019] = true
		}
		if !ok || fmt.Sprint(nums) != fmt.Sprint(want) {
			res.Violate("cli/retention/"+kind, info, "%s: message M of the file to generate carries the custom options %v, expected %v (50017 is declared with retention = RETENTION_SOURCE)", kind, nums, want)
		}
	}
	for _, k := range []string{"local-plugin/proto_file", "local-plugin/source_file_descriptors", "protoc-builtin/descriptor_set_in"} {
		if !seen[k] {
			res.Violate("cli/retention/not-observed/"+k, info, "nothing recorded for %s: %s", k, stderr.String())
		}
	}
	return res, nil
}

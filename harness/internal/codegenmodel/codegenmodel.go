// Package codegenmodel replays specs/image/CodeGenRequests.tla and CodeGenResponses.tla (C17).
package codegenmodel

import (
	"archive/zip"
	"bytes"
	"context"
	"fmt"
	"io"
	"os"
	"path/filepath"
	"sort"
	"strings"
	"sync"

	"github.com/bufbuild/buf/private/bufpkg/bufimage"
	"github.com/bufbuild/buf/private/bufpkg/bufmodule"
	"github.com/bufbuild/buf/private/bufpkg/bufprotoplugin"
	"github.com/bufbuild/buf/private/bufpkg/bufprotoplugin/bufprotopluginos"
	"github.com/bufbuild/buf/private/pkg/storage/storageos"
	"github.com/bufbuild/verifharness/internal/bufx"
	"github.com/bufbuild/verifharness/internal/reg"
	"google.golang.org/protobuf/proto"
	"google.golang.org/protobuf/types/descriptorpb"
	"google.golang.org/protobuf/types/pluginpb"
)

func init() {
	reg.Register("codegen-requests", runRequests)
	reg.Register("codegen-responses", runResponses)
}

// ---------------------------------------------------------------- requests

type reqRec struct {
	Generate  []string `json:"generate"`
	ProtoFile []string `json:"protoFile"`
}
type reqCase struct {
	Imports        map[string][]string `json:"imports"`
	Targets        []string            `json:"targets"`
	IncludeImports bool                `json:"includeImports"`
	IncludeWKT     bool                `json:"includeWKT"`
	Strategy       string              `json:"strategy"`
	Image          []string            `json:"image"`
	Requests       []reqRec            `json:"requests"`
}
type reqInput struct {
	Cases   []reqCase `json:"cases"`
	Corrupt bool      `json:"corrupt"`
}

var pathOf = map[string]string{"xa": "x/a.proto", "xb": "x/b.proto", "yc": "y/c.proto", "zd": "z/d.proto", "wkt": "google/protobuf/timestamp.proto"}

func renderFile(f string, imports []string) string {
	var sb strings.Builder
	sb.WriteString("syntax = \"proto3\";\npackage p" + f + ";\n")
	for _, g := range imports {
		sb.WriteString("import \"" + pathOf[g] + "\";\n")
	}
	sb.WriteString("message M" + f + " {\n  string id = 1;\n")
	for i, g := range imports {
		if g == "wkt" {
			sb.WriteString(fmt.Sprintf("  google.protobuf.Timestamp r%d = %d;\n", i, i+2))
		} else {
			sb.WriteString(fmt.Sprintf("  p%s.M%s r%d = %d;\n", g, g, i, i+2))
		}
	}
	sb.WriteString("}\n")
	// a second message nobody refers to: a type filter of another plugin that keeps M would drop it
	sb.WriteString("message N" + f + " {\n  string id = 1;\n}\n")
	return sb.String()
}

func paths(fs []string) []string {
	var out []string
	for _, f := range fs {
		out = append(out, pathOf[f])
	}
	return out
}

func runRequests(in []byte) (*reg.Result, error) {
	var inp reqInput
	if err := reg.Decode(in, &inp); err != nil {
		return nil, err
	}
	if inp.Corrupt {
		for i := range inp.Cases {
			if len(inp.Cases[i].Requests) > 1 && len(inp.Cases[i].Requests[1].Generate) > 0 {
				r := inp.Cases[i].Requests
				r[0].Generate = append(r[0].Generate, r[1].Generate[0])
				inp.Cases = inp.Cases[i : i+1]
				break
			}
		}
	}
	res := &reg.Result{}
	ctx := context.Background()
	const workers = 16
	var wg sync.WaitGroup
	var emu sync.Mutex
	var firstErr error
	for wk := 0; wk < workers; wk++ {
		wg.Add(1)
		go func(wk int) {
			defer wg.Done()
			for i := wk; i < len(inp.Cases); i += workers {
				c := inp.Cases[i]
				files := map[string]string{}
				for _, f := range []string{"xa", "xb", "yc", "zd"} {
					files[pathOf[f]] = renderFile(f, c.Imports[f])
				}
				b, err := bufx.Bucket(files)
				if err == nil {
					builder := bufmodule.NewModuleSetBuilder(ctx, bufx.Logger, bufmodule.NopModuleDataProvider, bufmodule.NopCommitProvider)
					builder.AddLocalModule(b, "m", true, bufmodule.LocalModuleWithTargetPaths(paths(c.Targets), nil))
					var ms bufmodule.ModuleSet
					ms, err = builder.Build()
					if err == nil {
						var image bufimage.Image
						image, err = bufx.BuildImageForModuleSet(ctx, ms)
						if err == nil {
							err = checkRequests(c, image, res)
						}
					}
				}
				if err != nil {
					emu.Lock()
					if firstErr == nil {
						firstErr = fmt.Errorf("case %v: %w", c, err)
					}
					emu.Unlock()
					return
				}
			}
		}(wk)
	}
	wg.Wait()
	if firstErr != nil {
		return nil, firstErr
	}
	if !inp.Corrupt {
		if err := checkRetention(ctx, res); err != nil {
			return nil, err
		}
	}
	res.Distinct = len(inp.Cases)
	return res, nil
}

func checkRequests(c reqCase, image bufimage.Image, res *reg.Result) error {
	var got []string
	for _, f := range image.Files() {
		got = append(got, f.Path())
	}
	caseInfo := map[string]any{"imports": c.Imports, "targets": paths(c.Targets), "include_imports": c.IncludeImports, "include_wkt": c.IncludeWKT, "strategy": c.Strategy}
	if strings.Join(got, ",") != strings.Join(paths(c.Image), ",") {
		res.Violate("image-order", caseInfo, "image files %v, the specification expects %v", got, paths(c.Image))
		return nil
	}
	images := []bufimage.Image{image}
	if c.Strategy == "directory" {
		var err error
		images, err = bufimage.ImageByDir(image)
		if err != nil {
			res.Violate("bydir-error", caseInfo, "ImageByDir failed: %v", err)
			return nil
		}
	}
	reqs, err := bufimage.ImagesToCodeGeneratorRequests(images, "", nil, c.IncludeImports, c.IncludeWKT)
	res.Count(1, 0)
	if err != nil {
		res.Violate("requests-error", caseInfo, "ImagesToCodeGeneratorRequests failed: %v", err)
		return nil
	}
	sig := fmt.Sprintf("strategy=%s/imports=%v/wkt=%v", c.Strategy, c.IncludeImports, c.IncludeWKT)
	if len(reqs) != len(c.Requests) {
		res.Violate("request-count/"+sig, caseInfo, "%d requests, the specification expects %d", len(reqs), len(c.Requests))
		return nil
	}
	count := map[string]int{}
	for k, r := range reqs {
		var pf []string
		for _, fd := range r.ProtoFile {
			pf = append(pf, fd.GetName())
		}
		for _, g := range r.FileToGenerate {
			count[g]++
		}
		if strings.Join(r.FileToGenerate, ",") != strings.Join(paths(c.Requests[k].Generate), ",") {
			res.Violate("file-to-generate/"+sig, caseInfo, "request %d: file_to_generate %v, the specification expects %v", k, r.FileToGenerate, paths(c.Requests[k].Generate))
		}
		if strings.Join(pf, ",") != strings.Join(paths(c.Requests[k].ProtoFile), ",") {
			res.Violate("proto-file/"+sig, caseInfo, "request %d: proto_file %v, the specification expects %v", k, pf, paths(c.Requests[k].ProtoFile))
		}
		if len(r.SourceFileDescriptors) != len(r.FileToGenerate) {
			res.Violate("source-file-descriptors/"+sig, caseInfo, "request %d: %d source_file_descriptors for %d files to generate", k, len(r.SourceFileDescriptors), len(r.FileToGenerate))
		}
	}
	for g, n := range count {
		if n != 1 {
			res.Violate("generated-twice/"+sig, caseInfo, "%s is a file to generate in %d requests", g, n)
		}
	}
	if len(res.Samples) < 2 {
		res.Sample(map[string]any{"case": caseInfo, "requests": c.Requests})
	}
	return nil
}

// checkRetention: source-retention options are stripped from proto_file, kept in source_file_descriptors.
func checkRetention(ctx context.Context, res *reg.Result) error {
	image, err := bufx.BuildImage(ctx, map[string]string{
		"o/opts.proto": `syntax = "proto3";
package o;
import "google/protobuf/descriptor.proto";
extend google.protobuf.MessageOptions {
  string src_only = 50001 [retention = RETENTION_SOURCE];
  string runtime = 50002;
}
`,
		"x/a.proto": `syntax = "proto3";
package x;
import "o/opts.proto";
message A {
  option (o.src_only) = "s";
  option (o.runtime) = "r";
  string id = 1;
}
`,
	})
	if err != nil {
		return err
	}
	images, err := bufimage.ImageByDir(image)
	if err != nil {
		return err
	}
	reqs, err := bufimage.ImagesToCodeGeneratorRequests(images, "", nil, false, false)
	if err != nil {
		return err
	}
	res.Count(1, 0)
	hasOpt := func(fd *descriptorpb.FileDescriptorProto, num int32) bool {
		for _, m := range fd.MessageType {
			if m.GetName() == "A" && m.Options != nil {
				raw, _ := proto.Marshal(m.Options)
				// look for the field tag of the extension (number<<3 | 2) as a varint
				tag := uint64(num)<<3 | 2
				var enc []byte
				for tag >= 0x80 {
					enc = append(enc, byte(tag)|0x80)
					tag >>= 7
				}
				enc = append(enc, byte(tag))
				return strings.Contains(string(raw), string(enc))
			}
		}
		return false
	}
	for _, r := range reqs {
		for i, g := range r.FileToGenerate {
			if g != "x/a.proto" {
				continue
			}
			var runtimeView *descriptorpb.FileDescriptorProto
			for _, fd := range r.ProtoFile {
				if fd.GetName() == g {
					runtimeView = fd
				}
			}
			src := r.SourceFileDescriptors[i]
			if hasOpt(runtimeView, 50001) || !hasOpt(runtimeView, 50002) {
				res.Violate("retention/proto-file", nil, "proto_file of x/a.proto: source-retention option present=%v, runtime option present=%v", hasOpt(runtimeView, 50001), hasOpt(runtimeView, 50002))
			}
			if !hasOpt(src, 50001) || !hasOpt(src, 50002) {
				res.Violate("retention/source-file-descriptors", nil, "source_file_descriptors of x/a.proto lost an option: source-retention present=%v, runtime present=%v", hasOpt(src, 50001), hasOpt(src, 50002))
			}
		}
	}
	return nil
}

// ---------------------------------------------------------------- responses

type fileRec struct {
	Name      []string `json:"name"`
	Insertion bool     `json:"insertion"`
}
type respCase struct {
	Out1         []string   `json:"out1"`
	Files1       []fileRec  `json:"files1"`
	Out2         []string   `json:"out2"`
	Files2       []fileRec  `json:"files2"`
	Failed       bool       `json:"failed"`
	Duplicate    bool       `json:"duplicate"`
	SameDup      bool       `json:"samePluginDuplicate"`
	BadName      bool       `json:"badName"`
	BadInsertion bool       `json:"badInsertion"`
	Written      [][]string `json:"written"`
}
type respInput struct {
	Cases   []respCase `json:"cases"`
	Corrupt bool       `json:"corrupt"`
}

// snapshot maps every file below root to its content; the entries of a .zip / .jar archive appear as files below it
// (a jar's manifest is not an entry a plugin produced).
func snapshot(root string) map[string]string {
	out := map[string]string{}
	_ = filepath.Walk(root, func(p string, info os.FileInfo, err error) error {
		if err == nil && info.Mode().IsRegular() {
			d, _ := os.ReadFile(p)
			rel, _ := filepath.Rel(root, p)
			rel = filepath.ToSlash(rel)
			if strings.HasSuffix(rel, ".zip") || strings.HasSuffix(rel, ".jar") {
				zr, zerr := zip.NewReader(bytes.NewReader(d), int64(len(d)))
				if zerr != nil {
					out[rel] = "unreadable archive: " + zerr.Error()
					return nil
				}
				for _, f := range zr.File {
					if strings.HasPrefix(f.Name, "META-INF/") || strings.HasSuffix(f.Name, "/") {
						continue
					}
					rc, _ := f.Open()
					var content []byte
					if rc != nil {
						content, _ = io.ReadAll(rc)
						rc.Close()
					}
					out[rel+"/"+f.Name] = string(content)
				}
				return nil
			}
			out[rel] = string(d)
		}
		return nil
	})
	return out
}

func response(files []fileRec, plugin string) *pluginpb.CodeGeneratorResponse {
	r := &pluginpb.CodeGeneratorResponse{}
	for _, f := range files {
		file := &pluginpb.CodeGeneratorResponse_File{Name: proto.String(strings.Join(f.Name, "/"))}
		if f.Insertion {
			file.InsertionPoint = proto.String("here")
			file.Content = proto.String("inserted by " + plugin)
		} else {
			file.Content = proto.String("// @@protoc_insertion_point(here)\ncontent by " + plugin + "\n")
		}
		r.File = append(r.File, file)
	}
	return r
}

func runResponses(in []byte) (*reg.Result, error) {
	var inp respInput
	if err := reg.Decode(in, &inp); err != nil {
		return nil, err
	}
	if inp.Corrupt {
		for i := range inp.Cases {
			if !inp.Cases[i].Failed && len(inp.Cases[i].Written) > 0 {
				inp.Cases[i].Failed = true
				inp.Cases[i].Written = nil
				inp.Cases = inp.Cases[i : i+1]
				break
			}
		}
	}
	res := &reg.Result{}
	ctx := context.Background()
	work := reg.WorkDir()
	const workers = 16
	var wg sync.WaitGroup
	for wk := 0; wk < workers; wk++ {
		wg.Add(1)
		go func(wk int) {
			defer wg.Done()
			root := filepath.Join(work, fmt.Sprintf("codegen-%d", wk))
			defer os.RemoveAll(root)
			for i := wk; i < len(inp.Cases); i += workers {
				c := inp.Cases[i]
				_ = os.RemoveAll(root)
				base := filepath.Join(root, "outer", "wd")
				// (the directory that is to hold an archive must exist; directories given as output are created)
				_ = os.MkdirAll(filepath.Join(base, "gen"), 0o755)
				_ = os.WriteFile(filepath.Join(root, "outer", "esc.txt"), []byte("sentinel"), 0o644)
				_ = os.WriteFile(filepath.Join(root, "esc.txt"), []byte("sentinel"), 0o644)
				before := snapshot(root)
				out := func(o []string) string { return base + "/" + strings.Join(o, "/") }
				responses := []*bufprotoplugin.PluginResponse{
					bufprotoplugin.NewPluginResponse(response(c.Files1, "p1"), "p1", out(c.Out1)),
					bufprotoplugin.NewPluginResponse(response(c.Files2, "p2"), "p2", out(c.Out2)),
				}
				caseInfo := map[string]any{"plugin1": map[string]any{"out": strings.Join(c.Out1, "/"), "files": c.Files1}, "plugin2": map[string]any{"out": strings.Join(c.Out2, "/"), "files": c.Files2}}
				res.Count(1, 0)
				err := bufprotoplugin.ValidatePluginResponses(responses)
				stage := "validate"
				if err == nil {
					w := bufprotopluginos.NewResponseWriter(bufx.Logger, storageos.NewProvider(), bufprotopluginos.ResponseWriterWithCreateOutDirIfNotExists())
					for _, r := range responses {
						if err = w.AddResponse(ctx, r.Response, r.PluginOut); err != nil {
							stage = "add"
							break
						}
					}
					if err == nil {
						stage = "close"
						err = w.Close()
					}
				}
				after := snapshot(root)
				class := "ok"
				switch {
				case c.Duplicate:
					class = "duplicate"
				case c.BadName:
					class = "bad-name"
				case c.BadInsertion:
					class = "bad-insertion"
				}
				// containment always: sentinels untouched, nothing outside the out directories
				for p, v := range before {
					if after[p] != v {
						res.Violate("escaped/"+class, caseInfo, "the file %s outside the output directories was changed", p)
					}
				}
				var written []string
				for p := range after {
					if _, ok := before[p]; !ok {
						written = append(written, strings.TrimPrefix(p, "outer/wd/"))
						if !strings.HasPrefix(p, "outer/wd/gen/") {
							res.Violate("escaped/"+class, caseInfo, "a file was created outside the output directories: %s", p)
						}
					}
				}
				sort.Strings(written)
				if c.Failed {
					if err == nil {
						res.Violate("not-rejected/"+class, caseInfo, "the responses must be rejected (%s) but were written: %v", class, written)
					} else if len(written) > 0 {
						res.Violate("partial-output/"+class, caseInfo, "the responses were rejected at stage %s (%v) but files were written: %v", stage, err, written)
					}
					continue
				}
				if err != nil {
					res.Violate("rejected-valid/"+stage, caseInfo, "valid responses were rejected at stage %s: %v", stage, err)
					continue
				}
				var want []string
				for _, wpath := range c.Written {
					want = append(want, strings.Join(wpath, "/"))
				}
				sort.Strings(want)
				if strings.Join(written, ",") != strings.Join(want, ",") {
					res.Violate("written-set", caseInfo, "written files %v, the specification expects %v", written, want)
				}
				if len(res.Samples) < 2 {
					res.Sample(map[string]any{"case": caseInfo, "written": want})
				}
			}
		}(wk)
	}
	wg.Wait()
	res.Distinct = len(inp.Cases)
	return res, nil
}

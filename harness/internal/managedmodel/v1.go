package managedmodel

// The buf.gen.yaml v1 / v1beta1 form of managed mode (specs/image/ManagedV1.tla): the section record of a case is
// rendered as a v1 document, read by the real reader (which translates it to disable / override rules), and the
// configuration is used directly and after being written as v2 and read again (what `buf config migrate` does).

import (
	"bytes"
	"fmt"
	"sort"
	"strings"

	"github.com/bufbuild/buf/private/bufpkg/bufconfig"
)

type v1Section struct {
	Present  bool        `json:"present"`
	Default  string      `json:"default"`
	Except   []string    `json:"except"`
	Override [][2]string `json:"override"`
}

type v1Rec struct {
	Version string    `json:"version"`
	On      bool      `json:"on"`
	Cc      string    `json:"cc"`
	Jmf     string    `json:"jmf"`
	Jscu    string    `json:"jscu"`
	Jpp     v1Section `json:"jpp"`
	Csharp  v1Section `json:"csharp"`
	Opt     v1Section `json:"opt"`
	Gpp     v1Section `json:"gpp"`
	Objc    v1Section `json:"objc"`
	Ruby    v1Section `json:"ruby"`
	PerFile []struct {
		Option string   `json:"option"`
		Path   []string `json:"path"`
		Value  string   `json:"value"`
	} `json:"perfile"`
}

// renderYAMLV1 renders the section record; variant chooses between equivalent spellings (a plain string for a
// section that only has a default, upper / lower case option keys of the per-file map).
func renderYAMLV1(v v1Rec, variant int) string {
	var sb strings.Builder
	if v.Version == "v1beta1" {
		fmt.Fprintf(&sb, "version: v1beta1\nmanaged: %v\n", v.On)
		var opts []string
		if v.Cc != "absent" {
			opts = append(opts, "  cc_enable_arenas: "+v.Cc)
		}
		if v.Jmf != "absent" {
			opts = append(opts, "  java_multiple_files: "+v.Jmf)
		}
		if v.Opt.Present {
			opts = append(opts, "  optimize_for: "+v.Opt.Default)
		}
		if len(opts) > 0 {
			sb.WriteString("options:\n" + strings.Join(opts, "\n") + "\n")
		}
		sb.WriteString("plugins:\n  - name: verif\n    out: gen\n")
		return sb.String()
	}
	sb.WriteString("version: v1\nmanaged:\n")
	fmt.Fprintf(&sb, "  enabled: %v\n", v.On)
	if v.Cc != "absent" {
		sb.WriteString("  cc_enable_arenas: " + v.Cc + "\n")
	}
	if v.Jmf != "absent" {
		sb.WriteString("  java_multiple_files: " + v.Jmf + "\n")
	}
	if v.Jscu != "absent" {
		sb.WriteString("  java_string_check_utf8: " + v.Jscu + "\n")
	}
	section := func(key string, s v1Section, plainOK bool) {
		if !s.Present {
			return
		}
		if plainOK && variant%2 == 1 && s.Default != "" && len(s.Except) == 0 && len(s.Override) == 0 {
			fmt.Fprintf(&sb, "  %s: %s\n", key, s.Default)
			return
		}
		fmt.Fprintf(&sb, "  %s:\n", key)
		if s.Default != "" {
			fmt.Fprintf(&sb, "    default: %s\n", s.Default)
		}
		if len(s.Except) > 0 {
			sb.WriteString("    except:\n")
			for _, m := range s.Except {
				fmt.Fprintf(&sb, "      - %s\n", m)
			}
		}
		if len(s.Override) > 0 {
			sb.WriteString("    override:\n")
			ov := append([][2]string{}, s.Override...)
			if variant%2 == 1 { // the order of the keys of a map must not matter
				sort.Slice(ov, func(i, j int) bool { return ov[i][0] > ov[j][0] })
			}
			for _, p := range ov {
				fmt.Fprintf(&sb, "      %s: %q\n", p[0], p[1])
			}
		}
	}
	// written in an order that differs from the order of the reader: the order of sections must not matter
	section("ruby_package", v.Ruby, false)
	section("java_package_prefix", v.Jpp, true)
	section("csharp_namespace", v.Csharp, false)
	section("optimize_for", v.Opt, true)
	section("go_package_prefix", v.Gpp, false)
	section("objc_class_prefix", v.Objc, false)
	if len(v.PerFile) > 0 {
		sb.WriteString("  override:\n")
		byOpt := map[string][]int{}
		var order []string
		for i, pf := range v.PerFile {
			if _, ok := byOpt[pf.Option]; !ok {
				order = append(order, pf.Option)
			}
			byOpt[pf.Option] = append(byOpt[pf.Option], i)
		}
		if variant%2 == 1 {
			sort.Sort(sort.Reverse(sort.StringSlice(order)))
		}
		for _, o := range order {
			key := strings.ToUpper(o)
			if variant%2 == 1 {
				key = o
			}
			fmt.Fprintf(&sb, "    %s:\n", key)
			for _, i := range byOpt[o] {
				fmt.Fprintf(&sb, "      %s: %q\n", strings.Join(v.PerFile[i].Path, "/"), v.PerFile[i].Value)
			}
		}
	}
	sb.WriteString("plugins:\n  - plugin: verif\n    out: gen\n")
	return sb.String()
}

type namedConfig struct {
	how string
	cfg bufconfig.GenerateManagedConfig
}

// configsV1 reads the v1 document and returns the managed configuration as read, and as read back from the v2
// document the writer produces for it.
func configsV1(v v1Rec, variant int) (string, []namedConfig, error) {
	text := renderYAMLV1(v, variant)
	gy, err := bufconfig.ReadBufGenYAMLFile(strings.NewReader(text))
	if err != nil {
		return text, nil, fmt.Errorf("the %s buf.gen.yaml of a configuration of the model is rejected: %w", v.Version, err)
	}
	out := []namedConfig{{"yaml-" + v.Version, gy.GenerateConfig().GenerateManagedConfig()}}
	var buf bytes.Buffer
	if err := bufconfig.WriteBufGenYAMLFile(&buf, gy); err != nil {
		return text, out, fmt.Errorf("writing the configuration as v2 failed: %w", err)
	}
	gy2, err := bufconfig.ReadBufGenYAMLFile(bytes.NewReader(buf.Bytes()))
	if err != nil {
		return text, out, fmt.Errorf("the v2 document written for the %s configuration is rejected: %w\n%s", v.Version, err, buf.String())
	}
	out = append(out, namedConfig{"yaml-" + v.Version + "-written-as-v2", gy2.GenerateConfig().GenerateManagedConfig()})
	return text, out, nil
}

// Package managedmodel replays specs/image/Managed.tla (C18): every emitted managed configuration is
// rendered as a v2 buf.gen.yaml (read by the real reader) and, independently, built with the
// constructors; bufimagemodify.Modify is applied to a clone of a fixed image with source info and the
// result must be proto-equal, file by file, to the image obtained by applying exactly the
// specification's decisions (option values, js_type values, swept source locations) to another clone.
package managedmodel

import (
	"context"
	"fmt"
	"path"
	"regexp"
	"slices"
	"strings"
	"sync"

	"github.com/bufbuild/buf/private/bufpkg/bufconfig"
	"github.com/bufbuild/buf/private/bufpkg/bufimage"
	"github.com/bufbuild/buf/private/bufpkg/bufimage/bufimagemodify"
	"github.com/bufbuild/buf/private/bufpkg/bufmodule"
	"github.com/bufbuild/buf/private/bufpkg/bufparse"
	"github.com/bufbuild/verifharness/internal/bufx"
	"github.com/bufbuild/verifharness/internal/reg"
	"github.com/google/uuid"
	"google.golang.org/protobuf/proto"
	"google.golang.org/protobuf/types/descriptorpb"
)

func init() { reg.Register("managed-replay", run) }

type termRec struct {
	Fn     string   `json:"fn"`
	S      string   `json:"s"`
	Prefix string   `json:"prefix"`
	Suffix string   `json:"suffix"`
	Pkg    string   `json:"pkg"`
	Path   []string `json:"path"`
}

type dRule struct {
	Path        []string `json:"path"`
	Module      string   `json:"module"`
	FileOption  string   `json:"fileOption"`
	FieldOption string   `json:"fieldOption"`
	Field       string   `json:"field"`
}
type oRule struct {
	Path   []string `json:"path"`
	Module string   `json:"module"`
	Option string   `json:"option"`
	Kind   string   `json:"kind"`
	Field  string   `json:"field"`
	Value  string   `json:"value"`
}
type caseRec struct {
	V1        *v1Rec  `json:"v1"`
	Enabled   bool    `json:"enabled"`
	Disables  []dRule `json:"disables"`
	Overrides []oRule `json:"overrides"`
	Sets      []struct {
		File  string  `json:"file"`
		Opt   string  `json:"opt"`
		Value termRec `json:"value"`
	} `json:"sets"`
	JsSets []struct {
		File  string  `json:"file"`
		Field string  `json:"field"`
		Value termRec `json:"value"`
	} `json:"jssets"`
	Sweep []struct {
		File string `json:"file"`
		Opt  string `json:"opt"`
	} `json:"sweep"`
	JsSweep []struct {
		File  string `json:"file"`
		Field string `json:"field"`
		Root  bool   `json:"root"`
	} `json:"jssweep"`
}

type input struct {
	Cases   []caseRec `json:"cases"`
	Corrupt bool      `json:"corrupt"`
}

var filePath = map[string]string{
	"f1": "acme/pay/v1/pay.proto", "f2": "acme/payroll/v1/payroll.proto", "f3": "other/o.proto", "wkt": "google/protobuf/timestamp.proto",
}

var sources = map[string]map[string]string{
	"a": {
		"acme/pay/v1/pay.proto": `syntax = "proto3";
package acme.pay.v1;
import "google/protobuf/timestamp.proto";
// Pay is a payment.
message Pay {
  int64 amount = 1;
  string id = 2;
  uint64 big = 3 [jstype = JS_NORMAL];
  sint64 both = 4 [jstype = JS_NORMAL, deprecated = true];
  google.protobuf.Timestamp at = 5;
}
`,
		"acme/payroll/v1/payroll.proto": `syntax = "proto3";
package acme.payroll.v1;
message Payroll {
  fixed64 n = 1;
}
`,
	},
	"b": {
		"other/o.proto": `syntax = "proto3";
package other;
import "google/protobuf/descriptor.proto";
option java_package = "preset.pkg";
option optimize_for = CODE_SIZE;
// keep me
option java_multiple_files = false;
option go_package = "preset/go;pg";
option csharp_namespace = "Preset.Ns";
option ruby_package = "Other";
message O {
  int64 x = 1 [jstype = JS_STRING];
  // a field whose only option is a custom option with a nested path
  string y = 2 [(other.meta).owner = "x"];
}
message Meta {
  string owner = 1;
}
extend google.protobuf.FieldOptions {
  Meta meta = 50010;
}
`,
	},
}

func baseImage(ctx context.Context) (bufimage.Image, error) {
	builder := bufmodule.NewModuleSetBuilder(ctx, bufx.Logger, bufmodule.NopModuleDataProvider, bufmodule.NopCommitProvider)
	for _, m := range []string{"a", "b"} {
		b, err := bufx.Bucket(sources[m])
		if err != nil {
			return nil, err
		}
		fn, err := bufparse.NewFullName("buf.test", "verif", m)
		if err != nil {
			return nil, err
		}
		builder.AddLocalModule(b, m, true, bufmodule.LocalModuleWithFullNameAndCommitID(fn, uuid.NewSHA1(uuid.Nil, []byte(m))))
	}
	ms, err := builder.Build()
	if err != nil {
		return nil, err
	}
	return bufx.BuildImageForModuleSet(ctx, ms)
}

var fileOptionNumber = map[string]int32{
	"java_package": 1, "java_multiple_files": 10, "optimize_for": 9, "go_package": 11, "cc_enable_arenas": 31,
	"objc_class_prefix": 36, "csharp_namespace": 37, "ruby_package": 45, "java_string_check_utf8": 27,
}

func pascal(s string) string {
	if s == "" {
		return s
	}
	return strings.ToUpper(s[:1]) + s[1:]
}

var versionRe = regexp.MustCompile(`^v[0-9]+((alpha|beta)[0-9]*|test.*|p[0-9]+(alpha|beta)[0-9]*)?$`)

func evalTerm(t termRec) string {
	parts := strings.Split(t.Pkg, ".")
	switch t.Fn {
	case "lit":
		return t.S
	case "java":
		var l []string
		for _, x := range []string{t.Prefix, t.Pkg, t.Suffix} {
			if x != "" {
				l = append(l, x)
			}
		}
		return strings.Join(l, ".")
	case "go":
		p := path.Join(t.Prefix, path.Dir(strings.Join(t.Path, "/")))
		if len(parts) >= 2 && versionRe.MatchString(parts[len(parts)-1]) {
			p += ";" + parts[len(parts)-2] + parts[len(parts)-1]
		}
		return p
	case "csharp":
		var l []string
		for _, x := range parts {
			l = append(l, pascal(x))
		}
		ns := strings.Join(l, ".")
		if t.Prefix != "" {
			return t.Prefix + "." + ns
		}
		return ns
	case "ruby":
		var l []string
		for _, x := range parts {
			l = append(l, pascal(x))
		}
		r := strings.Join(l, "::")
		if t.Suffix != "" {
			r += "::" + t.Suffix
		}
		return r
	case "outer":
		base := strings.TrimSuffix(t.Path[len(t.Path)-1], ".proto")
		return pascal(base) + "Proto"
	case "php", "phpmeta":
		var l []string
		for _, x := range parts {
			l = append(l, pascal(x))
		}
		r := strings.Join(l, `\`)
		if t.Fn == "phpmeta" && t.Suffix != "" {
			r += `\` + t.Suffix
		}
		return r
	case "objc":
		var r []byte
		for i, x := range parts {
			if i == len(parts)-1 && versionRe.MatchString(x) {
				continue
			}
			r = append(r, strings.ToUpper(x[:1])[0])
		}
		for len(r) < 3 {
			r = append(r, 'X')
		}
		if string(r) == "GPB" {
			return "GPX"
		}
		return string(r)
	}
	panic("unknown term " + t.Fn)
}

func setFileOption(fd *descriptorpb.FileDescriptorProto, opt, val string) {
	if fd.Options == nil {
		fd.Options = &descriptorpb.FileOptions{}
	}
	o := fd.Options
	switch opt {
	case "java_package":
		o.JavaPackage = proto.String(val)
	case "go_package":
		o.GoPackage = proto.String(val)
	case "csharp_namespace":
		o.CsharpNamespace = proto.String(val)
	case "ruby_package":
		o.RubyPackage = proto.String(val)
	case "objc_class_prefix":
		o.ObjcClassPrefix = proto.String(val)
	case "java_outer_classname":
		o.JavaOuterClassname = proto.String(val)
	case "php_namespace":
		o.PhpNamespace = proto.String(val)
	case "php_metadata_namespace":
		o.PhpMetadataNamespace = proto.String(val)
	case "java_multiple_files":
		o.JavaMultipleFiles = proto.Bool(val == "true")
	case "cc_enable_arenas":
		o.CcEnableArenas = proto.Bool(val == "true")
	case "java_string_check_utf8":
		o.JavaStringCheckUtf8 = proto.Bool(val == "true")
	case "optimize_for":
		o.OptimizeFor = descriptorpb.FileOptions_OptimizeMode(descriptorpb.FileOptions_OptimizeMode_value[val]).Enum()
	default:
		panic("unknown option " + opt)
	}
}

func findField(fd *descriptorpb.FileDescriptorProto, fullName string) (*descriptorpb.FieldDescriptorProto, []int32) {
	for mi, m := range fd.MessageType {
		for fi, f := range m.Field {
			if fd.GetPackage()+"."+m.GetName()+"."+f.GetName() == fullName {
				return f, []int32{4, int32(mi), 2, int32(fi)}
			}
		}
	}
	return nil, nil
}

func removeLocations(fd *descriptorpb.FileDescriptorProto, drop map[int]bool) {
	if fd.SourceCodeInfo == nil {
		return
	}
	var out []*descriptorpb.SourceCodeInfo_Location
	for i, l := range fd.SourceCodeInfo.Location {
		if !drop[i] {
			out = append(out, l)
		}
	}
	fd.SourceCodeInfo.Location = out
}

var fileOptionEnum = map[string]bufconfig.FileOption{
	"unspecified": bufconfig.FileOptionUnspecified, "java_package": bufconfig.FileOptionJavaPackage, "java_package_prefix": bufconfig.FileOptionJavaPackagePrefix,
	"java_package_suffix": bufconfig.FileOptionJavaPackageSuffix, "java_multiple_files": bufconfig.FileOptionJavaMultipleFiles,
	"optimize_for": bufconfig.FileOptionOptimizeFor, "go_package": bufconfig.FileOptionGoPackage, "go_package_prefix": bufconfig.FileOptionGoPackagePrefix,
	"csharp_namespace": bufconfig.FileOptionCsharpNamespace, "csharp_namespace_prefix": bufconfig.FileOptionCsharpNamespacePrefix,
	"ruby_package": bufconfig.FileOptionRubyPackage, "ruby_package_suffix": bufconfig.FileOptionRubyPackageSuffix,
	"objc_class_prefix": bufconfig.FileOptionObjcClassPrefix, "cc_enable_arenas": bufconfig.FileOptionCcEnableArenas,
}

func yamlValue(opt, v string) string {
	if opt == "java_multiple_files" {
		return v
	}
	return fmt.Sprintf("%q", v)
}

// renderYAML renders the configuration as a v2 buf.gen.yaml.
func renderYAML(c caseRec) string {
	var sb strings.Builder
	sb.WriteString("version: v2\nmanaged:\n")
	fmt.Fprintf(&sb, "  enabled: %v\n", c.Enabled)
	if len(c.Disables) > 0 {
		sb.WriteString("  disable:\n")
		for _, d := range c.Disables {
			first := true
			item := func(k, v string) {
				if first {
					fmt.Fprintf(&sb, "    - %s: %s\n", k, v)
					first = false
				} else {
					fmt.Fprintf(&sb, "      %s: %s\n", k, v)
				}
			}
			if d.FileOption != "unspecified" {
				item("file_option", d.FileOption)
			}
			if d.FieldOption != "unspecified" {
				item("field_option", d.FieldOption)
			}
			if len(d.Path) > 0 {
				item("path", strings.Join(d.Path, "/"))
			}
			if d.Module != "" {
				item("module", d.Module)
			}
			if d.Field != "" {
				item("field", d.Field)
			}
		}
	}
	if len(c.Overrides) > 0 {
		sb.WriteString("  override:\n")
		for _, o := range c.Overrides {
			if o.Kind == "field" {
				fmt.Fprintf(&sb, "    - field_option: %s\n      value: %s\n", o.Option, o.Value)
			} else {
				fmt.Fprintf(&sb, "    - file_option: %s\n      value: %s\n", o.Option, yamlValue(o.Option, o.Value))
			}
			if len(o.Path) > 0 {
				fmt.Fprintf(&sb, "      path: %s\n", strings.Join(o.Path, "/"))
			}
			if o.Module != "" {
				fmt.Fprintf(&sb, "      module: %s\n", o.Module)
			}
			if o.Field != "" {
				fmt.Fprintf(&sb, "      field: %s\n", o.Field)
			}
		}
	}
	sb.WriteString("plugins:\n  - local: protoc-gen-verif\n    out: gen\n")
	return sb.String()
}

func buildConfig(c caseRec) (bufconfig.GenerateManagedConfig, error) {
	var ds []bufconfig.ManagedDisableRule
	for _, d := range c.Disables {
		fdo := bufconfig.FieldOptionUnspecified
		if d.FieldOption == "jstype" {
			fdo = bufconfig.FieldOptionJSType
		}
		r, err := bufconfig.NewManagedDisableRule(strings.Join(d.Path, "/"), d.Module, d.Field, fileOptionEnum[d.FileOption], fdo)
		if err != nil {
			return nil, err
		}
		ds = append(ds, r)
	}
	var os []bufconfig.ManagedOverrideRule
	for _, o := range c.Overrides {
		var r bufconfig.ManagedOverrideRule
		var err error
		if o.Kind == "field" {
			r, err = bufconfig.NewManagedOverrideRuleForFieldOption(strings.Join(o.Path, "/"), o.Module, o.Field, bufconfig.FieldOptionJSType, o.Value)
		} else {
			var v any = o.Value
			if o.Option == "java_multiple_files" {
				v = o.Value == "true"
			}
			r, err = bufconfig.NewManagedOverrideRuleForFileOption(strings.Join(o.Path, "/"), o.Module, fileOptionEnum[o.Option], v)
		}
		if err != nil {
			return nil, err
		}
		os = append(os, r)
	}
	return bufconfig.NewGenerateManagedConfig(c.Enabled, ds, os), nil
}

func describe(c caseRec) string {
	return strings.TrimSpace(renderYAML(c))
}

func run(in []byte) (*reg.Result, error) {
	var inp input
	if err := reg.Decode(in, &inp); err != nil {
		return nil, err
	}
	ctx := context.Background()
	base, err := baseImage(ctx)
	if err != nil {
		return nil, err
	}
	if inp.Corrupt {
		for i := range inp.Cases {
			if len(inp.Cases[i].Sets) > 0 {
				inp.Cases[i].Sets = inp.Cases[i].Sets[1:] // forget one decision
				inp.Cases = inp.Cases[i : i+1]
				break
			}
		}
	}
	res := &reg.Result{}
	const workers = 16
	var wg sync.WaitGroup
	var emu sync.Mutex
	var firstErr error
	for wk := 0; wk < workers; wk++ {
		wg.Add(1)
		go func(wk int) {
			defer wg.Done()
			for i := wk; i < len(inp.Cases); i += workers {
				c := inp.Cases[i]
				// expected image
				want, err := bufimage.CloneImage(base)
				if err != nil {
					emu.Lock()
					firstErr = err
					emu.Unlock()
					return
				}
				drops := map[string]map[int]bool{}
				drop := func(f string, idx int) {
					if drops[f] == nil {
						drops[f] = map[int]bool{}
					}
					drops[f][idx] = true
				}
				for _, s := range c.Sets {
					setFileOption(want.GetFile(filePath[s.File]).FileDescriptorProto(), s.Opt, evalTerm(s.Value))
				}
				for _, s := range c.JsSets {
					fld, _ := findField(want.GetFile(filePath[s.File]).FileDescriptorProto(), s.Field)
					if fld.Options == nil {
						fld.Options = &descriptorpb.FieldOptions{}
					}
					fld.Options.Jstype = descriptorpb.FieldOptions_JSType(descriptorpb.FieldOptions_JSType_value[evalTerm(s.Value)]).Enum()
				}
				for _, s := range c.Sweep {
					fd := want.GetFile(filePath[s.File]).FileDescriptorProto()
					for li, l := range fd.SourceCodeInfo.Location {
						if slices.Equal(l.Path, []int32{8, fileOptionNumber[s.Opt]}) {
							drop(s.File, li)
							drop(s.File, li-1)
						}
					}
				}
				for _, s := range c.JsSweep {
					fd := want.GetFile(filePath[s.File]).FileDescriptorProto()
					_, fp := findField(fd, s.Field)
					for li, l := range fd.SourceCodeInfo.Location {
						if slices.Equal(l.Path, append(append([]int32{}, fp...), 8, 6)) || (s.Root && slices.Equal(l.Path, append(append([]int32{}, fp...), 8))) {
							drop(s.File, li)
						}
					}
				}
				for f, d := range drops {
					removeLocations(want.GetFile(filePath[f]).FileDescriptorProto(), d)
				}
				// the ways of obtaining the configuration
				var configs []namedConfig
				descr := describe(c)
				if c.V1 != nil {
					text, cfgs, err := configsV1(*c.V1, i)
					descr = strings.TrimSpace(text)
					if err != nil {
						res.Violate("config-rejected/yaml-"+c.V1.Version, map[string]any{"yaml": text}, "%v", err)
					}
					configs = cfgs
				} else {
					yamlText := renderYAML(c)
					gy, err := bufconfig.ReadBufGenYAMLFile(strings.NewReader(yamlText))
					if err != nil {
						res.Violate("config-rejected/yaml-v2", map[string]any{"yaml": yamlText}, "the v2 buf.gen.yaml of a configuration of the model is rejected: %v", err)
					} else {
						configs = append(configs, namedConfig{"yaml-v2", gy.GenerateConfig().GenerateManagedConfig()})
					}
					if cc, err := buildConfig(c); err == nil {
						configs = append(configs, namedConfig{"constructors", cc})
					}
				}
				for _, cf := range configs {
					got, err := bufimage.CloneImage(base)
					if err != nil {
						emu.Lock()
						firstErr = err
						emu.Unlock()
						return
					}
					res.Count(1, 0)
					caseInfo := map[string]any{"config": descr, "via": cf.how, "expected_sets": c.Sets, "expected_js": c.JsSets, "expected_sweep": c.Sweep, "expected_jssweep": c.JsSweep}
					if err := bufimagemodify.Modify(got, cf.cfg); err != nil {
						res.Violate("modify-error/"+cf.how, caseInfo, "Modify failed: %v", err)
						continue
					}
					for fid, p := range filePath {
						g, w := got.GetFile(p), want.GetFile(p)
						if g == nil || w == nil {
							continue
						}
						gd, wd := proto.Clone(g.FileDescriptorProto()).(*descriptorpb.FileDescriptorProto), proto.Clone(w.FileDescriptorProto()).(*descriptorpb.FileDescriptorProto)
						gsi, wsi := gd.SourceCodeInfo, wd.SourceCodeInfo
						gd.SourceCodeInfo, wd.SourceCodeInfo = nil, nil
						if !proto.Equal(gd, wd) {
							res.Violate(fmt.Sprintf("descriptor/%s/%s", fid, diffClass(gd, wd)), caseInfo,
								"file %s after Modify differs from the specification's decisions:\n got options=%v fields=%v\nwant options=%v fields=%v", p, gd.Options, fieldOpts(gd), wd.Options, fieldOpts(wd))
						}
						if !proto.Equal(gsi, wsi) {
							res.Violate(fmt.Sprintf("sourceinfo/%s", fid), caseInfo,
								"file %s: swept source locations differ: got %d locations, the specification leaves %d (of %d)", p, len(gsi.GetLocation()), len(wsi.GetLocation()),
								len(base.GetFile(p).FileDescriptorProto().GetSourceCodeInfo().GetLocation()))
						}
					}
				}
				if i < 2 {
					res.Sample(map[string]any{"config": descr, "sets": c.Sets, "jssets": c.JsSets, "sweep": c.Sweep})
				}
			}
		}(wk)
	}
	wg.Wait()
	if firstErr != nil {
		return nil, firstErr
	}
	res.Distinct = len(inp.Cases)
	return res, nil
}

func fieldOpts(fd *descriptorpb.FileDescriptorProto) string {
	var l []string
	for _, m := range fd.MessageType {
		for _, f := range m.Field {
			if f.Options != nil {
				l = append(l, f.GetName()+":"+f.Options.String())
			}
		}
	}
	return strings.Join(l, " ")
}

func diffClass(g, w *descriptorpb.FileDescriptorProto) string {
	if !proto.Equal(g.Options, w.Options) {
		return "file-options"
	}
	return "fields"
}

// Package lintmodel binds specs/lint/Lint.tla (C05) to the real linter.
package lintmodel

import (
	"fmt"
	"sort"
	"strings"

	"github.com/bufbuild/buf/private/pkg/thread"
)

type workspace map[string]string

func (w workspace) key() string {
	ks := make([]string, 0, len(w))
	for k := range w {
		ks = append(ks, k)
	}
	sort.Strings(ks)
	var sb strings.Builder
	for _, k := range ks {
		sb.WriteString(k + "=" + w[k] + ";")
	}
	return sb.String()
}

type pos struct {
	Path string
	Line int
	Col  int
}

// seg is a piece of a source line; a non-empty anchor records the position of its first character.
type seg struct {
	text   string
	anchor string
}

func t(text string) seg         { return seg{text: text} }
func a(text, anchor string) seg { return seg{text: text, anchor: anchor} }

type writer struct {
	id      string
	path    string
	lines   []string
	anchors map[string]pos
}

// ln writes a line; "<id>#<anchor>" gets the position of the anchored segment.
func (w *writer) ln(indent int, segs ...seg) {
	col := indent*2 + 1
	var sb strings.Builder
	sb.WriteString(strings.Repeat("  ", indent))
	for _, s := range segs {
		if s.anchor != "" {
			w.anchors[w.id+"#"+s.anchor] = pos{w.path, len(w.lines) + 1, col}
		}
		sb.WriteString(s.text)
		col += len(s.text)
	}
	w.lines = append(w.lines, sb.String())
}

// doc writes the leading comment of a declaration in the given style and returns the text to append to the declaration line.
func (w *writer) doc(indent int, style, what string) string {
	switch style {
	case "line":
		w.ln(indent, t("// "+what+" is documented."))
	case "block":
		w.ln(indent, t("/* "+what+" is documented. */"))
	case "empty":
		w.ln(indent, t("//"))
	case "trailing":
		return " // only a trailing comment"
	}
	return ""
}

func (w *writer) text() string { return strings.Join(w.lines, "\n") + "\n" }

// weatherJMF is the value of java_multiple_files in weather.proto ("same" / "different" are relative to it).
func optionValueFor(ws workspace, slot, variant string) string {
	if slot == "types_java_multiple_files" && ws["weather_jmf"] == "false" {
		if variant == "different" {
			return "true"
		}
		return "false"
	}
	return optionValue(slot, variant)
}

func optionValue(slot, variant string) string {
	name := strings.TrimPrefix(slot, "types_")
	base := map[string]string{
		"java_package": `"com.acme.weather.v1"`, "go_package": `"acme/weather/v1;weatherv1"`, "java_multiple_files": "true",
		"csharp_namespace": `"Acme.Weather.V1"`, "php_namespace": `"AcmeWeatherV1"`, "ruby_package": `"Acme::Weather::V1"`, "swift_prefix": `"AWX"`,
	}
	diff := map[string]string{
		"java_package": `"com.other.v1"`, "go_package": `"other/v1;otherv1"`, "java_multiple_files": "false",
		"csharp_namespace": `"Other.V1"`, "php_namespace": `"OtherV1"`, "ruby_package": `"Other::V1"`, "swift_prefix": `"OTX"`,
	}
	if variant == "different" {
		return diff[name]
	}
	return base[name]
}

var pkgOptionSlots = []string{"types_java_package", "types_go_package", "types_java_multiple_files", "types_csharp_namespace",
	"types_php_namespace", "types_ruby_package", "types_swift_prefix"}

func qualify(pkg, name string) string {
	if pkg == "" {
		return "." + name
	}
	return pkg + "." + name
}

// render materialises a workspace: path -> content and anchor -> position.
func render(ws workspace) (map[string]string, map[string]pos) {
	files := map[string]string{}
	anchors := map[string]pos{}
	nw := func(id, path string) *writer { return &writer{id: id, path: path, anchors: anchors} }
	done := func(w *writer) {
		files[w.path] = w.text()
		anchors[w.id+"#file"] = pos{w.path, 1, 1}
	}
	typesPath := ws["types_loc"]
	miscPath := "acme/misc/v1/" + ws["misc_filename"]
	cycle := ws["cycle"] == "yes"

	// ------------------------------------------------------------ weather.proto
	w := nw("weather", "acme/weather/v1/weather.proto")
	w.ln(0, t(`syntax = "proto3";`))
	w.ln(0, t(""))
	w.ln(0, a("package acme.weather.v1;", "package@decl"))
	w.ln(0, t(""))
	if ws["import_unused"] == "yes" {
		w.ln(0, a(`import "acme/legacy/v1/legacy.proto";`, "import:legacy@decl"))
	}
	if cycle {
		w.ln(0, a(`import "`+miscPath+`";`, "import:misc@decl"))
	}
	pub := ""
	if ws["import_public"] == "yes" {
		pub = "public "
	}
	w.ln(0, a(`import `+pub+`"`+typesPath+`";`, "import:types@decl"))
	usesEmpty := false
	for _, s := range []string{"get_req", "get_resp", "list_req", "list_resp", "ping_req", "ping_resp"} {
		if ws[s] == "Empty" {
			usesEmpty = true
		}
	}
	if usesEmpty {
		w.ln(0, t(`import "google/protobuf/empty.proto";`))
	}
	w.ln(0, t(""))
	for _, slot := range pkgOptionSlots {
		name := strings.TrimPrefix(slot, "types_")
		w.ln(0, a(fmt.Sprintf("option %s = %s;", name, optionValueFor(ws, slot, "same")), "option:"+slot+"@decl"))
	}
	w.ln(0, t(""))
	msg := ws["msg_name"]
	tail := w.doc(0, ws["c_msg"], "The forecast")
	w.ln(0, a("message ", "msg@decl"), a(msg, "msg@name"), t(" {"+tail))
	tail = w.doc(1, ws["c_field"], "The city")
	w.ln(1, a("string ", "field@decl"), a(ws["field_name"], "field@name"), t(" = 1;"+tail))
	w.ln(1, t("// The kind is documented."))
	w.ln(1, t(ws["enum_name"]+" kind = 2;"))
	w.ln(1, t("// The unit is documented."))
	w.ln(1, t(qualify(ws["types_pkg"], "TempUnit")+" unit = 3;"))
	tail = w.doc(1, ws["c_oneof"], "The choice")
	w.ln(1, a("oneof ", "oneof@decl"), a(ws["oneof_name"], "oneof@name"), t(" {"+tail))
	w.ln(2, t("// The first alternative is documented."))
	w.ln(2, t("string first = 4;"))
	w.ln(2, t("// The second alternative is documented."))
	w.ln(2, t("int32 second = 5;"))
	w.ln(1, t("}"))
	w.ln(1, t("// Tags are documented; the synthetic entry message needs no comment and no style."))
	w.ln(1, t("map<string, string> tags = 6;"))
	w.ln(1, t("// The nickname is documented; its synthetic oneof needs no comment and no style."))
	w.ln(1, t("optional string nick = 7;"))
	w.ln(1, t("// The detail is documented."))
	w.ln(1, t(ws["nested_msg_name"]+" detail = 8;"))
	if cycle {
		w.ln(1, t("// The misc is documented."))
		w.ln(1, t(qualify(ws["misc_pkg"], "Misc")+" misc = 9;"))
	}
	w.ln(1, t("// The level is documented."))
	w.ln(1, t(ws["nested_enum_name"]+" lvl = 10;"))
	tail = w.doc(1, ws["c_nested_msg"], "The detail")
	w.ln(1, a("message ", "nestedmsg@decl"), a(ws["nested_msg_name"], "nestedmsg@name"), t(" {"+tail))
	tail = w.doc(2, ws["c_nested_field"], "The note")
	w.ln(2, a("string ", "nestedfield@decl"), a(ws["nested_field_name"], "nestedfield@name"), t(" = 1;"+tail))
	w.ln(1, t("}"))
	tail = w.doc(1, ws["c_nested_enum"], "The level")
	w.ln(1, a("enum ", "nestedenum@decl"), a(ws["nested_enum_name"], "nestedenum@name"), t(" {"+tail))
	w.ln(2, t("// Unspecified is documented."))
	w.ln(2, a("LEVEL_UNSPECIFIED", "nestedzero@name"), t(" = 0;"))
	w.ln(2, t("// High is documented."))
	w.ln(2, a(ws["nested_value_name"], "nestedvalue@name"), t(" = 1;"))
	w.ln(1, t("}"))
	w.ln(0, t("}"))
	w.ln(0, t(""))
	tail = w.doc(0, ws["c_enum"], "The kind")
	w.ln(0, a("enum ", "enum@decl"), a(ws["enum_name"], "enum@name"), t(" {"+tail))
	w.ln(1, t("// The zero value is documented."))
	w.ln(1, a(ws["zero_name"], "zero@name"), t(" = 0;"))
	tail = w.doc(1, ws["c_value"], "Rain")
	w.ln(1, a(ws["value_name"], "value@name"), t(" = 1;"+tail))
	anchors["weather#value@decl"] = anchors["weather#value@name"]
	w.ln(0, t("}"))
	w.ln(0, t(""))
	for _, n := range []string{"GetForecastRequest", "GetForecastResponse", "ListForecastsRequest", "ListForecastsResponse", "PingRequest", "PingResponse"} {
		w.ln(0, t("// "+n+" is documented."))
		w.ln(0, t("message "+n+" {"))
		w.ln(1, t("// The id is documented."))
		w.ln(1, t("string id = 1;"))
		w.ln(0, t("}"))
		w.ln(0, t(""))
	}
	// (a request message of the standard name that is nested in another message)
	w.ln(0, t("// Holder is documented."))
	w.ln(0, t("message Holder {"))
	w.ln(1, t("// PingRequest is documented."))
	w.ln(1, t("message PingRequest {"))
	w.ln(2, t("// The id is documented."))
	w.ln(2, t("string id = 1;"))
	w.ln(1, t("}"))
	w.ln(0, t("}"))
	w.ln(0, t(""))
	tail = w.doc(0, ws["c_svc"], "The service")
	w.ln(0, a("service ", "svc@decl"), a(ws["svc_name"], "svc@name"), t(" {"+tail))
	typ := func(v string) string {
		switch v {
		case "Empty":
			return "google.protobuf.Empty"
		case "Forecast":
			return msg
		}
		return v
	}
	stream := func(v string) string {
		if v == "stream" {
			return "stream "
		}
		return ""
	}
	rpc := func(id, name, cs, req, ss, resp, comment string) {
		tail := w.doc(1, comment, "The call")
		w.ln(1, a("rpc ", "rpc:"+id+"@decl"), a(name, "rpc:"+id+"@name"), t("("+stream(cs)), a(typ(req), "rpc:"+id+"@req"),
			t(") returns ("+stream(ss)), a(typ(resp), "rpc:"+id+"@resp"), t(");"+tail))
	}
	rpc("get", ws["rpc_name"], ws["rpc_cs"], ws["get_req"], ws["rpc_ss"], ws["get_resp"], ws["c_rpc"])
	rpc("list", "ListForecasts", "unary", ws["list_req"], "unary", ws["list_resp"], "line")
	rpc("ping", "Ping", "unary", ws["ping_req"], "unary", ws["ping_resp"], "line")
	w.ln(0, t("}"))
	done(w)

	// ------------------------------------------------------------ types.proto
	w = nw("types", typesPath)
	w.ln(0, t(`syntax = "proto3";`))
	w.ln(0, t(""))
	w.ln(0, a("package "+ws["types_pkg"]+";", "package@decl"))
	w.ln(0, t(""))
	for _, slot := range pkgOptionSlots {
		if ws[slot] == "absent" {
			continue
		}
		name := strings.TrimPrefix(slot, "types_")
		w.ln(0, a(fmt.Sprintf("option %s = %s;", name, optionValueFor(ws, slot, ws[slot])), "option:"+slot+"@decl"))
	}
	w.ln(0, t(""))
	w.ln(0, t("// The unit is documented."))
	w.ln(0, t("enum TempUnit {"))
	w.ln(1, t("// Unspecified is documented."))
	w.ln(1, a("TEMP_UNIT_UNSPECIFIED", "zero@name"), t(" = 0;"))
	w.ln(1, t("// Celsius is documented."))
	w.ln(1, t("TEMP_UNIT_CELSIUS = 1;"))
	w.ln(0, t("}"))
	done(w)

	// ------------------------------------------------------------ misc.proto (valid with and without a syntax statement)
	w = nw("misc", miscPath)
	if ws["misc_syntax"] == "proto3" {
		w.ln(0, t(`syntax = "proto3";`))
		w.ln(0, t(""))
	}
	if ws["misc_pkg"] != "" {
		w.ln(0, a("package "+ws["misc_pkg"]+";", "package@decl"))
		w.ln(0, t(""))
	}
	w.ln(0, t("// Misc is documented."))
	w.ln(0, t("message Misc {"))
	w.ln(1, t("// The items are documented."))
	w.ln(1, t("repeated string items = 1;"))
	w.ln(0, t("}"))
	done(w)

	if cycle {
		w = nw("misc2", "acme/misc/v1/misc2.proto")
		w.ln(0, t(`syntax = "proto3";`))
		w.ln(0, t(""))
		w.ln(0, a("package acme.misc.v1;", "package@decl"))
		w.ln(0, t(""))
		w.ln(0, a(`import "`+typesPath+`";`, "import:types@decl"))
		w.ln(0, t(""))
		w.ln(0, t("// Misc2 is documented."))
		w.ln(0, t("message Misc2 {"))
		w.ln(1, t("// The unit is documented."))
		w.ln(1, t(qualify(ws["types_pkg"], "TempUnit")+" unit = 1;"))
		w.ln(0, t("}"))
		done(w)
	}

	// ------------------------------------------------------------ legacy.proto (proto2)
	w = nw("legacy", "acme/legacy/v1/legacy.proto")
	w.ln(0, t(`syntax = "proto2";`))
	w.ln(0, t(""))
	w.ln(0, a("package acme.legacy.v1;", "package@decl"))
	w.ln(0, t(""))
	w.ln(0, t("// Legacy is documented."))
	w.ln(0, t("message Legacy {"))
	w.ln(1, t("// Old is documented."))
	w.ln(1, t("optional string old = 1;"))
	if ws["legacy_required"] == "yes" {
		w.ln(1, t("// Must is documented."))
		w.ln(1, t("required string "), a("must", "required@name"), t(" = 2;"))
	}
	w.ln(1, t("extensions 100 to 199;"))
	w.ln(1, t("extend Legacy {"))
	w.ln(2, t("// The nested extension is documented."))
	w.ln(2, t("optional string "), a(ws["legacy_nested_ext_name"], "nestedext@name"), t(" = 101;"))
	w.ln(1, t("}"))
	w.ln(0, t("}"))
	w.ln(0, t(""))
	w.ln(0, t("extend Legacy {"))
	w.ln(1, t("// The extension is documented."))
	w.ln(1, t("optional string "), a(ws["legacy_ext_name"], "ext@name"), t(" = 100;"))
	w.ln(0, t("}"))
	w.ln(0, t(""))
	w.ln(0, t("// Old is documented."))
	w.ln(0, t("enum Old {"))
	if ws["legacy_alias"] == "yes" {
		w.ln(1, a("option allow_alias = true;", "alias@decl"))
	}
	if ws["legacy_first_value"] == "one" {
		w.ln(1, t("// One is documented."))
		w.ln(1, t("OLD_ONE = "), a("1", "first@number"), t(";"))
		w.ln(1, t("// Unspecified is documented."))
		w.ln(1, a("OLD_UNSPECIFIED", "zero@name"), t(" = 0;"))
	} else {
		w.ln(1, t("// Unspecified is documented."))
		w.ln(1, a("OLD_UNSPECIFIED", "zero@name"), t(" = 0;"))
		w.ln(1, t("// One is documented."))
		w.ln(1, t("OLD_ONE = 1;"))
	}
	if ws["legacy_alias"] == "yes" {
		w.ln(1, t("// Uno is documented."))
		w.ln(1, t("OLD_UNO = 1;"))
	}
	w.ln(0, t("}"))
	done(w)

	// ------------------------------------------------------------ last.proto
	w = nw("last", "zeta/last/v1/last.proto")
	w.ln(0, t(`syntax = "proto3";`))
	w.ln(0, t(""))
	w.ln(0, a("package zeta.last.v1;", "package@decl"))
	w.ln(0, t(""))
	tail = w.doc(0, ws["last_c_msg"], "Last")
	w.ln(0, a("message ", "msg@decl"), a(ws["last_msg_name"], "msg@name"), t(" {"+tail))
	w.ln(1, t("// The id is documented."))
	w.ln(1, t("string id = 1;"))
	w.ln(0, t("}"))
	done(w)

	if ws["many_files"] == "yes" {
		// enough files for the parallel construction of the source files, with a remainder
		total := 8*thread.Parallelism() + 7
		for i := 0; len(files) < total; i++ {
			files[fmt.Sprintf("filler/f%04d/v1/f.proto", i)] = fmt.Sprintf("syntax = \"proto3\";\n\npackage filler.f%04d.v1;\n\n// F is documented.\nmessage F {\n  // The id is documented.\n  string id = 1;\n}\n", i)
		}
	}
	return files, anchors
}

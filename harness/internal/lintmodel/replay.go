package lintmodel

import (
	"context"
	"fmt"
	"sort"
	"strings"
	"sync"

	"github.com/bufbuild/buf/private/bufpkg/bufconfig"
	"github.com/bufbuild/verifharness/internal/bufx"
	"github.com/bufbuild/verifharness/internal/reg"
)

func init() { reg.Register("lint-replay", run) }

type expectedRec struct {
	Rule string              `json:"rule"`
	At   string              `json:"at"`
	Cats map[string][]string `json:"cats"`
}
type caseRec struct {
	W        [][2]string   `json:"w"`
	Expected []expectedRec `json:"expected"`
}
type input struct {
	Base       map[string]string   `json:"base"`
	Categories map[string][]string `json:"categories"`
	Cases      []caseRec           `json:"cases"`
	Corrupt    bool                `json:"corrupt"`
}

var versionNames = []string{"v1beta1", "v1", "v2"}

func has(l []string, x string) bool {
	for _, y := range l {
		if y == x {
			return true
		}
	}
	return false
}

// bufYAML renders the configuration document. where: "top", "module", "module-options-only" (v2 only).
func bufYAML(version, where string, use []string, ws workspace) string {
	var opts []string
	if ws["opt_zero_suffix"] != "default" {
		opts = append(opts, "enum_zero_value_suffix: "+ws["opt_zero_suffix"])
	}
	if ws["opt_service_suffix"] != "default" {
		opts = append(opts, "service_suffix: "+ws["opt_service_suffix"])
	}
	if ws["allow_same"] == "yes" {
		opts = append(opts, "rpc_allow_same_request_response: true")
	}
	if ws["allow_empty_req"] == "yes" {
		opts = append(opts, "rpc_allow_google_protobuf_empty_requests: true")
	}
	if ws["allow_empty_resp"] == "yes" {
		opts = append(opts, "rpc_allow_google_protobuf_empty_responses: true")
	}
	section := func(indent string, withUse bool) string {
		var sb strings.Builder
		sb.WriteString(indent + "lint:\n")
		if withUse {
			sb.WriteString(indent + "  use:\n")
			for _, u := range use {
				sb.WriteString(indent + "    - " + u + "\n")
			}
		}
		for _, o := range opts {
			sb.WriteString(indent + "  " + o + "\n")
		}
		return sb.String()
	}
	switch where {
	case "module":
		return "version: v2\nmodules:\n  - path: .\n" + section("    ", true)
	case "module-options-only":
		return "version: v2\nmodules:\n  - path: .\n" + section("    ", false)
	}
	return "version: " + version + "\n" + section("", true)
}

func hasOptions(ws workspace) bool {
	return ws["opt_zero_suffix"] != "default" || ws["opt_service_suffix"] != "default" || ws["allow_same"] == "yes" ||
		ws["allow_empty_req"] == "yes" || ws["allow_empty_resp"] == "yes"
}

type triple struct {
	Rule string
	Path string
	Line int
	Col  int
}

func (t triple) String() string { return fmt.Sprintf("%s@%s:%d:%d", t.Rule, t.Path, t.Line, t.Col) }

func run(in []byte) (*reg.Result, error) {
	var inp input
	if err := reg.Decode(in, &inp); err != nil {
		return nil, err
	}
	ctx := context.Background()
	client, err := bufx.CheckClient(ctx)
	if err != nil {
		return nil, err
	}
	res := &reg.Result{}
	cases := inp.Cases
	if inp.Corrupt {
		// negative control: claim an annotation the code does not owe and drop one it owes
		var keep []caseRec
		for _, c := range cases {
			if len(c.Expected) == 1 {
				c.Expected[0].At = "weather#svc@name"
				c.Expected[0].Rule = "SERVICE_SUFFIX"
				c.Expected[0].Cats = map[string][]string{"v2": {"STANDARD", "DEFAULT"}, "v1": {"DEFAULT"}, "v1beta1": {"DEFAULT"}}
				keep = append(keep, c)
				break
			}
		}
		cases = keep
	}
	var wg sync.WaitGroup
	ch := make(chan caseRec)
	var mu sync.Mutex
	lintRuns, annotationsCompared := 0, 0
	for wk := 0; wk < 16; wk++ {
		wg.Add(1)
		go func() {
			defer wg.Done()
			for c := range ch {
				ws := workspace{}
				for k, v := range inp.Base {
					ws[k] = v
				}
				var parts []string
				for _, d := range c.W {
					ws[d[0]] = d[1]
					parts = append(parts, d[0]+"="+d[1])
				}
				sort.Strings(parts)
				delta := strings.Join(parts, ",")
				if delta == "" {
					delta = "clean"
				}
				files, anchors := render(ws)
				image, err := bufx.BuildImage(ctx, files)
				if err != nil {
					res.Violate("harness/does-not-compile/"+delta, map[string]any{"workspace": delta}, "the rendered workspace does not compile: %v", err)
					continue
				}
				localRuns, localCmp := 0, 0
				check := func(version, where, label string, use []string, want map[triple]bool) {
					text := bufYAML(version, where, use, ws)
					f, err := bufconfig.ReadBufYAMLFile(strings.NewReader(text), "buf.yaml")
					if err != nil {
						res.Violate("config-error/"+version+"/"+where+"/"+delta, map[string]any{"buf.yaml": text}, "reading buf.yaml failed: %v", err)
						return
					}
					lintConfig := f.ModuleConfigs()[0].LintConfig()
					localRuns++
					as, ok := bufx.Annotations(client.Lint(ctx, lintConfig, image))
					if !ok {
						res.Violate("lint-error/"+version+"/"+label+"/"+delta, map[string]any{"buf.yaml": text}, "Lint returned an error that is not an annotation set")
						return
					}
					got := map[triple]bool{}
					for _, an := range as {
						got[triple{an.Type, an.Path, an.StartLine, an.StartCol}] = true
					}
					localCmp += len(got) + len(want)
					info := func() map[string]any {
						var g, e []string
						for k := range got {
							g = append(g, k.String())
						}
						for k := range want {
							e = append(e, k.String())
						}
						sort.Strings(g)
						sort.Strings(e)
						return map[string]any{"workspace": delta, "version": version, "config": label, "where": where, "buf.yaml": text, "reported": g, "expected": e, "annotations": as}
					}
					for k := range want {
						if !got[k] {
							res.Violate("missing/"+k.Rule+"/"+delta, info(), "%s %s (%s): %s is not reported", version, label, where, k)
						}
					}
					for k := range got {
						if !want[k] {
							res.Violate("unexpected/"+k.Rule+"/"+delta, info(), "%s %s (%s): %s is reported, the specification does not expect it", version, label, where, k)
						}
					}
				}
				wantFor := func(version string, pred func(e expectedRec) bool) (map[triple]bool, bool) {
					want := map[triple]bool{}
					for _, e := range c.Expected {
						if !pred(e) {
							continue
						}
						p, ok := anchors[e.At]
						if !ok {
							res.Violate("harness/unknown-anchor/"+e.At, map[string]any{"workspace": delta}, "the renderer has no anchor %q", e.At)
							return nil, false
						}
						want[triple{e.Rule, p.Path, p.Line, p.Col}] = true
					}
					return want, true
				}
				for _, version := range versionNames {
					wheres := []string{"top"}
					if version == "v2" {
						wheres = append(wheres, "module")
					}
					for _, cat := range inp.Categories[version] {
						want, ok := wantFor(version, func(e expectedRec) bool { return has(e.Cats[version], cat) })
						if !ok {
							continue
						}
						for _, where := range wheres {
							check(version, where, cat, []string{cat}, want)
						}
					}
					if version == "v2" && hasOptions(ws) {
						// a module-level lint section that only carries options: the default rules (STANDARD) with these options
						if want, ok := wantFor(version, func(e expectedRec) bool { return has(e.Cats[version], "STANDARD") }); ok {
							check(version, "module-options-only", "STANDARD", nil, want)
						}
					}
					// single-rule configurations
					done := map[string]bool{}
					for _, e := range c.Expected {
						if done[e.Rule] || len(e.Cats[version]) == 0 {
							continue
						}
						done[e.Rule] = true
						rule := e.Rule
						if want, ok := wantFor(version, func(x expectedRec) bool { return x.Rule == rule }); ok {
							check(version, "top", "single-rule:"+rule, []string{rule}, want)
						}
					}
				}
				mu.Lock()
				lintRuns += localRuns
				annotationsCompared += localCmp
				mu.Unlock()
				res.Count(1, 1)
			}
		}()
	}
	for _, c := range cases {
		ch <- c
	}
	close(ch)
	wg.Wait()
	res.Evaluations = lintRuns
	res.SetExtra("lint_runs", lintRuns)
	res.SetExtra("annotations_compared", annotationsCompared)
	res.SetExtra("workspaces", len(cases))
	if len(cases) > 0 {
		res.Sample(map[string]any{"workspace": cases[len(cases)/2].W, "expected": cases[len(cases)/2].Expected})
	}
	return res, nil
}

// Package filtermodel replays specs/image/TypeFilter.tla (C12) against bufimageutil.FilterImage.
package filtermodel

import (
	"context"
	"fmt"
	"sort"
	"strings"
	"sync"

	"github.com/bufbuild/buf/private/bufpkg/bufimage"
	"github.com/bufbuild/buf/private/bufpkg/bufimage/bufimageutil"
	"github.com/bufbuild/buf/private/bufpkg/bufmodule/bufmoduletesting"
	"github.com/bufbuild/verifharness/internal/bufx"
	"github.com/bufbuild/verifharness/internal/reg"
	"google.golang.org/protobuf/proto"
	"google.golang.org/protobuf/reflect/protodesc"
	"google.golang.org/protobuf/types/descriptorpb"
)

func init() { reg.Register("filter-replay", run) }

type caseRec struct {
	Include       []string `json:"include"`
	Exclude       []string `json:"exclude"`
	CustomOptions bool     `json:"customOptions"`
	KnownExt      bool     `json:"knownExt"`
	// LibImport: c.proto and e.proto are imports of the image (a module that is not targeted)
	LibImport bool `json:"libImport"`
	// Optional: elements of imports that may survive an exclude-only filter although nothing needs them
	Optional []string `json:"optional"`
	Conflict bool     `json:"conflict"`
	Survive  []string `json:"survive"`
	Shells   []string `json:"shells"`
	Fields   []struct {
		M      string   `json:"m"`
		Fields []string `json:"fields"`
	} `json:"fields"`
	Excluded []string `json:"excluded"`
	Imports  []struct {
		From string `json:"from"`
		To   string `json:"to"`
	} `json:"imports"`
}

type input struct {
	Cases   []caseRec `json:"cases"`
	Corrupt bool      `json:"corrupt"`
}

var fullName = map[string]string{
	"In": "pkg.In", "Out": "pkg.Out", "Detail": "pkg.Detail", "Inner": "pkg.Detail.Inner", "Kind": "pkg.Detail.Kind", "Color": "pkg.Color",
	"Unrelated": "pkg.Unrelated", "MapVal": "pkg.MapVal", "Ext": "pkg.Ext", "ExtVal": "pkg.ExtVal", "ext_field": "pkg.ext_field",
	"WithOpt": "pkg.WithOpt", "Svc": "pkg.Svc", "Get": "pkg.Svc.Get", "Other": "pkg.Svc.Other", "Lonely": "pkg.Lonely",
	"OptMsg": "opts.OptMsg", "msg_opt": "opts.msg_opt", "field_opt": "opts.field_opt", "pkg": "pkg", "opts": "opts",
	"WithOpt2": "pkg.WithOpt2", "UsesKind": "pkg.UsesKind", "Payload": "pkg.Payload", "Holder": "opts.Holder", "any_opt": "opts.any_opt", "WithAny": "pkg.WithAny",
	"Far": "pkg.Svc.Far", "Remote": "pkg.Remote",
	"ChainVal": "pkg.ChainVal", "ext_chain": "pkg.ext_chain", "ext_leaf": "pkg.ext_leaf",
	"First": "pkg.First", "Nested1": "pkg.First.Nested1",
	"RemoteExtra": "pkg.RemoteExtra", "Deep": "pkg.Deep",
}

var sources = map[string]string{
	"a.proto": `syntax = "proto2";
package pkg;
import "opts.proto";
import "c.proto";
// c:pkg.In
message In {
  // c:pkg.In.q
  optional string q = 1;
}
// c:pkg.Out
message Out {
  // c:pkg.Out.d
  optional Detail d = 1;
  // c:pkg.Out.c
  optional Color c = 2;
}
// c:pkg.Detail
message Detail {
  // c:pkg.Detail.s
  optional string s = 1;
  // c:pkg.Detail.Inner
  message Inner {
    // c:pkg.Detail.Inner.i
    optional int32 i = 1;
  }
  // c:pkg.Detail.inner
  optional Inner inner = 2;
  // c:pkg.Detail.Kind
  enum Kind {
    K0 = 0;
  }
  // c:pkg.Detail.kind
  optional Kind kind = 3;
}
// c:pkg.Color
enum Color {
  RED = 0;
}
// c:pkg.Unrelated
message Unrelated {
  // c:pkg.Unrelated.u
  optional string u = 1;
  // c:pkg.Unrelated.m
  map<string, MapVal> m = 2;
  oneof choice {
    // c:pkg.Unrelated.in
    In in = 3;
    // c:pkg.Unrelated.out
    Out out = 4;
  }
}
// c:pkg.MapVal
message MapVal {
  // c:pkg.MapVal.v
  optional int32 v = 1;
}
// c:pkg.Ext
message Ext {
  extensions 100 to 200;
}
extend Ext {
  // c:pkg.ext_field
  optional ExtVal ext_field = 100;
}
// c:pkg.ExtVal
message ExtVal {
  // c:pkg.ExtVal.e
  optional string e = 1;
  extensions 100 to 200;
}
extend ExtVal {
  // c:pkg.ext_chain
  optional ChainVal ext_chain = 100;
}
// c:pkg.ChainVal
message ChainVal {
  // c:pkg.ChainVal.cv
  optional string cv = 1;
  extensions 100 to 200;
}
extend ChainVal {
  // c:pkg.ext_leaf
  optional string ext_leaf = 100;
}
// c:pkg.WithOpt
message WithOpt {
  option (opts.msg_opt) = { note: "x" };
  // c:pkg.WithOpt.w
  optional string w = 1 [(opts.field_opt) = "f"];
}
// c:pkg.Svc
service Svc {
  // c:pkg.Svc.Get
  rpc Get(In) returns (Out);
  // c:pkg.Svc.Other
  rpc Other(Unrelated) returns (MapVal);
  // c:pkg.Svc.Far
  rpc Far(In) returns (Remote);
}
`,
	"c.proto": `syntax = "proto2";
package pkg;
import "e.proto";
// c:pkg.Remote
message Remote {
  // c:pkg.Remote.r
  optional string r = 1;
}
// c:pkg.RemoteExtra
message RemoteExtra {
  // c:pkg.RemoteExtra.deep
  optional Deep deep = 1;
}
`,
	"e.proto": `syntax = "proto2";
package pkg;
// c:pkg.Deep
message Deep {
  // c:pkg.Deep.dp
  optional string dp = 1;
}
`,
	"d.proto": `syntax = "proto2";
package pkg;
// c:pkg.First
message First {
  // c:pkg.First.f
  optional string f = 1;
  // c:pkg.First.Nested1
  message Nested1 {
    // c:pkg.First.Nested1.n
    optional string n = 1;
  }
}
`,
	"lonely.proto": `syntax = "proto2";
package pkg;
// c:pkg.Lonely
message Lonely {
  // c:pkg.Lonely.l
  optional string l = 1;
}
`,
	"b.proto": `syntax = "proto2";
package pkg;
import "opts.proto";
import weak "a.proto";
// c:pkg.WithOpt2
message WithOpt2 {
  // c:pkg.WithOpt2.w2
  optional string w2 = 1 [(opts.field_opt) = "g"];
}
// c:pkg.UsesKind
message UsesKind {
  // c:pkg.UsesKind.k
  optional Detail.Kind k = 1;
}
// c:pkg.Payload
message Payload {
  // c:pkg.Payload.p
  optional string p = 1;
}
// c:pkg.WithAny
message WithAny {
  option (opts.any_opt) = { extra: [ { type_url: "types.example.com/schemas/v1/pkg.Payload" value: "\x0a\x01x" } ] };
  // c:pkg.WithAny.a
  optional string a = 1;
}
`,
	"notypes.proto": `syntax = "proto2";
package pkg;
option java_package = "com.example.notypes";
`,
	"opts.proto": `syntax = "proto2";
package opts;
import "google/protobuf/descriptor.proto";
import "google/protobuf/any.proto";
// c:opts.OptMsg
message OptMsg {
  // c:opts.OptMsg.note
  optional string note = 1;
}
extend google.protobuf.MessageOptions {
  // c:opts.msg_opt
  optional OptMsg msg_opt = 50001;
}
extend google.protobuf.FieldOptions {
  // c:opts.field_opt
  optional string field_opt = 50002;
}
// c:opts.Holder
message Holder {
  // c:opts.Holder.extra
  repeated google.protobuf.Any extra = 1;
}
extend google.protobuf.MessageOptions {
  // c:opts.any_opt
  optional Holder any_opt = 50003;
}
`,
}

type elemInfo struct {
	kind    string
	fields  []string
	comment string
	msg     *descriptorpb.DescriptorProto
}

// collect lists the named elements of the pkg / opts packages with their leading comments.
func collect(image bufimage.Image) map[string]*elemInfo {
	var fds []*descriptorpb.FileDescriptorProto
	for _, f := range image.Files() {
		fds = append(fds, f.FileDescriptorProto())
	}
	return collectFiles(fds)
}

func collectFiles(fds []*descriptorpb.FileDescriptorProto) map[string]*elemInfo {
	out := map[string]*elemInfo{}
	for _, fd := range fds {
		if fd.GetPackage() != "pkg" && fd.GetPackage() != "opts" {
			continue
		}
		comments := map[string]string{}
		for _, l := range fd.GetSourceCodeInfo().GetLocation() {
			if l.LeadingComments != nil {
				comments[fmt.Sprint(l.Path)] = strings.TrimSpace(l.GetLeadingComments())
			}
		}
		var walkMsg func(prefix string, path []int32, m *descriptorpb.DescriptorProto)
		walkMsg = func(prefix string, path []int32, m *descriptorpb.DescriptorProto) {
			if m.GetOptions().GetMapEntry() {
				return
			}
			name := prefix + "." + m.GetName()
			e := &elemInfo{kind: "message", comment: comments[fmt.Sprint(path)], msg: m}
			for fi, fld := range m.Field {
				e.fields = append(e.fields, fld.GetName())
				fp := append(append([]int32{}, path...), 2, int32(fi))
				out[name+"."+fld.GetName()+"#field"] = &elemInfo{kind: "field", comment: comments[fmt.Sprint(fp)]}
			}
			sort.Strings(e.fields)
			out[name] = e
			for ni, n := range m.NestedType {
				walkMsg(name, append(append([]int32{}, path...), 3, int32(ni)), n)
			}
			for ei, en := range m.EnumType {
				out[name+"."+en.GetName()] = &elemInfo{kind: "enum", comment: comments[fmt.Sprint(append(append([]int32{}, path...), 4, int32(ei)))]}
			}
			for xi, x := range m.Extension {
				out[name+"."+x.GetName()] = &elemInfo{kind: "extension", comment: comments[fmt.Sprint(append(append([]int32{}, path...), 6, int32(xi)))]}
			}
		}
		for mi, m := range fd.MessageType {
			walkMsg(fd.GetPackage(), []int32{4, int32(mi)}, m)
		}
		for ei, en := range fd.EnumType {
			out[fd.GetPackage()+"."+en.GetName()] = &elemInfo{kind: "enum", comment: comments[fmt.Sprint([]int32{5, int32(ei)})]}
		}
		for si, s := range fd.Service {
			sn := fd.GetPackage() + "." + s.GetName()
			out[sn] = &elemInfo{kind: "service", comment: comments[fmt.Sprint([]int32{6, int32(si)})]}
			for mi, m := range s.Method {
				out[sn+"."+m.GetName()] = &elemInfo{kind: "method", comment: comments[fmt.Sprint([]int32{6, int32(si), 2, int32(mi)})]}
			}
		}
		for xi, x := range fd.Extension {
			out[fd.GetPackage()+"."+x.GetName()] = &elemInfo{kind: "extension", comment: comments[fmt.Sprint([]int32{7, int32(xi)})]}
		}
	}
	return out
}

func names(short []string) []string {
	var out []string
	for _, s := range short {
		out = append(out, fullName[s])
	}
	sort.Strings(out)
	return out
}

func filterOpts(c caseRec, inPlace bool) []bufimageutil.ImageFilterOption {
	opts := []bufimageutil.ImageFilterOption{bufimageutil.WithAllowIncludeOfImportedType()}
	if !c.KnownExt {
		opts = append(opts, bufimageutil.WithExcludeKnownExtensions())
	}
	if len(c.Include) > 0 {
		opts = append(opts, bufimageutil.WithIncludeTypes(names(c.Include)...))
	}
	if len(c.Exclude) > 0 {
		opts = append(opts, bufimageutil.WithExcludeTypes(names(c.Exclude)...))
	}
	if !c.CustomOptions {
		opts = append(opts, bufimageutil.WithExcludeCustomOptions())
	}
	if inPlace {
		opts = append(opts, bufimageutil.WithMutateInPlace())
	}
	return opts
}

func role(c caseRec) string {
	// which role do the excluded names play in the schema: used for finding signatures
	var roles []string
	for _, x := range c.Exclude {
		switch x {
		case "In", "Unrelated":
			roles = append(roles, "rpc-input")
		case "Out", "MapVal":
			roles = append(roles, "rpc-output")
		default:
			roles = append(roles, "other")
		}
	}
	sort.Strings(roles)
	return strings.Join(roles, "+")
}

func run(in []byte) (*reg.Result, error) {
	var inp input
	if err := reg.Decode(in, &inp); err != nil {
		return nil, err
	}
	ctx := context.Background()
	base, err := bufx.BuildImage(ctx, sources)
	if err != nil {
		return nil, err
	}
	// the same schema with c.proto and e.proto in a module that is not targeted
	libFiles, mainFiles := map[string][]byte{}, map[string][]byte{}
	for p, src := range sources {
		if p == "c.proto" || p == "e.proto" {
			libFiles[p] = []byte(src)
		} else {
			mainFiles[p] = []byte(src)
		}
	}
	ms, err := bufx.ModuleSet(
		bufmoduletesting.ModuleData{Name: "buf.test/verif/lib", PathToData: libFiles, NotTargeted: true},
		bufmoduletesting.ModuleData{Name: "buf.test/verif/main", PathToData: mainFiles},
	)
	if err != nil {
		return nil, err
	}
	baseLib, err := bufx.BuildImageForModuleSet(ctx, ms)
	if err != nil {
		return nil, err
	}
	orig := collect(base)
	if inp.Corrupt {
		for i := range inp.Cases {
			if !inp.Cases[i].Conflict && len(inp.Cases[i].Survive) > 2 {
				inp.Cases[i].Survive = inp.Cases[i].Survive[1:]
				inp.Cases = inp.Cases[i : i+1]
				break
			}
		}
	}
	res := &reg.Result{}
	const workers = 16
	var wg sync.WaitGroup
	var emu sync.Mutex
	var firstErr error
	for wk := 0; wk < workers; wk++ {
		wg.Add(1)
		go func(wk int) {
			defer wg.Done()
			for i := wk; i < len(inp.Cases); i += workers {
				c := inp.Cases[i]
				for _, inPlace := range []bool{false, true} {
					base := base
					if c.LibImport {
						base = baseLib
					}
					img, err := bufimage.CloneImage(base)
					if err != nil {
						emu.Lock()
						firstErr = err
						emu.Unlock()
						return
					}
					res.Count(1, 0)
					kind := "include+exclude"
					if len(c.Include) == 0 {
						kind = "exclude-only"
					} else if len(c.Exclude) == 0 {
						kind = "include-only"
					}
					caseInfo := map[string]any{"include": names(c.Include), "exclude": names(c.Exclude), "custom_options": c.CustomOptions, "known_extensions": c.KnownExt, "in_place": inPlace, "lib_files_are_imports": c.LibImport}
					sig := fmt.Sprintf("%s/include=%s/exclude=%s", kind, strings.Join(names(c.Include), ","), strings.Join(names(c.Exclude), ","))
					if c.LibImport {
						sig += "/lib-files-as-imports"
					}
					out, err := bufimageutil.FilterImage(img, filterOpts(c, inPlace)...)
					if !inPlace {
						// a copying filter leaves its input as it was (descriptors and source info): the next filter or
						// plugin on the same image must see what the first one saw
						for _, f := range base.Files() {
							g := img.GetFile(f.Path())
							if g == nil || !proto.Equal(f.FileDescriptorProto(), g.FileDescriptorProto()) {
								res.Violate("input-modified/"+sig, caseInfo, "FilterImage without WithMutateInPlace changed its input image: file %s differs afterwards", f.Path())
								break
							}
						}
					}
					if c.Conflict {
						// the filter contradicts itself (it includes what it excludes, or something that cannot
						// exist without an excluded type): an error and a quietly reduced result are both
						// compatible with the property, nothing further is compared
						continue
					}
					if err != nil && len(c.Survive) == 0 {
						continue // nothing survives: "image contains no files" is as good as an empty image
					}
					if err != nil {
						res.Violate("unexpected-error/"+kind+"/excluded-role="+role(c)+"/"+sig, caseInfo, "a filter over existing names with no include/exclude conflict failed: %v", err)
						continue
					}
					// links
					fds := &descriptorpb.FileDescriptorSet{}
					for _, f := range out.Files() {
						fds.File = append(fds.File, f.FileDescriptorProto())
					}
					if _, err := protodesc.NewFiles(fds); err != nil {
						res.Violate("does-not-link/"+sig, caseInfo, "the filtered image does not link: %v", err)
						continue
					}
					// import modifiers are kept: a weak (public) dependency of a surviving file still names a file that was a weak
					// (public) import of it
					modifiersOK := true
					for _, f := range out.Files() {
						fd := f.FileDescriptorProto()
						of := base.GetFile(f.Path())
						if of == nil {
							continue
						}
						ofd := of.FileDescriptorProto()
						check := func(kind string, idxs []int32, origIdxs []int32) {
							orig := map[string]bool{}
							for _, i := range origIdxs {
								orig[ofd.Dependency[i]] = true
							}
							for _, i := range idxs {
								if int(i) >= len(fd.Dependency) || !orig[fd.Dependency[i]] {
									modifiersOK = false
									res.Violate("import-modifier/"+kind+"/"+sig, caseInfo, "file %s: %s_dependency %v over the dependencies %v does not name the %s imports of the original (%v over %v)", f.Path(), kind, idxs, fd.Dependency, kind, origIdxs, ofd.Dependency)
									return
								}
							}
						}
						check("weak", fd.WeakDependency, ofd.WeakDependency)
						check("public", fd.PublicDependency, ofd.PublicDependency)
					}
					if !modifiersOK {
						continue
					}
					// self-contained: every import the specification says a surviving file needs is still declared
					for _, imp := range c.Imports {
						f := out.GetFile(imp.From)
						if f == nil {
							res.Violate("import-missing/"+sig, caseInfo, "file %s is not in the filtered image although elements of it survive", imp.From)
							continue
						}
						found := false
						for _, d := range f.FileDescriptorProto().Dependency {
							if d == imp.To {
								found = true
							}
						}
						if !found {
							res.Violate("import-missing/"+sig, caseInfo, "file %s no longer imports %s although a surviving element of it needs a declaration of that file (dependencies: %v)", imp.From, imp.To, f.FileDescriptorProto().Dependency)
						}
					}
					got := collect(out)
					var gotNames []string
					for n, e := range got {
						if e.kind != "field" {
							gotNames = append(gotNames, n)
						}
					}
					sort.Strings(gotNames)
					if c.KnownExt && !inPlace {
						// retention follows chains of extensions: the result must not depend on the order in which the
						// closure happens to visit the messages
						for rep := 0; rep < 6; rep++ {
							again, err := bufimageutil.FilterImage(base, filterOpts(c, false)...)
							if err != nil {
								res.Violate("nondeterministic/known-extensions/"+sig, caseInfo, "the same filter on the same image succeeded once and failed then: %v", err)
								break
							}
							var againNames []string
							for n, e := range collect(again) {
								if e.kind != "field" {
									againNames = append(againNames, n)
								}
							}
							sort.Strings(againNames)
							if strings.Join(againNames, ",") != strings.Join(gotNames, ",") {
								res.Violate("nondeterministic/known-extensions/"+sig, caseInfo, "the same filter on the same image gave %v and then %v", gotNames, againNames)
								break
							}
						}
					}
					want := names(c.Survive)
					if len(c.Optional) > 0 {
						// elements of imports that nothing needs may survive an exclude-only filter: drop them from the comparison
						optional := map[string]bool{}
						for _, n := range names(c.Optional) {
							optional[n] = true
						}
						var kept []string
						for _, n := range gotNames {
							if !optional[n] {
								kept = append(kept, n)
							}
						}
						gotNames = kept
					}
					if strings.Join(gotNames, ",") != strings.Join(want, ",") {
						esig := "elements/" + sig
						for _, x := range c.Exclude {
							if (x == "OptMsg" || x == "Holder") && c.CustomOptions {
								esig = "elements/custom-option-value-type-excluded"
							}
						}
						res.Violate(esig, caseInfo, "surviving elements differ:\n got %v\nwant %v", gotNames, want)
						continue
					}
					for _, f := range c.Fields {
						fn := fullName[f.M]
						wf := append([]string{}, f.Fields...)
						sort.Strings(wf)
						if strings.Join(got[fn].fields, ",") != strings.Join(wf, ",") {
							res.Violate("fields/"+sig, caseInfo, "message %s keeps fields %v, the specification keeps %v", fn, got[fn].fields, wf)
						}
						// surviving fields are unchanged
						for _, gf := range got[fn].msg.Field {
							for _, of := range orig[fn].msg.Field {
								if of.GetName() == gf.GetName() {
									a, b := proto.Clone(gf).(*descriptorpb.FieldDescriptorProto), proto.Clone(of).(*descriptorpb.FieldDescriptorProto)
									a.OneofIndex, b.OneofIndex = nil, nil
									if !c.CustomOptions {
										a.Options, b.Options = nil, nil
									}
									if !proto.Equal(a, b) {
										res.Violate("changed/"+sig, caseInfo, "field %s.%s changed: %v vs %v", fn, gf.GetName(), a, b)
									}
								}
							}
						}
					}
					// comments stay attached to the same element
					shells := map[string]bool{}
					for _, s := range c.Shells {
						shells[fullName[s]] = true
					}
					for n, e := range got {
						if shells[strings.TrimSuffix(n, "#field")] {
							continue
						}
						if o, ok := orig[n]; ok && o.comment != e.comment {
							res.Violate("comment/"+sig, caseInfo, "comment of %s is %q after filtering, was %q", n, e.comment, o.comment)
						}
					}
					// idempotent: the names that still exist in the result are applied again
					// (excluded names are gone by construction and cannot be named a second time)
					c2 := c
					c2.Include, c2.Exclude = nil, nil
					for _, n := range c.Include {
						if _, ok := got[fullName[n]]; ok || n == "pkg" || n == "opts" {
							c2.Include = append(c2.Include, n)
						}
					}
					for _, n := range c.Exclude {
						if _, ok := got[fullName[n]]; ok {
							c2.Exclude = append(c2.Exclude, n)
						}
					}
					if len(c2.Include)+len(c2.Exclude) > 0 && len(c2.Include) == len(c.Include) {
						again, err := bufimageutil.FilterImage(out, filterOpts(c2, false)...)
						if err != nil {
							res.Violate("not-idempotent/"+sig, caseInfo, "applying the same filter to its own result fails: %v", err)
						} else {
							a, _ := bufx.MarshalImage(out)
							b, _ := bufx.MarshalImage(again)
							if string(a) != string(b) {
								isig := "not-idempotent/" + sig
								for _, x := range c.Exclude {
									if (x == "OptMsg" || x == "Holder") && c.CustomOptions {
										// the message type of a custom option that a surviving element uses is excluded
										isig = "not-idempotent/custom-option-value-type-excluded"
									}
								}
								res.Violate(isig, caseInfo, "applying the same filter twice differs from applying it once")
							}
						}
					}
				}
				if i < 2 {
					res.Sample(map[string]any{"include": names(c.Include), "exclude": names(c.Exclude), "survive": names(c.Survive)})
				}
			}
		}(wk)
	}
	wg.Wait()
	if firstErr != nil {
		return nil, firstErr
	}
	res.Distinct = len(inp.Cases)
	return res, nil
}

package filtermodel

// End-to-end stage of C12 (the observation points the property names): the filters of TypeFilter.tla that include
// something, with the defaults of the command line (custom options and known extensions retained), through the buf
// binary: `buf build --type ... -o` and `buf generate` with a plugin that has `types` / `exclude_types` next to an
// unfiltered one (or with the --type / --exclude-type flags). The descriptors that come out / that the plugins
// receive are judged by the same element sets as the library stage.

import (
	"bytes"
	"fmt"
	"os"
	"os/exec"
	"path/filepath"
	"sort"
	"strings"
	"sync"

	"github.com/bufbuild/verifharness/internal/reg"
	"google.golang.org/protobuf/proto"
	"google.golang.org/protobuf/types/descriptorpb"
)

func init() { reg.Register("filter-cli", runCLI) }

type cliInput struct {
	Buf     string    `json:"buf"`
	Exe     string    `json:"exe"`
	Cases   []caseRec `json:"cases"`
	Corrupt bool      `json:"corrupt"`
}

func elementNames(fds []*descriptorpb.FileDescriptorProto) []string {
	var out []string
	for n, e := range collectFiles(fds) {
		if e.kind != "field" {
			out = append(out, n)
		}
	}
	sort.Strings(out)
	return out
}

func readSet(path string) ([]*descriptorpb.FileDescriptorProto, error) {
	b, err := os.ReadFile(path)
	if err != nil {
		return nil, err
	}
	// (an image is wire-compatible with a FileDescriptorSet; the buf extension is an unknown field here)
	set := &descriptorpb.FileDescriptorSet{}
	if err := (proto.UnmarshalOptions{DiscardUnknown: true}).Unmarshal(b, set); err != nil {
		return nil, err
	}
	return set.File, nil
}

func runCLI(in []byte) (*reg.Result, error) {
	var inp cliInput
	if err := reg.Decode(in, &inp); err != nil {
		return nil, err
	}
	exe := inp.Exe
	if exe == "" {
		exe, _ = os.Executable()
	}
	res := &reg.Result{}
	work := filepath.Join(reg.WorkDir(), "filter-cli")
	defer os.RemoveAll(work)
	var wg sync.WaitGroup
	ch := make(chan int)
	var emu sync.Mutex
	var firstErr error
	fail := func(err error) {
		emu.Lock()
		if firstErr == nil {
			firstErr = err
		}
		emu.Unlock()
	}
	var allNames []string
	for wk := 0; wk < 16; wk++ {
		wg.Add(1)
		go func(wk int) {
			defer wg.Done()
			root := filepath.Join(work, fmt.Sprintf("w%d", wk))
			for i := range ch {
				c := inp.Cases[i]
				if !c.CustomOptions || !c.KnownExt || len(c.Include) == 0 || c.LibImport {
					continue
				}
				if err := os.RemoveAll(root); err != nil {
					fail(err)
					continue
				}
				ws, dump := filepath.Join(root, "ws"), filepath.Join(root, "dump")
				_ = os.MkdirAll(dump, 0o755)
				_ = os.MkdirAll(ws, 0o755)
				for name, src := range sources {
					if err := os.WriteFile(filepath.Join(ws, name), []byte(src), 0o644); err != nil {
						fail(err)
					}
				}
				_ = os.WriteFile(filepath.Join(ws, "buf.yaml"), []byte("version: v2\n"), 0o644)
				runBuf := func(args ...string) (string, int) {
					cmd := exec.Command(inp.Buf, args...)
					cmd.Dir = ws
					cmd.Env = append(os.Environ(), "HOME="+root, "BUF_CACHE_DIR="+filepath.Join(root, "cache"), "NO_COLOR=1")
					var stderr bytes.Buffer
					cmd.Stderr = &stderr
					err := cmd.Run()
					code := 0
					if ee, ok := err.(*exec.ExitError); ok {
						code = ee.ExitCode()
					} else if err != nil {
						code = -1
					}
					return stderr.String(), code
				}
				want := names(c.Survive)
				if inp.Corrupt {
					want = append(want, "pkg.ZzzNotThere") // negative control: claim an element that cannot be there
				}
				info := map[string]any{"include": names(c.Include), "exclude": names(c.Exclude)}
				sig := fmt.Sprintf("include=%s/exclude=%s", strings.Join(names(c.Include), ","), strings.Join(names(c.Exclude), ","))
				res.Count(1, 1)
				// 1. buf build --type (includes only)
				if len(c.Exclude) == 0 {
					args := []string{"build", ".", "-o", filepath.Join(root, "out.binpb")}
					for _, n := range names(c.Include) {
						args = append(args, "--type", n)
					}
					if stderr, code := runBuf(args...); code != 0 {
						res.Violate("cli/build-type/error/"+sig, info, "buf build --type failed for a filter without conflict: %s", stderr)
					} else if fds, err := readSet(filepath.Join(root, "out.binpb")); err != nil {
						fail(err)
					} else if got := elementNames(fds); strings.Join(got, ",") != strings.Join(want, ",") {
						res.Violate("cli/build-type/elements/"+sig, info, "buf build --type: surviving elements differ:\n got %v\nwant %v", got, want)
					}
					// the same with --exclude-imports: the imports of this workspace are well-known types only, the filter must
					// still be able to look up what the kept types need in them
					args = append(args[:3], append([]string{filepath.Join(root, "out2.binpb"), "--exclude-imports"}, args[4:]...)...)
					if stderr, code := runBuf(args...); code != 0 {
						res.Violate("cli/build-type-exclude-imports/error/"+sig, info, "buf build --type --exclude-imports failed for a filter without conflict: %s", stderr)
					} else if fds, err := readSet(filepath.Join(root, "out2.binpb")); err != nil {
						fail(err)
					} else if got := elementNames(fds); strings.Join(got, ",") != strings.Join(want, ",") {
						res.Violate("cli/build-type-exclude-imports/elements/"+sig, info, "buf build --type --exclude-imports: surviving elements differ:\n got %v\nwant %v", got, want)
					}
				}
				// 2. buf generate: a filtered plugin next to an unfiltered one, or the filter given as flags
				viaFlags := i%3 == 2
				plugin := func(name string, filtered bool) string {
					s := fmt.Sprintf("  - local: [%q, \"codegen-plugin\"]\n    out: gen-%s\n    strategy: all\n    opt:\n      - dump=%s\n      - name=%s\n", exe, name, dump, name)
					if filtered {
						if len(c.Include) > 0 {
							s += "    types:\n"
							for _, n := range names(c.Include) {
								s += "      - " + n + "\n"
							}
						}
						if len(c.Exclude) > 0 {
							s += "    exclude_types:\n"
							for _, n := range names(c.Exclude) {
								s += "      - " + n + "\n"
							}
						}
					}
					return s
				}
				gen := "version: v2\nplugins:\n"
				args := []string{"generate"}
				if viaFlags {
					gen += plugin("p1", false)
					for _, n := range names(c.Include) {
						args = append(args, "--type", n)
					}
					for _, n := range names(c.Exclude) {
						args = append(args, "--exclude-type", n)
					}
				} else if i%2 == 0 {
					gen += plugin("p1", true) + plugin("p2", false)
				} else {
					gen += plugin("p2", false) + plugin("p1", true)
				}
				info["buf.gen.yaml"], info["args"] = gen, args
				_ = os.WriteFile(filepath.Join(ws, "buf.gen.yaml"), []byte(gen), 0o644)
				stderr, code := runBuf(args...)
				if c.Conflict {
					continue // an error and a quietly reduced result are both compatible with the property
				}
				if code != 0 {
					if len(c.Survive) == 0 {
						continue
					}
					res.Violate("cli/generate/error/"+sig, info, "buf generate failed for a filter without conflict: %s", stderr)
					continue
				}
				entries, _ := os.ReadDir(dump)
				seen := map[string]bool{}
				for _, e := range entries {
					fds, err := readSet(filepath.Join(dump, e.Name()))
					if err != nil {
						fail(err)
						continue
					}
					got := elementNames(fds)
					switch {
					case strings.HasPrefix(e.Name(), "p1-"):
						seen["p1"] = true
						if strings.Join(got, ",") != strings.Join(want, ",") {
							vsig := "cli/generate/filtered-plugin/" + sig
							for _, x := range c.Exclude {
								if x == "OptMsg" || x == "Holder" {
									// the message type of a custom option that a surviving element uses is excluded (same
									// defect as in the library stage)
									vsig = "elements/custom-option-value-type-excluded"
								}
							}
							res.Violate(vsig, info, "the filtered plugin received other elements than the specification keeps:\n got %v\nwant %v", got, want)
						}
					case strings.HasPrefix(e.Name(), "p2-"):
						seen["p2"] = true
						var wantAll []string
						for k, v := range fullName {
							if k != "pkg" && k != "opts" {
								wantAll = append(wantAll, v)
							}
						}
						sort.Strings(wantAll)
						emu.Lock()
						allNames = got
						emu.Unlock()
						if strings.Join(got, ",") != strings.Join(wantAll, ",") {
							res.Violate("cli/generate/unfiltered-plugin/"+sig, info, "the plugin without a filter did not receive the whole schema: %v", got)
						}
					}
				}
				if !seen["p1"] && len(want) > 0 {
					res.Violate("cli/generate/filtered-plugin-not-run/"+sig, info, "the filtered plugin was not run although elements survive: %s", stderr)
				}
			}
		}(wk)
	}
	for i := range inp.Cases {
		ch <- i
	}
	close(ch)
	wg.Wait()
	if firstErr != nil {
		return nil, firstErr
	}
	res.SetExtra("schema_elements_seen_by_the_unfiltered_plugin", len(allNames))
	return res, nil
}

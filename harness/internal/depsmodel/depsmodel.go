// Package depsmodel replays specs/image/Workspace.tla (C10): module sets with local and pinned remote
// modules (several commits of one name, a name present locally and remotely), import graphs with
// cycles, duplicate providers and missing imports; Module.ModuleDeps, ModuleSetToDAG, the selected
// commit / local-over-remote precedence and ls-files-vs-build are compared with the specification.
package depsmodel

import (
	"context"
	"errors"
	"fmt"
	"io/fs"
	"sort"
	"strings"
	"sync"
	"time"

	"github.com/bufbuild/buf/private/bufpkg/bufimage"
	"github.com/bufbuild/buf/private/bufpkg/bufmodule"
	"github.com/bufbuild/buf/private/bufpkg/bufmodule/bufmoduletesting"
	"github.com/bufbuild/buf/private/bufpkg/bufparse"
	"github.com/bufbuild/buf/private/gen/data/datawkt"
	"github.com/bufbuild/verifharness/internal/bufx"
	"github.com/bufbuild/verifharness/internal/reg"
	"github.com/google/uuid"
)

func init() { reg.Register("deps-replay", run) }

type resultRec struct {
	Kind           string `json:"kind"`
	CycleReachable bool   `json:"cycleReachable"`
	Deps           []struct {
		Module string `json:"module"`
		Direct bool   `json:"direct"`
	} `json:"deps"`
}

type caseRec struct {
	ImpA1          []string             `json:"impA1"`
	ImpA2          []string             `json:"impA2"`
	ImpB1          []string             `json:"impB1"`
	BKind          string               `json:"bKind"`
	CCommits       []int                `json:"cCommits"`
	DupPath        bool                 `json:"dupPath"`
	Missing        bool                 `json:"missing"`
	WktVendored    bool                 `json:"wktVendored"`
	WktVendoredC   bool                 `json:"wktVendoredC"`
	BuildMustFailA bool                 `json:"buildMustFailA"`
	Newest         int                  `json:"newest"`
	AnyCycle       bool                 `json:"anyCycle"`
	FromTargets    []string             `json:"fromTargets"`
	Results        map[string]resultRec `json:"results"`
}

type input struct {
	Cases   []caseRec `json:"cases"`
	Corrupt bool      `json:"corrupt"`
}

var pathOf = map[string]string{"a1": "a/a1.proto", "a2": "a/a2.proto", "b1": "b/b1.proto", "c1": "c/c1.proto", "wkt": "google/protobuf/type.proto"}
var pkgOf = map[string]string{"a1": "pa1", "a2": "pa2", "b1": "pb1", "c1": "pc1"}

func render(f string, imports []string, extraImport string, marker string) []byte {
	var sb strings.Builder
	sb.WriteString("syntax = \"proto3\";\npackage " + pkgOf[f] + ";\n")
	for _, g := range imports {
		if f == "b1" {
			// (the imports of b1 are weak imports: a weak import is an import like any other for what a module depends on)
			sb.WriteString("import weak \"" + pathOf[g] + "\";\n")
			continue
		}
		sb.WriteString("import \"" + pathOf[g] + "\";\n")
	}
	if extraImport != "" {
		sb.WriteString("import \"" + extraImport + "\";\n")
	}
	sb.WriteString("// " + marker + "\nmessage M" + f + " {\n  string id = 1;\n")
	n := 2
	for _, g := range imports {
		if g == "wkt" {
			sb.WriteString(fmt.Sprintf("  google.protobuf.Type r%d = %d;\n", n, n))
		} else {
			sb.WriteString(fmt.Sprintf("  %s.M%s r%d = %d;\n", pkgOf[g], g, n, n))
		}
		n++
	}
	sb.WriteString("}\n")
	return []byte(sb.String())
}

func commitUUID(name string, c int) uuid.UUID {
	return uuid.NewSHA1(uuid.Nil, []byte(fmt.Sprintf("%s-%d", name, c)))
}

// provider serves remote module data and commits by commit id.
type provider struct {
	datas   map[uuid.UUID]bufmodule.ModuleData
	created map[uuid.UUID]time.Time
}

func (p *provider) GetModuleDatasForModuleKeys(_ context.Context, keys []bufmodule.ModuleKey) ([]bufmodule.ModuleData, error) {
	var out []bufmodule.ModuleData
	for _, k := range keys {
		d, ok := p.datas[k.CommitID()]
		if !ok {
			return nil, fs.ErrNotExist
		}
		out = append(out, d)
	}
	return out, nil
}

func (p *provider) GetCommitsForModuleKeys(_ context.Context, keys []bufmodule.ModuleKey) ([]bufmodule.Commit, error) {
	var out []bufmodule.Commit
	for _, k := range keys {
		t, ok := p.created[k.CommitID()]
		if !ok {
			return nil, fs.ErrNotExist
		}
		out = append(out, bufmodule.NewCommit(k, func() (time.Time, error) { return t, nil }))
	}
	return out, nil
}

func (p *provider) GetCommitsForCommitKeys(context.Context, []bufmodule.CommitKey) ([]bufmodule.Commit, error) {
	return nil, errors.New("not used")
}

func bFiles(c caseRec, marker string) map[string][]byte {
	m := map[string][]byte{pathOf["b1"]: render("b1", c.ImpB1, "", marker)}
	if c.WktVendored {
		m[pathOf["wkt"]] = vendoredWkt("B")
	}
	if c.DupPath {
		m[pathOf["c1"]] = []byte("syntax = \"proto3\";\npackage pc1;\n// a second provider of this path\nmessage Mc1 { string id = 1; }\n")
	}
	return m
}

// vendoredWkt is a module's own copy of the well-known type (the built-in one imports any.proto and source_context.proto,
// which only the built-in copy brings along).
func vendoredWkt(owner string) []byte {
	return []byte("syntax = \"proto3\";\npackage google.protobuf;\n// vendored copy of " + owner + "\nmessage Type { string name = 1; }\n")
}

func cFilesFor(c caseRec, commit int) map[string][]byte {
	m := cFiles(commit)
	if c.WktVendoredC {
		m[pathOf["wkt"]] = vendoredWkt("C")
	}
	return m
}

func cFiles(commit int) map[string][]byte {
	var imps []string
	if commit == 2 {
		imps = []string{"b1"}
	}
	return map[string][]byte{pathOf["c1"]: render("c1", imps, "", fmt.Sprintf("commit %d", commit))}
}

func describe(c caseRec) map[string]any {
	return map[string]any{"a1_imports": c.ImpA1, "a2_imports": c.ImpA2, "b1_imports": c.ImpB1, "B": c.BKind, "C_commits_in_order_added": c.CCommits,
		"B_also_provides_c1_path": c.DupPath, "B_vendors_the_wkt_a1_may_import": c.WktVendored, "C_vendors_it_too": c.WktVendoredC, "a2_imports_missing_path": c.Missing}
}

func build(ctx context.Context, c caseRec) (bufmodule.ModuleSet, error) {
	prov := &provider{datas: map[uuid.UUID]bufmodule.ModuleData{}, created: map[uuid.UUID]time.Time{}}
	// remote module data comes from per-commit omni providers (they compute keys, digests and declared deps)
	remoteKey := func(name string, commit int, files map[string][]byte, others ...bufmoduletesting.ModuleData) (bufmodule.ModuleKey, error) {
		id := commitUUID(name, commit)
		datas := append([]bufmoduletesting.ModuleData{{Name: "buf.test/verif/" + name, CommitID: id, PathToData: files}}, others...)
		omni, err := bufmoduletesting.NewOmniProvider(datas...)
		if err != nil {
			return nil, err
		}
		ref, err := bufparse.NewRef("buf.test", "verif", name, "")
		if err != nil {
			return nil, err
		}
		keys, err := omni.GetModuleKeysForModuleRefs(ctx, []bufparse.Ref{ref}, bufmodule.DigestTypeB5)
		if err != nil {
			return nil, err
		}
		md, err := omni.GetModuleDatasForModuleKeys(ctx, keys)
		if err != nil {
			return nil, err
		}
		prov.datas[id] = md[0]
		prov.created[id] = time.Unix(int64(1700000000+commit*1000), 0)
		return keys[0], nil
	}
	builder := bufmodule.NewModuleSetBuilder(ctx, bufx.Logger, prov, prov)
	extra := ""
	if c.Missing {
		extra = "nowhere/x.proto"
	}
	aBucket, err := bufx.Bucket(map[string]string{
		pathOf["a1"]: string(render("a1", c.ImpA1, "", "a1")),
		pathOf["a2"]: string(render("a2", c.ImpA2, extra, "a2")),
	})
	if err != nil {
		return nil, err
	}
	fnA, _ := bufparse.NewFullName("buf.test", "verif", "a")
	builder.AddLocalModule(aBucket, "modA", true, bufmodule.LocalModuleWithFullNameAndCommitID(fnA, commitUUID("a", 0)))
	// self-contained helper modules for the omni providers (so that imports of remote files resolve there)
	helperA := bufmoduletesting.ModuleData{Name: "buf.test/verif/a", PathToData: map[string][]byte{
		pathOf["a1"]: render("a1", nil, "", "helper"), pathOf["a2"]: render("a2", nil, "", "helper")}}
	helperB := bufmoduletesting.ModuleData{Name: "buf.test/verif/b", PathToData: map[string][]byte{pathOf["b1"]: render("b1", nil, "", "helper")}}
	helperC := bufmoduletesting.ModuleData{Name: "buf.test/verif/c", PathToData: cFiles(1)}
	if c.BKind == "local" || c.BKind == "both" {
		files := map[string]string{}
		for k, v := range bFiles(c, "local B") {
			files[k] = string(v)
		}
		bBucket, err := bufx.Bucket(files)
		if err != nil {
			return nil, err
		}
		fnB, _ := bufparse.NewFullName("buf.test", "verif", "b")
		builder.AddLocalModule(bBucket, "modB", false, bufmodule.LocalModuleWithFullNameAndCommitID(fnB, commitUUID("b", 0)))
	}
	if c.BKind == "remote" || c.BKind == "both" {
		var others []bufmoduletesting.ModuleData
		if !c.DupPath {
			others = append(others, helperC)
		}
		others = append(others, helperA)
		key, err := remoteKey("b", 9, bFiles(c, "remote B"), others...)
		if err != nil {
			return nil, fmt.Errorf("remote B: %w", err)
		}
		builder.AddRemoteModule(key, false)
	}
	for _, commit := range c.CCommits {
		key, err := remoteKey("c", commit, cFilesFor(c, commit), helperB)
		if err != nil {
			return nil, fmt.Errorf("remote C@%d: %w", commit, err)
		}
		builder.AddRemoteModule(key, false)
	}
	return builder.Build()
}

func errKind(err error) string {
	var cyc *bufmodule.ModuleCycleError
	var dup *bufmodule.DuplicateProtoPathError
	var imp *bufmodule.ImportNotExistError
	switch {
	case errors.As(err, &cyc):
		return "cycle"
	case errors.As(err, &dup):
		return "duplicate-path"
	case errors.As(err, &imp):
		return "import-not-exist"
	}
	return "other-error"
}

func run(in []byte) (*reg.Result, error) {
	var inp input
	if err := reg.Decode(in, &inp); err != nil {
		return nil, err
	}
	if inp.Corrupt {
		for i := range inp.Cases {
			r := inp.Cases[i].Results["A"]
			if r.Kind == "ok" && len(r.Deps) > 0 {
				r.Deps[0].Direct = !r.Deps[0].Direct
				inp.Cases[i].Results["A"] = r
				inp.Cases = inp.Cases[i : i+1]
				break
			}
		}
	}
	res := &reg.Result{}
	ctx := context.Background()
	const workers = 16
	var wg sync.WaitGroup
	var emu sync.Mutex
	var firstErr error
	for wk := 0; wk < workers; wk++ {
		wg.Add(1)
		go func(wk int) {
			defer wg.Done()
			for i := wk; i < len(inp.Cases); i += workers {
				c := inp.Cases[i]
				ms, err := build(ctx, c)
				if err != nil {
					emu.Lock()
					if firstErr == nil {
						firstErr = fmt.Errorf("building the module set for %v: %w", describe(c), err)
					}
					emu.Unlock()
					return
				}
				res.Count(1, 0)
				caseInfo := describe(c)
				shape := fmt.Sprintf("B=%s/commits=%d", c.BKind, len(c.CCommits))
				// precedence
				for _, m := range ms.Modules() {
					if m.FullName() == nil {
						continue
					}
					switch m.FullName().Name() {
					case "b":
						if c.BKind == "both" && !m.IsLocal() {
							res.Violate("precedence/local-over-remote", caseInfo, "module b is present locally and pinned remotely, the remote one was selected")
						}
					case "c":
						if m.CommitID() != commitUUID("c", c.Newest) {
							got := "?"
							for _, k := range []int{1, 2, 3} {
								if m.CommitID() == commitUUID("c", k) {
									got = fmt.Sprint(k)
								}
							}
							res.Violate(fmt.Sprintf("precedence/newest-commit/%s", shape), caseInfo, "module c pinned at commits %v (creation time = id): commit %s was selected, the newest is %d", c.CCommits, got, c.Newest)
						}
					}
				}
				allOK := true
				for _, m := range ms.Modules() {
					name := strings.ToUpper(m.FullName().Name())
					want := c.Results[name]
					deps, err := m.ModuleDeps()
					res.Count(1, 0)
					if want.Kind != "ok" {
						allOK = false
						if err == nil {
							res.Violate(fmt.Sprintf("error-not-reported/%s/module=%s", want.Kind, name), caseInfo, "ModuleDeps of %s succeeded, the specification requires a %s error", name, want.Kind)
						} else if want.Kind != "some-error" && errKind(err) != want.Kind {
							res.Violate(fmt.Sprintf("error-class/%s/got=%s", want.Kind, errKind(err)), caseInfo, "ModuleDeps of %s: expected a %s error, got %v", name, want.Kind, err)
						}
						continue
					}
					if err != nil && want.CycleReachable && errKind(err) == "cycle" {
						allOK = false
						continue // a reachable cycle may be reported from here as well
					}
					if err != nil {
						res.Violate(fmt.Sprintf("unexpected-error/module=%s/%s", name, errKind(err)), caseInfo, "ModuleDeps of %s failed: %v", name, err)
						allOK = false
						continue
					}
					var got, exp []string
					for _, d := range deps {
						got = append(got, fmt.Sprintf("%s(direct=%v)", strings.ToUpper(d.FullName().Name()), d.IsDirect()))
					}
					for _, d := range want.Deps {
						exp = append(exp, fmt.Sprintf("%s(direct=%v)", d.Module, d.Direct))
					}
					sort.Strings(got)
					sort.Strings(exp)
					if strings.Join(got, ",") != strings.Join(exp, ",") {
						res.Violate(fmt.Sprintf("deps/module=%s", name), caseInfo, "ModuleDeps of %s = %v, the specification requires %v", name, got, exp)
					}
				}
				// graph and ls-files only for well-formed workspaces
				if c.AnyCycle {
					if _, err := bufmodule.ModuleSetToDAG(ms); err == nil {
						res.Violate("dag/cycle-not-reported", caseInfo, "the workspace has an import cycle between modules but ModuleSetToDAG succeeded")
					}
				}
				if allOK && !c.AnyCycle {
					g, err := bufmodule.ModuleSetToDAG(ms)
					if err != nil {
						res.Violate("dag/error", caseInfo, "ModuleSetToDAG failed: %v", err)
					} else {
						var gotEdges, wantEdges []string
						_ = g.WalkEdges(func(from, to bufmodule.Module) error {
							gotEdges = append(gotEdges, strings.ToUpper(from.FullName().Name())+"->"+strings.ToUpper(to.FullName().Name()))
							return nil
						})
						for _, name := range c.FromTargets {
							for _, d := range c.Results[name].Deps {
								if d.Direct {
									wantEdges = append(wantEdges, name+"->"+d.Module)
								}
							}
						}
						sort.Strings(gotEdges)
						sort.Strings(wantEdges)
						if strings.Join(gotEdges, ",") != strings.Join(wantEdges, ",") {
							res.Violate("dag/edges", caseInfo, "dependency graph edges %v, the specification requires %v", gotEdges, wantEdges)
						}
					}
					if c.DupPath || c.WktVendoredC {
						continue // an ambiguous path somewhere in the workspace: either command may report it
					}
					// ls-files --include-imports vs the files of the built image
					image, err := bufx.BuildImageForModuleSet(ctx, ms)
					if err != nil {
						res.Violate("build/error", caseInfo, "BuildImage failed on a well-formed workspace: %v", err)
						continue
					}
					var infos []bufimage.ImageFileInfo
					err = bufmodule.ModuleSetToModuleReadBucketWithOnlyProtoFiles(ms).WalkFileInfos(ctx, func(fi bufmodule.FileInfo) error {
						infos = append(infos, bufimage.ImageFileInfoForModuleFileInfo(fi))
						return nil
					})
					if err == nil {
						infos, err = bufimage.ImageFileInfosWithOnlyTargetsAndTargetImports(ctx, datawkt.ReadBucket, infos)
					}
					if err != nil {
						res.Violate("ls-files/error", caseInfo, "ls-files closure failed: %v", err)
						continue
					}
					var ls, built []string
					for _, fi := range infos {
						ls = append(ls, fmt.Sprintf("%s(import=%v)", fi.Path(), fi.IsImport()))
					}
					for _, f := range image.Files() {
						built = append(built, fmt.Sprintf("%s(import=%v)", f.Path(), f.IsImport()))
					}
					sort.Strings(ls)
					sort.Strings(built)
					if strings.Join(ls, ",") != strings.Join(built, ",") {
						res.Violate("ls-files/differs-from-build", caseInfo, "ls-files lists %v, the built image holds %v", ls, built)
					}
				}
				if i < 2 {
					res.Sample(map[string]any{"workspace": caseInfo, "results": c.Results})
				}
			}
		}(wk)
	}
	wg.Wait()
	if firstErr != nil {
		return nil, firstErr
	}
	res.Distinct = len(inp.Cases)
	return res, nil
}

// ---------------------------------------------------------------- cache seeding for the CLI stage

type seedModule struct {
	Name   string            `json:"name"`   // registry/owner/module
	Commit string            `json:"commit"` // uuid
	Files  map[string]string `json:"files"`
}
type seedInput struct {
	CacheDir string       `json:"cacheDir"`
	Modules  []seedModule `json:"modules"`
	// Helpers are modules that only make the seeded ones self-contained for digest computation; they are not stored.
	Helpers []seedModule `json:"helpers"`
}

func init() { reg.Register("cache-seed", runSeed) }

// runSeed stores module data and commits in a buf cache directory (v3 layout) with the real stores and reports
// the pins (commit, digest) for a buf.lock.
func runSeed(in []byte) (*reg.Result, error) {
	var inp seedInput
	if err := reg.Decode(in, &inp); err != nil {
		return nil, err
	}
	ctx := context.Background()
	pins, err := seedCache(ctx, inp)
	if err != nil {
		return nil, err
	}
	res := &reg.Result{}
	res.SetExtra("pins", pins)
	return res, nil
}

package depsmodel

import (
	"context"
	"os"
	"path/filepath"
	"strings"
	"time"

	"github.com/bufbuild/buf/private/bufpkg/bufmodule"
	"github.com/bufbuild/buf/private/bufpkg/bufmodule/bufmodulestore"
	"github.com/bufbuild/buf/private/bufpkg/bufmodule/bufmoduletesting"
	"github.com/bufbuild/buf/private/bufpkg/bufparse"
	"github.com/bufbuild/buf/private/pkg/filelock"
	"github.com/bufbuild/buf/private/pkg/storage/storageos"
	"github.com/bufbuild/verifharness/internal/bufx"
	"github.com/google/uuid"
)

type pin struct {
	Name   string `json:"name"`
	Commit string `json:"commit"`
	Digest string `json:"digest"`
}

func seedCache(ctx context.Context, inp seedInput) ([]pin, error) {
	pins, _, err := seedCacheKeys(ctx, inp, bufmodule.DigestTypeB5)
	return pins, err
}

// seedCacheKeys is seedCache for a digest type (b4 for the v1 buf.lock of a buf.work.yaml workspace); it also
// returns the module keys so that the lock file can be written with the real writer.
func seedCacheKeys(ctx context.Context, inp seedInput, digestType bufmodule.DigestType) ([]pin, []bufmodule.ModuleKey, error) {
	var datas []bufmoduletesting.ModuleData
	created := time.Date(2024, 1, 2, 3, 4, 5, 0, time.UTC)
	toData := func(m seedModule) bufmoduletesting.ModuleData {
		files := map[string][]byte{}
		for p, c := range m.Files {
			files[p] = []byte(c)
		}
		d := bufmoduletesting.ModuleData{Name: m.Name, PathToData: files, CreateTime: created}
		if m.Commit != "" {
			d.CommitID = uuid.MustParse(m.Commit)
		}
		return d
	}
	for _, m := range inp.Modules {
		datas = append(datas, toData(m))
	}
	for _, m := range inp.Helpers {
		datas = append(datas, toData(m))
	}
	omni, err := bufmoduletesting.NewOmniProvider(datas...)
	if err != nil {
		return nil, nil, err
	}
	for _, d := range []string{"v3/modules", "v3/modulelocks", "v3/commits"} {
		if err := os.MkdirAll(filepath.Join(inp.CacheDir, filepath.FromSlash(d)), 0o755); err != nil {
			return nil, nil, err
		}
	}
	modBucket, err := storageos.NewProvider().NewReadWriteBucket(filepath.Join(inp.CacheDir, "v3", "modules"))
	if err != nil {
		return nil, nil, err
	}
	locker, err := filelock.NewLocker(filepath.Join(inp.CacheDir, "v3", "modulelocks"))
	if err != nil {
		return nil, nil, err
	}
	commitBucket, err := storageos.NewProvider().NewReadWriteBucket(filepath.Join(inp.CacheDir, "v3", "commits"))
	if err != nil {
		return nil, nil, err
	}
	dataStore := bufmodulestore.NewModuleDataStore(bufx.Logger, modBucket, locker)
	commitStore := bufmodulestore.NewCommitStore(bufx.Logger, commitBucket)
	var pins []pin
	var allKeys []bufmodule.ModuleKey
	for _, m := range inp.Modules {
		parts := strings.Split(m.Name, "/")
		ref, err := bufparse.NewRef(parts[0], parts[1], parts[2], "")
		if err != nil {
			return nil, nil, err
		}
		keys, err := omni.GetModuleKeysForModuleRefs(ctx, []bufparse.Ref{ref}, digestType)
		if err != nil {
			return nil, nil, err
		}
		mds, err := omni.GetModuleDatasForModuleKeys(ctx, keys)
		if err != nil {
			return nil, nil, err
		}
		if err := dataStore.PutModuleDatas(ctx, mds); err != nil {
			return nil, nil, err
		}
		commits, err := omni.GetCommitsForModuleKeys(ctx, keys)
		if err != nil {
			return nil, nil, err
		}
		if err := commitStore.PutCommits(ctx, commits); err != nil {
			return nil, nil, err
		}
		digest, err := keys[0].Digest()
		if err != nil {
			return nil, nil, err
		}
		allKeys = append(allKeys, keys[0])
		pins = append(pins, pin{Name: m.Name, Commit: strings.ReplaceAll(keys[0].CommitID().String(), "-", ""), Digest: digest.String()})
	}
	return pins, allKeys, nil
}

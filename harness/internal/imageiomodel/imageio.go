// Package imageiomodel binds specs/imageio/ImageIO.tla (C11) to the buf binary: tours through the state graph
// are executed with the real commands (build, export) on real files, every produced image file is decoded
// independently of buf and compared with what the state says it contains, and operations (lint, breaking,
// build with path selections) are run on every complete artifact and compared with the directory sources.
package imageiomodel

import (
	"archive/tar"
	"archive/zip"
	"bytes"
	"compress/gzip"
	"fmt"
	"io"
	"io/fs"
	"os"
	"os/exec"
	"path/filepath"
	"regexp"
	"sort"
	"strings"
	"sync"

	"buf.build/go/protoyaml"
	imagev1 "github.com/bufbuild/buf/private/gen/proto/go/buf/alpha/image/v1"
	"github.com/bufbuild/verifharness/internal/reg"
	"github.com/klauspost/compress/zstd"
	"google.golang.org/protobuf/encoding/protojson"
	"google.golang.org/protobuf/encoding/prototext"
	"google.golang.org/protobuf/proto"
	"google.golang.org/protobuf/reflect/protodesc"
	"google.golang.org/protobuf/reflect/protoreflect"
	"google.golang.org/protobuf/types/descriptorpb"
	"google.golang.org/protobuf/types/dynamicpb"
)

func init() { reg.Register("imageio-replay", run) }

type artifact struct {
	Kind    string `json:"kind"`
	Pack    string `json:"pack"`
	Sel     string `json:"sel"`
	Enc     string `json:"enc"`
	Comp    string `json:"comp"`
	Origin  string `json:"origin"`
	Imports bool   `json:"imports"`
	SrcInfo bool   `json:"srcinfo"`
	BufExt  bool   `json:"bufext"`
	Marked  bool   `json:"marked"`
	Opts    bool   `json:"opts"`
}
type opRec struct {
	Name      string   `json:"name"`
	Flags     []string `json:"flags"`
	Deviation string   `json:"deviation"`
	Enc       string   `json:"enc"`
	Comp      string   `json:"comp"`
}
type edge struct {
	From    artifact `json:"from"`
	Op      opRec    `json:"op"`
	To      artifact `json:"to"`
	Observe []obsRec `json:"observe"`
}
type obsRec struct {
	Op    string     `json:"op"`
	Paths [][]string `json:"paths"` // [paths, excludes]
}
type input struct {
	Buf     string   `json:"buf"`
	Tours   [][]edge `json:"tours"`
	Corrupt bool     `json:"corrupt"`
}

var files = map[string]string{
	"buf.yaml": "version: v2\nmodules:\n  - path: proto\n  - path: vendor\n",
	"vendor/opts/options.proto": `syntax = "proto2";
package opts;
import "google/protobuf/descriptor.proto";
message Rule { optional string name = 1; repeated int32 codes = 2; optional Rule inner = 3; }
extend google.protobuf.MessageOptions { optional Rule rule = 50001; }
extend google.protobuf.FieldOptions { optional string note = 50002; repeated string tags = 50003; }
extend google.protobuf.FileOptions { optional string owner = 50004; }
// an extension declared three messages deep, below messages that declare none themselves
message Outer { message Middle { message Deep { extend google.protobuf.FieldOptions { optional string deep_note = 50010; } } } }
`,
	"vendor/google/protobuf/timestamp.proto": `syntax = "proto3";
package google.protobuf;
option go_package = "google.golang.org/protobuf/types/known/timestamppb";
// A vendored copy with one more message.
message Timestamp {
  int64 seconds = 1;
  int32 nanos = 2;
}
message TimestampExtra {
  string zone = 1;
}
`,
	"proto/acme/v1/a.proto": `syntax = "proto3";
package acme.v1;
import "opts/options.proto";
import "google/protobuf/timestamp.proto";
import "google/protobuf/duration.proto";
import "acme/v1/sub/c.proto";
option (opts.owner) = "team \"a\" <a@example.com>";
// A is documented, with "quotes" and unicode: é.
message A {
  option (opts.rule) = { name: "a" codes: [1, 2] inner { name: "in" } };
  // buf:lint:ignore FIELD_LOWER_SNAKE_CASE
  string BadName = 1 [(opts.note) = "n", (opts.tags) = "x", (opts.tags) = "y"];
  google.protobuf.Timestamp at = 2;
  google.protobuf.TimestampExtra extra = 3;
  acme.v1.sub.C c = 4;
  string AlsoBad = 5 [(opts.Outer.Middle.Deep.deep_note) = "deep"];
  map<string, int64> counts = 6;
  oneof choice { string left = 7; int32 right = 8; }
  google.protobuf.Duration wait = 9;
}
enum Kind {
  KIND_UNSPECIFIED = 0;
  KIND_ONE = 1;
}
`,
	"proto/acme/v1/sub/c.proto": "syntax = \"proto3\";\npackage acme.v1.sub;\n// C is documented.\nmessage C { string id = 1; }\n",
	// a sibling directory whose name starts with the name of a selected one: a path selects component-wise
	"proto/acme/v1beta1/d.proto": "syntax = \"proto3\";\npackage acme.v1beta1;\n// D is documented.\nmessage D { string id = 1; }\n",
	"proto/acme/v2/b.proto": `syntax = "proto2";
package acme.v2;
import "acme/v1/a.proto";
import public "acme/v1/sub/c.proto";
import weak "acme/v1beta1/d.proto";
message B {
  optional acme.v1.A a = 1;
  optional double ratio = 2 [default = 1.5];
  optional bytes raw = 3 [default = "\x00\xff"];
  extensions 100 to 199;
}
extend B { optional string more = 100; }
service BService { rpc Get(B) returns (B); }
`,
}

func has(l []string, x string) bool {
	for _, y := range l {
		if y == x {
			return true
		}
	}
	return false
}

func writeTree(root string, prev bool) error {
	for rel, content := range files {
		if prev && rel == "proto/acme/v1/a.proto" {
			content = strings.Replace(content, "  map<string, int64> counts = 6;\n", "  map<string, int64> counts = 6;\n  string gone = 15;\n", 1)
		}
		p := filepath.Join(root, filepath.FromSlash(rel))
		if err := os.MkdirAll(filepath.Dir(p), 0o755); err != nil {
			return err
		}
		if err := os.WriteFile(p, []byte(content), 0o644); err != nil {
			return err
		}
	}
	return nil
}

func listFiles(root string) ([]string, error) {
	var out []string
	err := filepath.WalkDir(root, func(p string, d fs.DirEntry, err error) error {
		if err != nil || d.IsDir() {
			return err
		}
		rel, _ := filepath.Rel(root, p)
		out = append(out, filepath.ToSlash(rel))
		return nil
	})
	sort.Strings(out)
	return out, err
}

func makeTar(root, dest string, gz bool) error {
	var buf bytes.Buffer
	var w io.Writer = &buf
	var gzw *gzip.Writer
	if gz {
		gzw = gzip.NewWriter(&buf)
		w = gzw
	}
	tw := tar.NewWriter(w)
	names, err := listFiles(root)
	if err != nil {
		return err
	}
	for _, n := range names {
		data, err := os.ReadFile(filepath.Join(root, filepath.FromSlash(n)))
		if err != nil {
			return err
		}
		if err := tw.WriteHeader(&tar.Header{Name: n, Mode: 0o644, Size: int64(len(data)), Typeflag: tar.TypeReg}); err != nil {
			return err
		}
		if _, err := tw.Write(data); err != nil {
			return err
		}
	}
	if err := tw.Close(); err != nil {
		return err
	}
	if gzw != nil {
		if err := gzw.Close(); err != nil {
			return err
		}
	}
	return os.WriteFile(dest, buf.Bytes(), 0o644)
}

func makeZip(root, dest string) error {
	var buf bytes.Buffer
	zw := zip.NewWriter(&buf)
	names, err := listFiles(root)
	if err != nil {
		return err
	}
	for _, n := range names {
		data, err := os.ReadFile(filepath.Join(root, filepath.FromSlash(n)))
		if err != nil {
			return err
		}
		f, err := zw.Create(n)
		if err != nil {
			return err
		}
		if _, err := f.Write(data); err != nil {
			return err
		}
	}
	if err := zw.Close(); err != nil {
		return err
	}
	return os.WriteFile(dest, buf.Bytes(), 0o644)
}

// world holds the materialised workspace and the reference images.
type world struct {
	buf   string
	root  string // scratch root: ws/, wsprev/, ws.tar, ws.tar.gz, ws.zip, prev.binpb
	ref   map[string]*imagev1.Image
	types map[string]*dynamicpb.Types
}

func (w *world) runBuf(args ...string) (string, string, int, error) {
	cmd := exec.Command(w.buf, args...)
	cmd.Dir = filepath.Join(w.root, "ws")
	cmd.Env = append(os.Environ(), "HOME="+w.root, "BUF_CACHE_DIR="+filepath.Join(w.root, "cache"), "NO_COLOR=1")
	var stdout, stderr bytes.Buffer
	cmd.Stdout, cmd.Stderr = &stdout, &stderr
	err := cmd.Run()
	code := 0
	if ee, ok := err.(*exec.ExitError); ok {
		code = ee.ExitCode()
		err = nil
	}
	return stdout.String(), stderr.String(), code, err
}

// sourceInput is how a source artifact is named on the command line (cwd = ws/), and the prefix of --path values.
func (w *world) sourceInput(a artifact, tourDir string) (string, string) {
	switch a.Pack {
	case "dir":
		if a.Sel == "module" {
			return "proto", "proto/"
		}
		return ".", "proto/"
	case "export":
		return filepath.Join(tourDir, "export"), filepath.Join(tourDir, "export") + "/"
	}
	file := map[string]string{"tar": "ws.tar", "targz": "ws.tar.gz", "zip": "ws.zip"}[a.Pack]
	p := filepath.Join(w.root, file)
	if a.Sel == "module" {
		// paths are relative to the sub-directory
		return p + "#subdir=proto", ""
	}
	return p, "proto/"
}

func decompress(data []byte, comp string) ([]byte, error) {
	switch comp {
	case "gz":
		r, err := gzip.NewReader(bytes.NewReader(data))
		if err != nil {
			return nil, err
		}
		return io.ReadAll(r)
	case "zst":
		r, err := zstd.NewReader(bytes.NewReader(data))
		if err != nil {
			return nil, err
		}
		defer r.Close()
		return io.ReadAll(r)
	}
	return data, nil
}

// decode reads an image file without using buf's readers.
func decode(path, enc, comp string, types *dynamicpb.Types) (*imagev1.Image, error) {
	raw, err := os.ReadFile(path)
	if err != nil {
		return nil, err
	}
	data, err := decompress(raw, comp)
	if err != nil {
		return nil, fmt.Errorf("decompress %s: %w", comp, err)
	}
	img := &imagev1.Image{}
	switch enc {
	case "binpb":
		opts := proto.UnmarshalOptions{}
		if types != nil {
			opts.Resolver = types
		}
		err = opts.Unmarshal(data, img)
	case "json":
		err = protojson.UnmarshalOptions{Resolver: types}.Unmarshal(data, img)
	case "txtpb":
		err = prototext.UnmarshalOptions{Resolver: types}.Unmarshal(data, img)
	case "yaml":
		err = protoyaml.UnmarshalOptions{Resolver: types}.Unmarshal(data, img)
	}
	if err != nil {
		return nil, fmt.Errorf("decode %s: %w", enc, err)
	}
	return canon(img, types)
}

// canon re-reads the image so that every custom option is a known (dynamic) extension field.
func canon(img *imagev1.Image, types *dynamicpb.Types) (*imagev1.Image, error) {
	data, err := proto.MarshalOptions{Deterministic: true}.Marshal(img)
	if err != nil {
		return nil, err
	}
	out := &imagev1.Image{}
	opts := proto.UnmarshalOptions{}
	if types != nil {
		opts.Resolver = types
	}
	if err := opts.Unmarshal(data, out); err != nil {
		return nil, err
	}
	return out, nil
}

// expected derives what an image state contains from the reference image of its selection.
func expected(ref *imagev1.Image, a artifact) *imagev1.Image {
	out := proto.Clone(ref).(*imagev1.Image)
	if !a.Imports {
		var keep []*imagev1.ImageFile
		for _, f := range out.GetFile() {
			_, inTree := files["vendor/"+f.GetName()]
			// built from an export, only what the export does not contain (the built-in well-known types) is an import
			if !f.GetBufExtension().GetIsImport() || (a.Origin == "export" && inTree) {
				keep = append(keep, f)
			}
		}
		out.SetFile(keep)
	}
	for _, f := range out.GetFile() {
		if !a.SrcInfo {
			f.ClearSourceCodeInfo()
		}
		switch {
		case !a.BufExt:
			f.ClearBufExtension()
		case !a.Marked:
			// written again by a reader that no longer knew the imports: everything is a file of the image
			ext := &imagev1.ImageFileExtension{}
			ext.SetIsImport(false)
			ext.SetIsSyntaxUnspecified(false)
			f.SetBufExtension(ext)
		}
		if !a.Opts {
			clearExtensions(f.ProtoReflect())
		}
	}
	return out
}

// clearExtensions removes every extension field (custom option) below m.
func clearExtensions(m protoreflect.Message) {
	var drop []protoreflect.FieldDescriptor
	m.Range(func(fd protoreflect.FieldDescriptor, v protoreflect.Value) bool {
		if fd.IsExtension() {
			drop = append(drop, fd)
			return true
		}
		switch {
		case fd.IsList() && fd.Message() != nil:
			for i := 0; i < v.List().Len(); i++ {
				clearExtensions(v.List().Get(i).Message())
			}
		case fd.IsMap():
		case fd.Message() != nil:
			clearExtensions(v.Message())
		}
		return true
	})
	for _, fd := range drop {
		m.Clear(fd)
	}
	m.SetUnknown(nil)
}

// stripForExport makes two images comparable when one was built from `buf export` output: only the descriptors count.
func stripForExport(img *imagev1.Image) map[string]*imagev1.ImageFile {
	out := map[string]*imagev1.ImageFile{}
	for _, f := range img.GetFile() {
		c := proto.Clone(f).(*imagev1.ImageFile)
		c.ClearBufExtension()
		out[c.GetName()] = c
	}
	return out
}

func describe(img *imagev1.Image) []string {
	var out []string
	for _, f := range img.GetFile() {
		out = append(out, fmt.Sprintf("%s(import=%v,srcinfo=%v,ext=%v)", f.GetName(), f.GetBufExtension().GetIsImport(), f.HasSourceCodeInfo(), f.HasBufExtension()))
	}
	return out
}

func firstDifference(want, got *imagev1.Image) string {
	wantFiles, gotFiles := want.GetFile(), got.GetFile()
	if len(wantFiles) != len(gotFiles) {
		return fmt.Sprintf("files: expected %v, decoded %v", describe(want), describe(got))
	}
	for i := range wantFiles {
		if !proto.Equal(wantFiles[i], gotFiles[i]) {
			w, g := wantFiles[i], gotFiles[i]
			if w.GetName() != g.GetName() {
				return fmt.Sprintf("file %d: expected %s, decoded %s", i, w.GetName(), g.GetName())
			}
			ws, gs := w.GetSourceCodeInfo(), g.GetSourceCodeInfo()
			we, ge := w.GetBufExtension(), g.GetBufExtension()
			wc, gc := proto.Clone(w).(*imagev1.ImageFile), proto.Clone(g).(*imagev1.ImageFile)
			wc.ClearSourceCodeInfo()
			gc.ClearSourceCodeInfo()
			wc.ClearBufExtension()
			gc.ClearBufExtension()
			switch {
			case !proto.Equal(wc, gc):
				wt, gt := prototext.Format(wc), prototext.Format(gc)
				wl, gl := strings.Split(wt, "\n"), strings.Split(gt, "\n")
				for k := 0; k < len(wl) && k < len(gl); k++ {
					if wl[k] != gl[k] {
						return fmt.Sprintf("%s: descriptor differs: expected %q, decoded %q", w.GetName(), strings.TrimSpace(wl[k]), strings.TrimSpace(gl[k]))
					}
				}
				return fmt.Sprintf("%s: descriptor differs (%d vs %d lines of text)", w.GetName(), len(wl), len(gl))
			case !proto.Equal(ws, gs):
				return fmt.Sprintf("%s: source info differs (expected present=%v, decoded present=%v)", w.GetName(), ws != nil, gs != nil)
			case !proto.Equal(we, ge):
				return fmt.Sprintf("%s: buf extension differs: expected %v, decoded %v", w.GetName(), we, ge)
			}
		}
	}
	return "no difference found"
}

func (a artifact) String() string {
	if a.Kind == "source" {
		return "source:" + a.Pack + "/" + a.Sel
	}
	s := "image:" + a.Enc
	if a.Comp != "none" {
		s += "." + a.Comp
	}
	s += "/" + a.Sel + "/" + a.Origin
	if !a.Imports {
		s += "-imports"
	}
	if !a.SrcInfo {
		s += "-srcinfo"
	}
	if !a.BufExt {
		s += "-bufext"
	} else if !a.Marked {
		s += "-marks"
	}
	if !a.Opts {
		s += "-opts"
	}
	return s
}

func imageFileName(n int, a artifact) string {
	name := fmt.Sprintf("img%03d.%s", n, a.Enc)
	switch a.Comp {
	case "gz":
		name += ".gz"
	case "zst":
		name += ".zst"
	}
	return name
}

var pathPrefix = regexp.MustCompile(`(?m)^(?:[^\s:]*/)?(?:proto|vendor|export)/`)

// normalize makes the output of an operation independent of how the input spells paths.
func normalize(out string) string {
	return pathPrefix.ReplaceAllString(out, "")
}

func run(in []byte) (*reg.Result, error) {
	var inp input
	if err := reg.Decode(in, &inp); err != nil {
		return nil, err
	}
	res := &reg.Result{}
	root := filepath.Join(reg.WorkDir(), "imageio")
	_ = os.RemoveAll(root)
	defer os.RemoveAll(root)
	w := &world{buf: inp.Buf, root: root, ref: map[string]*imagev1.Image{}, types: map[string]*dynamicpb.Types{}}
	if err := writeTree(filepath.Join(root, "ws"), false); err != nil {
		return nil, err
	}
	if err := writeTree(filepath.Join(root, "wsprev"), true); err != nil {
		return nil, err
	}
	if err := makeTar(filepath.Join(root, "ws"), filepath.Join(root, "ws.tar"), false); err != nil {
		return nil, err
	}
	if err := makeTar(filepath.Join(root, "ws"), filepath.Join(root, "ws.tar.gz"), true); err != nil {
		return nil, err
	}
	if err := makeZip(filepath.Join(root, "ws"), filepath.Join(root, "ws.zip")); err != nil {
		return nil, err
	}
	// references: the directory builds
	for sel, inputArg := range map[string]string{"module": "proto", "workspace": "."} {
		refPath := filepath.Join(root, "ref-"+sel+".binpb")
		if _, stderr, code, err := w.runBuf("build", inputArg, "-o", refPath); err != nil || code != 0 {
			return nil, fmt.Errorf("reference build of %s failed: %v %d %s", sel, err, code, stderr)
		}
		raw, err := decode(refPath, "binpb", "none", nil)
		if err != nil {
			return nil, err
		}
		fds := &descriptorpb.FileDescriptorSet{}
		for _, f := range raw.GetFile() {
			data, _ := proto.Marshal(f)
			fd := &descriptorpb.FileDescriptorProto{}
			if err := proto.Unmarshal(data, fd); err != nil {
				return nil, err
			}
			fds.File = append(fds.File, fd)
		}
		fileReg, err := protodesc.NewFiles(fds)
		if err != nil {
			return nil, fmt.Errorf("reference image of %s does not link: %w", sel, err)
		}
		w.types[sel] = dynamicpb.NewTypes(fileReg)
		ref, err := canon(raw, w.types[sel])
		if err != nil {
			return nil, err
		}
		w.ref[sel] = ref
	}
	// the previous version for breaking
	{
		cmd := exec.Command(w.buf, "build", "proto", "-o", filepath.Join(root, "prev.binpb"))
		cmd.Dir = filepath.Join(root, "wsprev")
		if out, err := cmd.CombinedOutput(); err != nil {
			return nil, fmt.Errorf("previous version does not build: %v %s", err, out)
		}
	}
	// what every operation yields on the directory sources
	type obsKey struct{ sel, op string }
	var obsMu sync.Mutex
	obsRef := map[obsKey]string{}
	obsName := func(o obsRec) string {
		// (build-reversed shares the reference of build: the order of --path values must not matter)
		return strings.TrimSuffix(o.Op, "-reversed") + " path=" + strings.Join(o.Paths[0], "+") + " exclude=" + strings.Join(o.Paths[1], "+")
	}
	observe := func(a artifact, inputArg, prefix string, o obsRec, tourDir string, n int) (string, error) {
		var args []string
		var outFile string
		switch o.Op {
		case "lint":
			args = []string{"lint", inputArg}
		case "breaking":
			args = []string{"breaking", inputArg, "--against", filepath.Join(w.root, "prev.binpb")}
		case "build", "build-reversed":
			outFile = filepath.Join(tourDir, fmt.Sprintf("obs%03d.binpb", n))
			args = []string{"build", inputArg, "-o", outFile}
		}
		paths := append([]string{}, o.Paths[0]...)
		sort.Strings(paths)
		if o.Op == "build-reversed" {
			// longest first: a path is given before the path that contains it
			sort.Sort(sort.Reverse(sort.StringSlice(paths)))
		}
		for _, p := range paths {
			args = append(args, "--path", prefix+p)
		}
		for _, p := range o.Paths[1] {
			args = append(args, "--exclude-path", prefix+p)
		}
		stdout, stderr, code, err := w.runBuf(args...)
		if err != nil {
			return "", err
		}
		result := fmt.Sprintf("exit=%d\n%s%s", code, normalize(stdout), normalize(stderr))
		if strings.HasPrefix(o.Op, "build") && code == 0 {
			img, err := decode(outFile, "binpb", "none", w.types[a.Sel])
			_ = os.Remove(outFile)
			if err != nil {
				return "", err
			}
			// the order of the files of an image is only required to be topological: compare them by name
			fs := append([]*imagev1.ImageFile{}, img.GetFile()...)
			sort.Slice(fs, func(i, j int) bool { return fs[i].GetName() < fs[j].GetName() })
			img.SetFile(fs)
			result += strings.Join(describe(img), "\n") + "\n"
			data, _ := proto.MarshalOptions{Deterministic: true}.Marshal(img)
			result += fmt.Sprintf("bytes=%d hash=%x\n", len(data), hashBytes(data))
		}
		res.Count(1, 0)
		return result, nil
	}
	for _, sel := range []string{"module", "workspace"} {
		a := artifact{Kind: "source", Pack: "dir", Sel: sel}
		inputArg, prefix := w.sourceInput(a, "")
		for _, t := range inp.Tours {
			for _, e := range t {
				for _, o := range e.Observe {
					k := obsKey{sel, obsName(o)}
					if _, ok := obsRef[k]; ok {
						continue
					}
					r, err := observe(a, inputArg, prefix, o, root, 0)
					if err != nil {
						return nil, err
					}
					obsRef[k] = r
				}
			}
		}
	}

	var wg sync.WaitGroup
	ch := make(chan int)
	var firstErr error
	var emu sync.Mutex
	steps, observations := 0, 0
	for wk := 0; wk < 16; wk++ {
		wg.Add(1)
		go func() {
			defer wg.Done()
			for ti := range ch {
				tourDir := filepath.Join(root, fmt.Sprintf("tour%04d", ti))
				_ = os.MkdirAll(tourDir, 0o755)
				curFile := ""
				n := 0
			stepLoop:
				for si, e := range inp.Tours[ti] {
					n++
					info := map[string]any{"tour": ti, "step": si, "from": e.From.String(), "op": e.Op, "to": e.To.String()}
					var inputArg string
					switch {
					case e.From.Kind == "source":
						inputArg, _ = w.sourceInput(e.From, tourDir)
					case e.From.Kind == "image":
						inputArg = curFile
					}
					switch e.Op.Name {
					case "open":
						// nothing to run: the packagings exist
					case "export":
						_ = os.RemoveAll(filepath.Join(tourDir, "export"))
						_, stderr, code, err := w.runBuf("export", "proto", "-o", filepath.Join(tourDir, "export"))
						if err != nil || code != 0 {
							res.Violate("export-failed", info, "buf export failed: %v exit=%d %s", err, code, stderr)
						}
					case "convert-fails":
						post := filepath.Join(tourDir, imageFileName(n, artifact{Enc: e.Op.Enc, Comp: e.Op.Comp}))
						args := []string{"build", inputArg, "-o", post}
						for _, f := range e.Op.Flags {
							args = append(args, "--"+f)
						}
						_, stderr, code, err := w.runBuf(args...)
						res.Count(1, 0)
						_ = os.Remove(post)
						if err == nil && code != 0 {
							res.Violate("read-fails/"+e.From.Enc+"-image-without-option-definitions", info, "an image written with --exclude-imports as %s cannot be read back: %s", e.From.Enc, trunc(stderr))
						} else {
							res.Violate("model/read-expected-to-fail/"+e.From.String(), info, "the specification says this image cannot be read, but buf %s succeeded", strings.Join(args, " "))
						}
					case "build", "convert":
						post := filepath.Join(tourDir, imageFileName(n, e.To))
						args := []string{"build", inputArg, "-o", post}
						for _, f := range e.Op.Flags {
							args = append(args, "--"+f)
						}
						_, stderr, code, err := w.runBuf(args...)
						emu.Lock()
						steps++
						emu.Unlock()
						res.Count(1, 0)
						info["args"] = args
						sig := e.Op.Name + "/" + e.From.String() + "->" + e.To.String()
						if err != nil || code != 0 {
							res.Violate("step-failed/"+sig, info, "buf %s failed: %v exit=%d %s", strings.Join(args, " "), err, code, trunc(stderr))
							curFile = ""
							break stepLoop
						}
						got, derr := decode(post, e.To.Enc, e.To.Comp, w.types[e.To.Sel])
						if derr != nil {
							res.Violate("unreadable/"+sig, info, "the written image cannot be decoded: %v", derr)
							break stepLoop
						}
						want := expected(w.ref[e.To.Sel], e.To)
						if inp.Corrupt && e.To.Enc == "json" {
							want.SetFile(want.GetFile()[1:])
						}
						if e.To.Origin == "export" {
							wm, gm := stripForExport(want), stripForExport(got)
							for name, wf := range wm {
								gf, ok := gm[name]
								if !ok {
									res.Violate("export-image-differs/missing-file/"+name+"/"+sig, info, "the image built from the export output lacks %s", name)
								} else if !proto.Equal(wf, gf) {
									res.Violate("export-image-differs/descriptor/"+name+"/"+sig, info, "the image built from the export output has a different %s: %s", name,
										firstDifference(oneFile(wf), oneFile(gf)))
								}
							}
							for name := range gm {
								if _, ok := wm[name]; !ok {
									res.Violate("export-image-differs/extra-file/"+name+"/"+sig, info, "the image built from the export output has an extra %s", name)
								}
							}
						} else if !proto.Equal(want, got) {
							res.Violate("image-differs/"+sig, info, "the image does not contain what the state says: %s", firstDifference(want, got))
						} else if e.Op.Deviation == "drops-options-on-write" {
							res.Violate("options-lost/writing-"+e.To.Enc+"-from-image-without-option-definitions", info,
								"an image read without its imports loses its custom options when it is written as %s (they are defined in the missing imports)", e.To.Enc)
						} else if e.Op.Deviation == "drops-options" {
							res.Violate("options-lost/reading-"+e.From.Enc+"-image-without-option-definitions", info,
								"an image written with --exclude-imports as %s loses its custom options when it is read back (they are defined in the excluded imports)", e.From.Enc)
						}
						if curFile != "" {
							_ = os.Remove(curFile)
						}
						curFile = post
					}
					// observations on the artifact reached
					if len(e.Observe) > 0 {
						var oin, opre string
						if e.To.Kind == "source" {
							oin, opre = w.sourceInput(e.To, tourDir)
						} else {
							oin, opre = curFile, ""
						}
						for _, o := range e.Observe {
							r, err := observe(e.To, oin, opre, o, tourDir, n)
							if err != nil {
								emu.Lock()
								firstErr = err
								emu.Unlock()
								continue
							}
							emu.Lock()
							observations++
							emu.Unlock()
							obsMu.Lock()
							want := obsRef[obsKey{e.To.Sel, obsName(o)}]
							obsMu.Unlock()
							if r != want {
								res.Violate("operation-differs/"+obsName(o)+"/"+e.To.String(), map[string]any{"artifact": e.To.String(), "operation": obsName(o), "on_sources": want, "on_artifact": r},
									"%s on %s differs from the same operation on the directory sources: %s", obsName(o), e.To.String(), firstLineDiff(want, r))
							}
						}
					}
				}
				_ = os.RemoveAll(tourDir)
			}
		}()
	}
	for ti := range inp.Tours {
		ch <- ti
	}
	close(ch)
	wg.Wait()
	if firstErr != nil {
		return nil, firstErr
	}
	res.Distinct = len(inp.Tours)
	res.SetExtra("steps_executed", steps)
	res.SetExtra("observations", observations)
	res.SetExtra("reference_files", map[string]any{"module": describe(w.ref["module"]), "workspace": describe(w.ref["workspace"])})
	return res, nil
}

func oneFile(f *imagev1.ImageFile) *imagev1.Image {
	img := &imagev1.Image{}
	img.SetFile([]*imagev1.ImageFile{f})
	return img
}

func hashBytes(b []byte) uint64 {
	var h uint64 = 1469598103934665603
	for _, c := range b {
		h ^= uint64(c)
		h *= 1099511628211
	}
	return h
}

func firstLineDiff(a, b string) string {
	al, bl := strings.Split(a, "\n"), strings.Split(b, "\n")
	for i := 0; i < len(al) || i < len(bl); i++ {
		x, y := "", ""
		if i < len(al) {
			x = al[i]
		}
		if i < len(bl) {
			y = bl[i]
		}
		if x != y {
			return fmt.Sprintf("line %d: %q vs %q", i+1, trunc(x), trunc(y))
		}
	}
	return "equal"
}

func trunc(s string) string {
	if len(s) > 400 {
		return s[:400] + "..."
	}
	return s
}

// Package cachemodel binds specs/cache/ModuleCache.tla (C09) to the real bufmodulestore.ModuleDataStore.
//
// "cache-tours": every tour (a path through TLC's state graph covering its transitions) is executed on
// real stores: each specification process is a goroutine that owns a real ModuleDataStore over a gating
// wrapper of one shared disk bucket and a gating filelock.Locker; every storage / lock operation of the
// store is one specification step, executed only when the tour says so, made to fail or turned into a
// crash of that process when the tour says so. After every step the cache directory is listed,
// classified into the specification's abstract disk state and compared; operation names, results of
// PutModuleDatas / GetModuleDatasForModuleKeys and of the lazy content access are compared as well.
package cachemodel

import (
	"bytes"
	"context"
	"errors"
	"fmt"
	"io"
	"os"
	"path/filepath"
	"runtime"
	"sort"
	"strconv"
	"strings"
	"sync"
	"time"

	"github.com/bufbuild/buf/private/bufpkg/bufmodule"
	"github.com/bufbuild/buf/private/bufpkg/bufmodule/bufmodulestore"
	"github.com/bufbuild/buf/private/bufpkg/bufmodule/bufmoduletesting"
	"github.com/bufbuild/buf/private/bufpkg/bufparse"
	"github.com/bufbuild/buf/private/pkg/filelock"
	"github.com/bufbuild/buf/private/pkg/storage"
	"github.com/bufbuild/buf/private/pkg/storage/storageos"
	"github.com/bufbuild/buf/private/pkg/thread"
	"github.com/bufbuild/buf/private/pkg/verifhook"
	"github.com/bufbuild/verifharness/internal/bufx"
	"github.com/bufbuild/verifharness/internal/reg"
)

func init() { reg.Register("cache-tours", runTours) }

// ---------------------------------------------------------------- abstract values

type stateRec struct {
	File    []string          `json:"file"`
	Yaml    string            `json:"yaml"`
	Extra   bool              `json:"extra"`
	Tmp     int               `json:"tmp"`
	PC      map[string]string `json:"pc"`
	Res     map[string]string `json:"res"`
	Readers []string          `json:"readers"`
	Writer  string            `json:"writer"`
}

type opRec struct {
	Op      string `json:"op"`
	P       string `json:"p"`
	Outcome string `json:"outcome"`
	Kind    string `json:"kind"`
	F       int    `json:"f"`
}

type edge struct {
	From stateRec `json:"from"`
	Op   opRec    `json:"op"`
	To   stateRec `json:"to"`
}

type config struct {
	Layout string            `json:"layout"`
	NFiles int               `json:"nfiles"`
	Roles  map[string]string `json:"roles"`
}

type input struct {
	Config config   `json:"config"`
	Tours  [][]edge `json:"tours"`
	// Corrupt: negative control (an expected disk state is altered)
	Corrupt bool `json:"corrupt"`
}

// ---------------------------------------------------------------- goroutine identity (for the hook)

func goid() uint64 {
	var buf [64]byte
	n := runtime.Stack(buf[:], false)
	f := strings.Fields(string(buf[:n]))
	id, _ := strconv.ParseUint(f[1], 10, 64)
	return id
}

var (
	hookMu    sync.Mutex
	hookProcs = map[uint64]*proc{}
	hookOnce  sync.Once
)

func installHook() {
	hookOnce.Do(func() {
		verifhook.Set(func(point string, args ...any) {
			if point != "storageos.atomic.tempclosed" {
				return
			}
			hookMu.Lock()
			p := hookProcs[goid()]
			hookMu.Unlock()
			if p != nil {
				p.gate("yrename")
			}
		})
	})
}

// ---------------------------------------------------------------- processes and gates

type crashSentinel struct{}

type arrival struct {
	op string
}

type proc struct {
	name    string
	role    string
	arrive  chan arrival
	proceed chan string // "ok" | "fail" | "crash"
	done    chan string // result
	dead    bool
	started bool
	cancel  context.CancelFunc // cancels the context of this process's store
}

// gate announces the operation and waits for the controller's verdict.
func (p *proc) gate(op string) string {
	if p.dead {
		return "dead"
	}
	p.arrive <- arrival{op}
	v := <-p.proceed
	if v == "crash" {
		// the process dies here: it never executes another instruction (its goroutine is parked
		// for good; what it had open stays open, what it had half-written stays half-written)
		p.dead = true
		select {}
	}
	return v
}

var errInjected = errors.New("injected fault")
var errDead = errors.New("process is dead")

type gatedBucket struct {
	storage.ReadWriteBucket
	p *proc
}

func isMarker(path string) bool {
	return strings.HasSuffix(path, "/module.yaml") || strings.HasSuffix(path, ".tar")
}

func (b *gatedBucket) Get(ctx context.Context, path string) (storage.ReadObjectCloser, error) {
	if b.p.dead {
		return nil, errDead
	}
	if strings.HasSuffix(path, "/module.yaml") {
		b.p.gate("readyaml")
	} else if strings.HasSuffix(path, ".tar") {
		b.p.gate("readtar")
	}
	return b.ReadWriteBucket.Get(ctx, path)
}

func (b *gatedBucket) Delete(ctx context.Context, path string) error {
	if b.p.dead {
		return errDead
	}
	if strings.HasSuffix(path, ".tar") {
		b.p.gate("deletetar")
	}
	return b.ReadWriteBucket.Delete(ctx, path)
}

func (b *gatedBucket) Put(ctx context.Context, path string, opts ...storage.PutOption) (storage.WriteObjectCloser, error) {
	if b.p.dead {
		return nil, errDead
	}
	name := "open"
	if isMarker(path) {
		name = "yopen"
	}
	switch b.p.gate(name) {
	case "fail":
		return nil, fmt.Errorf("put %s: %w", path, errInjected)
	case "cancel":
		// the context of this store is cancelled now; the operation at hand goes on
		if b.p.cancel != nil {
			b.p.cancel()
		}
	}
	w, err := b.ReadWriteBucket.Put(ctx, path, opts...)
	if err != nil {
		return nil, err
	}
	return &gatedWriter{WriteObjectCloser: w, p: b.p, marker: isMarker(path)}, nil
}

type gatedWriter struct {
	storage.WriteObjectCloser
	p         *proc
	marker    bool
	wrote     bool
	closeFail bool
}

func (w *gatedWriter) Write(data []byte) (int, error) {
	if w.p.dead {
		return 0, errDead
	}
	if !w.wrote {
		w.wrote = true
		name := "write"
		if w.marker {
			name = "ywrite"
		}
		switch w.p.gate(name) {
		case "fail":
			n, _ := w.WriteObjectCloser.Write(data[:len(data)/2])
			return n, fmt.Errorf("write: %w", errInjected)
		case "closefail":
			w.closeFail = true // every byte goes out, the Close reports a failure
		}
	}
	return w.WriteObjectCloser.Write(data)
}

func (w *gatedWriter) Close() error {
	if w.p.dead {
		return errDead // a dead process closes nothing: temp files and truncated objects stay
	}
	if w.closeFail {
		_ = w.WriteObjectCloser.Close()
		return fmt.Errorf("close: %w", errInjected)
	}
	return w.WriteObjectCloser.Close()
}

// gatedLocker: the lock table is owned by the controller (lockTable); acquiring is a gated step.
type lockTable struct {
	mu      sync.Mutex
	readers map[string]bool
	writer  string
	bad     []string
}

type gatedLocker struct {
	p *proc
	t *lockTable
}

type unlocker struct {
	l     *gatedLocker
	write bool
}

func (l *gatedLocker) Lock(ctx context.Context, path string, _ ...filelock.LockOption) (filelock.Unlocker, error) {
	if l.p.dead {
		return nil, errDead
	}
	l.p.gate("lock")
	l.t.mu.Lock()
	if l.t.writer != "" || len(l.t.readers) > 0 {
		l.t.bad = append(l.t.bad, fmt.Sprintf("%s took the exclusive lock while held (writer=%q readers=%v)", l.p.name, l.t.writer, l.t.readers))
	}
	l.t.writer = l.p.name
	l.t.mu.Unlock()
	return &unlocker{l, true}, nil
}

func (l *gatedLocker) RLock(ctx context.Context, path string, _ ...filelock.LockOption) (filelock.Unlocker, error) {
	if l.p.dead {
		return nil, errDead
	}
	l.p.gate("rlock")
	l.t.mu.Lock()
	if l.t.writer != "" {
		l.t.bad = append(l.t.bad, fmt.Sprintf("%s took the shared lock while %s holds the exclusive lock", l.p.name, l.t.writer))
	}
	l.t.readers[l.p.name] = true
	l.t.mu.Unlock()
	return &unlocker{l, false}, nil
}

func (u *unlocker) Unlock() error {
	if u.l.p.dead {
		return errDead
	}
	if u.write {
		u.l.p.gate("unlock")
	} else {
		u.l.p.gate("runlock")
	}
	u.l.t.mu.Lock()
	if u.write {
		u.l.t.writer = ""
	} else {
		delete(u.l.t.readers, u.l.p.name)
	}
	u.l.t.mu.Unlock()
	return nil
}

// ---------------------------------------------------------------- the world of one tour

type world struct {
	cfg       config
	dir       string
	base      storage.ReadWriteBucket
	locks     *lockTable
	procs     map[string]*proc
	key       bufmodule.ModuleKey
	data      bufmodule.ModuleData
	fileNames []string
	contents  map[string][]byte
	keyDir    string // directory of the entry (dir layout) / tar path
	tarPath   string
	goodYAML  []byte // the module.yaml of a complete entry as the store wrote it
}

func fileName(f int) string { return fmt.Sprintf("pkg/f%d.proto", f) }

func newWorld(ctx context.Context, cfg config, dir string) (*world, error) {
	if err := os.RemoveAll(dir); err != nil {
		return nil, err
	}
	if err := os.MkdirAll(dir, 0o755); err != nil {
		return nil, err
	}
	base, err := storageos.NewProvider().NewReadWriteBucket(dir)
	if err != nil {
		return nil, err
	}
	w := &world{cfg: cfg, dir: dir, base: base, locks: &lockTable{readers: map[string]bool{}}, procs: map[string]*proc{}, contents: map[string][]byte{}}
	pathToData := map[string][]byte{}
	for f := 1; f <= cfg.NFiles; f++ {
		c := []byte(fmt.Sprintf("syntax = \"proto3\";\npackage pkg;\nmessage M%d { string id = 1; }\n", f))
		if f == 1 {
			// the first file imports a file of another module: the entry records a dependency pin
			c = []byte("syntax = \"proto3\";\npackage pkg;\nimport \"dep/d.proto\";\nmessage M1 { dep.D d = 1; }\n")
		}
		pathToData[fileName(f)] = c
		w.contents[fileName(f)] = c
		w.fileNames = append(w.fileNames, fileName(f))
	}
	omni, err := bufmoduletesting.NewOmniProvider(
		bufmoduletesting.ModuleData{Name: "buf.test/verif/cached", PathToData: pathToData},
		bufmoduletesting.ModuleData{Name: "buf.test/verif/dep", PathToData: map[string][]byte{"dep/d.proto": []byte("syntax = \"proto3\";\npackage dep;\nmessage D { string id = 1; }\n")}},
	)
	if err != nil {
		return nil, err
	}
	ref, err := bufparse.NewRef("buf.test", "verif", "cached", "")
	if err != nil {
		return nil, err
	}
	keys, err := omni.GetModuleKeysForModuleRefs(ctx, []bufparse.Ref{ref}, bufmodule.DigestTypeB5)
	if err != nil {
		return nil, err
	}
	datas, err := omni.GetModuleDatasForModuleKeys(ctx, keys)
	if err != nil {
		return nil, err
	}
	w.key, w.data = keys[0], datas[0]
	return w, nil
}

func (w *world) store(p *proc) bufmodulestore.ModuleDataStore {
	var opts []bufmodulestore.ModuleDataStoreOption
	if w.cfg.Layout == "tar" {
		opts = append(opts, bufmodulestore.ModuleDataStoreWithTar())
	}
	return bufmodulestore.NewModuleDataStore(bufx.Logger, &gatedBucket{w.base, p}, &gatedLocker{p, w.locks}, opts...)
}

// run is the body of a process goroutine.
func (w *world) run(ctx context.Context, p *proc) {
	result := "?"
	defer func() {
		if r := recover(); r != nil {
			if _, ok := r.(crashSentinel); ok {
				result = "crashed"
			} else {
				result = fmt.Sprintf("panic: %v", r)
			}
		}
		hookMu.Lock()
		delete(hookProcs, goid())
		hookMu.Unlock()
		p.done <- result
	}()
	hookMu.Lock()
	hookProcs[goid()] = p
	hookMu.Unlock()
	s := w.store(p)
	if p.role == "put" {
		if w.cfg.Layout == "tar" {
			p.gate("begin")
		}
		pctx, cancel := context.WithCancel(ctx)
		p.cancel = cancel
		defer cancel()
		err := s.PutModuleDatas(pctx, []bufmodule.ModuleData{w.data})
		if w.cfg.Layout == "tar" {
			p.gate("return")
		}
		if err != nil {
			result = "err"
		} else {
			result = "ok"
		}
		return
	}
	found, _, err := s.GetModuleDatasForModuleKeys(ctx, []bufmodule.ModuleKey{w.key})
	if err != nil {
		result = "geterr:" + err.Error()
		return
	}
	if len(found) == 0 {
		result = "miss"
		return
	}
	p.gate("access")
	result = w.access(ctx, found[0])
}

// access reads everything through the ModuleData handle: "content" (all bytes equal the module's),
// "mismatch" (an error), or "WRONG-CONTENT" (served bytes differ: the thing that must never happen).
func (w *world) access(ctx context.Context, md bufmodule.ModuleData) string {
	// the dependency pins first: they are covered by the digest of the key like the files are
	if deps, err := md.DepModuleKeys(); err != nil {
		return "mismatch"
	} else if want, werr := w.data.DepModuleKeys(); werr == nil {
		if len(deps) != len(want) {
			return "WRONG-CONTENT"
		}
		for i := range deps {
			a, _ := deps[i].Digest()
			b, _ := want[i].Digest()
			if deps[i].String() != want[i].String() || a == nil || b == nil || a.String() != b.String() {
				return "WRONG-CONTENT"
			}
		}
	}
	b, err := md.Bucket()
	if err != nil {
		return "mismatch"
	}
	got := map[string][]byte{}
	if err := b.Walk(ctx, "", func(oi storage.ObjectInfo) error {
		d, err := storage.ReadPath(ctx, b, oi.Path())
		if err != nil {
			return err
		}
		got[oi.Path()] = d
		return nil
	}); err != nil {
		return "mismatch"
	}
	if len(got) != len(w.contents) {
		return "WRONG-CONTENT"
	}
	for k, v := range w.contents {
		if !bytes.Equal(got[k], v) {
			return "WRONG-CONTENT"
		}
	}
	if _, err := md.DepModuleKeys(); err != nil {
		return "mismatch"
	}
	return "content"
}

func (w *world) entryDir() string {
	if w.keyDir != "" {
		return w.keyDir
	}
	d, _ := w.key.Digest()
	w.keyDir = filepath.Join(w.dir, d.Type().String(), "buf.test", "verif", "cached", strings.ReplaceAll(w.key.CommitID().String(), "-", ""))
	w.tarPath = w.keyDir + ".tar"
	return w.keyDir
}

// project classifies the disk into the abstract state.
func (w *world) project() (files []string, yaml string, extra bool, tmp int) {
	kd := w.entryDir()
	if w.cfg.Layout == "tar" {
		files = make([]string, w.cfg.NFiles)
		for i := range files {
			files[i] = "absent"
		}
		data, err := os.ReadFile(w.tarPath)
		switch {
		case err != nil:
			yaml = "absent"
		case bytes.Contains(data, []byte("TAMPERED")):
			yaml = "bad"
		default:
			yaml = "good"
		}
		entries, _ := os.ReadDir(filepath.Dir(kd))
		for _, e := range entries {
			if strings.HasPrefix(e.Name(), ".tmp") {
				tmp++
			}
		}
		return
	}
	for f := 1; f <= w.cfg.NFiles; f++ {
		data, err := os.ReadFile(filepath.Join(kd, "files", fileName(f)))
		switch {
		case err != nil:
			files = append(files, "absent")
		case bytes.Equal(data, w.contents[fileName(f)]):
			files = append(files, "good")
		default:
			files = append(files, "other")
		}
	}
	data, err := os.ReadFile(filepath.Join(kd, "module.yaml"))
	switch {
	case err != nil:
		yaml = "absent"
	case bytes.Contains(data, []byte("version: v1")) && bytes.Contains(data, []byte("files_dir: files")):
		yaml = "valid"
		if w.goodYAML == nil {
			w.goodYAML = data
		} else if !bytes.Equal(data, w.goodYAML) {
			yaml = "depsbad"
		}
	default:
		yaml = "invalid"
	}
	known := map[string]bool{}
	for _, n := range w.fileNames {
		known[n] = true
	}
	_ = filepath.Walk(filepath.Join(kd, "files"), func(p string, info os.FileInfo, err error) error {
		if err == nil && info.Mode().IsRegular() {
			rel, _ := filepath.Rel(filepath.Join(kd, "files"), p)
			if !known[filepath.ToSlash(rel)] {
				extra = true
			}
		}
		return nil
	})
	entries, _ := os.ReadDir(kd)
	for _, e := range entries {
		if strings.HasPrefix(e.Name(), ".tmp") {
			tmp++
		}
	}
	return
}

func abstractFile(s string) string {
	if s == "partial" || s == "bad" {
		return "other"
	}
	return s
}

func (w *world) tamper(o opRec) error {
	kd := w.entryDir()
	if w.cfg.Layout == "tar" {
		return os.WriteFile(w.tarPath, []byte("TAMPERED not a tar"), 0o644)
	}
	fp := filepath.Join(kd, "files", fileName(o.F))
	switch o.Kind {
	case "flip":
		data, err := os.ReadFile(fp)
		if err != nil {
			return err
		}
		data[len(data)/2] ^= 0x20
		return os.WriteFile(fp, data, 0o644)
	case "truncate":
		return os.Truncate(fp, 5)
	case "delete":
		return os.Remove(fp)
	case "add":
		return os.WriteFile(filepath.Join(kd, "files", "pkg", "zz_added.proto"), []byte("syntax = \"proto3\";\npackage pkg;\n"), 0o644)
	case "yaml-corrupt":
		return os.WriteFile(filepath.Join(kd, "module.yaml"), []byte("versio"), 0o644)
	case "yaml-delete":
		return os.Remove(filepath.Join(kd, "module.yaml"))
	case "yaml-deps":
		// the marker stays a well-formed module.yaml; the digest of the dependency pin it lists is changed
		data, err := os.ReadFile(filepath.Join(kd, "module.yaml"))
		if err != nil {
			return err
		}
		i := bytes.LastIndex(data, []byte("digest: b5:"))
		if i < 0 {
			return fmt.Errorf("module.yaml lists no dependency digest: %s", data)
		}
		j := i + len("digest: b5:") + 7
		if data[j] == 'a' {
			data[j] = 'b'
		} else {
			data[j] = 'a'
		}
		return os.WriteFile(filepath.Join(kd, "module.yaml"), data, 0o644)
	}
	return fmt.Errorf("unknown tamper kind %q", o.Kind)
}

// ---------------------------------------------------------------- replay of one tour

const stepTimeout = 10 * time.Second

type tourFailure struct {
	sig    string
	detail string
	step   int
}

func replayTour(ctx context.Context, cfg config, dir string, tour []edge) (*tourFailure, error) {
	w, err := newWorld(ctx, cfg, dir)
	if err != nil {
		return nil, err
	}
	pending := map[string]*arrival{}
	finished := map[string]string{}
	defer func() {
		// let every still-blocked process die so that goroutines do not leak
		for name, p := range w.procs {
			if _, ok := finished[name]; ok {
				continue
			}
			go func(p *proc) {
				for {
					select {
					case <-p.arrive:
						p.proceed <- "crash"
					case <-p.done:
						return
					case <-time.After(stepTimeout):
						return
					}
				}
			}(p)
		}
	}()
	// waitFor waits until process name has arrived at its next gate or finished.
	waitFor := func(name string) error {
		p := w.procs[name]
		if _, ok := pending[name]; ok {
			return nil
		}
		if _, ok := finished[name]; ok {
			return nil
		}
		select {
		case a := <-p.arrive:
			pending[name] = &a
		case r := <-p.done:
			finished[name] = r
		case <-time.After(stepTimeout):
			return fmt.Errorf("process %s neither reached an operation nor finished within %s", name, stepTimeout)
		}
		return nil
	}
	for i, e := range tour {
		o := e.Op
		stepDesc := fmt.Sprintf("step %d: %s(%s) outcome=%s", i+1, o.Op, o.P, o.Outcome)
		if o.Op == "tamper" {
			if err := w.tamper(o); err != nil {
				return nil, fmt.Errorf("tamper %v: %w", o, err)
			}
		} else {
			p := w.procs[o.P]
			if p == nil {
				p = &proc{name: o.P, role: cfg.Roles[o.P], arrive: make(chan arrival), proceed: make(chan string), done: make(chan string, 1)}
				w.procs[o.P] = p
				go w.run(ctx, p)
			}
			if err := waitFor(o.P); err != nil {
				return &tourFailure{"stuck/" + o.Op, stepDesc + ": " + err.Error(), i}, nil
			}
			if r, ok := finished[o.P]; ok {
				return &tourFailure{"op-mismatch/expected=" + o.Op + "/got=finished", fmt.Sprintf("%s: the specification expects operation %q next, the process has already returned %q", stepDesc, o.Op, r), i}, nil
			}
			a := pending[o.P]
			want := o.Op
			if want == "crash" {
				want = a.op // a crash happens instead of whatever comes next
			}
			if a.op != want {
				return &tourFailure{"op-mismatch/expected=" + o.Op + "/got=" + a.op, fmt.Sprintf("%s: the specification expects operation %q next, the store issued %q", stepDesc, o.Op, a.op), i}, nil
			}
			delete(pending, o.P)
			verdict := "ok"
			if o.Op == "crash" {
				verdict = "crash"
			} else if o.Outcome == "fail" || o.Outcome == "closefail" || o.Outcome == "cancel" {
				verdict = o.Outcome
			}
			p.proceed <- verdict
			if o.Op == "crash" {
				w.locks.mu.Lock()
				delete(w.locks.readers, o.P)
				if w.locks.writer == o.P {
					w.locks.writer = ""
				}
				w.locks.mu.Unlock()
				finished[o.P] = "crashed"
			}
			// the operation has been released: wait until the process reaches its next operation or finishes
			if err := waitFor(o.P); err != nil {
				return &tourFailure{"stuck/after-" + o.Op, stepDesc + ": " + err.Error(), i}, nil
			}
			// reads report what they saw: compare for readyaml/readtar/access through the next state
		}
		// compare the projected disk state
		files, yaml, extra, tmp := w.project()
		wantFiles := make([]string, len(e.To.File))
		for k, f := range e.To.File {
			wantFiles[k] = abstractFile(f)
		}
		if cfg.Layout == "tar" {
			for k := range wantFiles {
				wantFiles[k] = "absent"
			}
		}
		if fmt.Sprint(files) != fmt.Sprint(wantFiles) || yaml != e.To.Yaml || extra != e.To.Extra || tmp != e.To.Tmp {
			return &tourFailure{"disk-state/after-" + o.Op + "-" + o.Outcome,
				fmt.Sprintf("%s: the specification expects files=%v marker=%s extra=%v temp=%d, the cache directory holds files=%v marker=%s extra=%v temp=%d",
					stepDesc, wantFiles, e.To.Yaml, e.To.Extra, e.To.Tmp, files, yaml, extra, tmp), i}, nil
		}
		w.locks.mu.Lock()
		bad := append([]string{}, w.locks.bad...)
		w.locks.mu.Unlock()
		if len(bad) > 0 {
			return &tourFailure{"lock-safety", stepDesc + ": " + strings.Join(bad, "; "), i}, nil
		}
		// results of processes that the specification considers done
		for name, r := range e.To.Res {
			if e.To.PC[name] != "done" {
				if got, ok := finished[name]; ok {
					return &tourFailure{"returned-early/" + o.Op, fmt.Sprintf("%s: process %s returned %q but the specification has it at %q", stepDesc, name, got, e.To.PC[name]), i}, nil
				}
				continue
			}
			if w.procs[name] == nil {
				continue
			}
			if err := waitFor(name); err != nil {
				return &tourFailure{"stuck/return", stepDesc + ": " + err.Error(), i}, nil
			}
			got, ok := finished[name]
			if !ok {
				a := pending[name]
				return &tourFailure{"op-mismatch/expected=return/got=" + a.op, fmt.Sprintf("%s: the specification has process %s done with %q, the store issued a further operation %q", stepDesc, name, r, a.op), i}, nil
			}
			if got != r {
				sig := "result/" + cfg.Roles[name] + "/expected=" + r + "/got=" + strings.SplitN(got, ":", 2)[0]
				if got == "WRONG-CONTENT" {
					sig = "served-wrong-content"
				}
				return &tourFailure{sig, fmt.Sprintf("%s: process %s (%s) returned %q, the specification requires %q", stepDesc, name, cfg.Roles[name], got, r), i}, nil
			}
		}
	}
	return nil, nil
}

func runTours(in []byte) (*reg.Result, error) {
	var inp input
	if err := reg.Decode(in, &inp); err != nil {
		return nil, err
	}
	installHook()
	thread.SetParallelism(1) // module files are copied one after the other, in path order
	res := &reg.Result{}
	ctx := context.Background()
	work := reg.WorkDir()
	if inp.Corrupt {
		// claim that after the first successful marker rename the marker is still absent
	outer:
		for ti, t := range inp.Tours {
			for si, e := range t {
				if e.Op.Op == "yrename" {
					inp.Tours[ti][si].To.Yaml = "absent"
					inp.Tours = inp.Tours[ti : ti+1]
					break outer
				}
			}
		}
	}
	const workers = 12
	var wg sync.WaitGroup
	var mu sync.Mutex
	var firstErr error
	steps := 0
	for wk := 0; wk < workers; wk++ {
		wg.Add(1)
		go func(wk int) {
			defer wg.Done()
			dir := filepath.Join(work, fmt.Sprintf("cache-%d", wk))
			defer os.RemoveAll(dir)
			for ti := wk; ti < len(inp.Tours); ti += workers {
				tour := inp.Tours[ti]
				fail, err := replayTour(ctx, inp.Config, filepath.Join(dir, "root"), tour)
				if err != nil {
					mu.Lock()
					if firstErr == nil {
						firstErr = err
					}
					mu.Unlock()
					return
				}
				mu.Lock()
				steps += len(tour)
				mu.Unlock()
				res.Count(1, 0)
				if fail != nil {
					var ops []opRec
					for _, e := range tour[:fail.step+1] {
						ops = append(ops, e.Op)
					}
					res.Violate(fmt.Sprintf("%s/%s", inp.Config.Layout, fail.sig), map[string]any{"config": inp.Config, "ops": ops}, "%s", fail.detail)
				}
			}
		}(wk)
	}
	wg.Wait()
	if firstErr != nil {
		return nil, firstErr
	}
	res.Distinct = len(inp.Tours)
	res.SetExtra("steps", steps)
	if len(inp.Tours) > 0 {
		var ops []opRec
		for _, e := range inp.Tours[len(inp.Tours)/2] {
			ops = append(ops, e.Op)
		}
		res.Sample(map[string]any{"config": inp.Config, "tour": ops})
	}
	return res, nil
}

var _ = io.EOF
var _ = sort.Strings

package cachemodel

// Real processes: the store side of ModuleCache.tla executed by child processes on a real disk bucket with the
// real flock-based locker. A child is killed (SIGKILL) before its n-th storage operation or at one of the
// points inside the disk atomic writer, for every n; or it runs under RLIMIT_FSIZE = L so that the write that
// crosses L bytes really fails, for every L. Afterwards the parent loads the entry with a fresh store and a
// later store must repair it. The specification's claims that are checked: NoFalseComplete (a read yields a
// miss or verified content, never anything else; a failed or interrupted store leaves no complete entry) and
// Repair.

import (
	"bytes"
	"context"
	"errors"
	"fmt"
	"os"
	"os/exec"
	"os/signal"
	"path/filepath"
	"strconv"
	"strings"
	"sync/atomic"
	"syscall"
	"time"

	"github.com/bufbuild/buf/private/bufpkg/bufmodule"
	"github.com/bufbuild/buf/private/bufpkg/bufmodule/bufmodulestore"
	"github.com/bufbuild/buf/private/bufpkg/bufmodule/bufmoduletesting"
	"github.com/bufbuild/buf/private/bufpkg/bufparse"
	"github.com/bufbuild/buf/private/pkg/filelock"
	"github.com/bufbuild/buf/private/pkg/storage"
	"github.com/bufbuild/buf/private/pkg/storage/storageos"
	"github.com/bufbuild/buf/private/pkg/verifhook"
	"github.com/bufbuild/verifharness/internal/bufx"
	"github.com/bufbuild/verifharness/internal/reg"
	"github.com/google/uuid"
)

func init() {
	reg.Register("cache-procs", runProcs)
	reg.Register("cache-child", runProcChild)
}

var procContents = map[string][]byte{
	"pkg/f1.proto": []byte("syntax = \"proto3\";\npackage pkg;\nimport \"dep/d.proto\";\nmessage M1 { dep.D d = 1; }\n"),
	"pkg/f2.proto": []byte("syntax = \"proto3\";\npackage pkg;\nmessage M2 { string id = 1; }\n"),
}

// procModule returns the key and data of a module with one dependency, identical in every process.
func procModule(ctx context.Context) (bufmodule.ModuleKey, bufmodule.ModuleData, error) {
	created := time.Date(2024, 1, 2, 3, 4, 5, 0, time.UTC)
	omni, err := bufmoduletesting.NewOmniProvider(
		bufmoduletesting.ModuleData{Name: "buf.test/verif/dep", CommitID: uuid.MustParse("33333333-3333-4333-8333-333333333333"), CreateTime: created,
			PathToData: map[string][]byte{"dep/d.proto": []byte("syntax = \"proto3\";\npackage dep;\nmessage D { string id = 1; }\n")}},
		bufmoduletesting.ModuleData{Name: "buf.test/verif/cached", CommitID: uuid.MustParse("44444444-4444-4444-8444-444444444444"), CreateTime: created,
			PathToData: procContents},
	)
	if err != nil {
		return nil, nil, err
	}
	ref, err := bufparse.NewRef("buf.test", "verif", "cached", "")
	if err != nil {
		return nil, nil, err
	}
	keys, err := omni.GetModuleKeysForModuleRefs(ctx, []bufparse.Ref{ref}, bufmodule.DigestTypeB5)
	if err != nil {
		return nil, nil, err
	}
	datas, err := omni.GetModuleDatasForModuleKeys(ctx, keys)
	if err != nil {
		return nil, nil, err
	}
	return keys[0], datas[0], nil
}

func procStore(dir, layout string, bucket storage.ReadWriteBucket) (bufmodulestore.ModuleDataStore, error) {
	locker, err := filelock.NewLocker(dir, filelock.LockerWithLockTimeout(20*time.Second))
	if err != nil {
		return nil, err
	}
	var opts []bufmodulestore.ModuleDataStoreOption
	if layout == "tar" {
		opts = append(opts, bufmodulestore.ModuleDataStoreWithTar())
	}
	return bufmodulestore.NewModuleDataStore(bufx.Logger, bucket, locker, opts...), nil
}

// countingBucket kills the process before its n-th storage operation.
type countingBucket struct {
	storage.ReadWriteBucket
	step func(string)
}

func (b countingBucket) Get(ctx context.Context, path string) (storage.ReadObjectCloser, error) {
	b.step("get " + path)
	return b.ReadWriteBucket.Get(ctx, path)
}
func (b countingBucket) Delete(ctx context.Context, path string) error {
	b.step("delete " + path)
	return b.ReadWriteBucket.Delete(ctx, path)
}
func (b countingBucket) DeleteAll(ctx context.Context, prefix string) error {
	b.step("deleteall " + prefix)
	return b.ReadWriteBucket.DeleteAll(ctx, prefix)
}
func (b countingBucket) Put(ctx context.Context, path string, opts ...storage.PutOption) (storage.WriteObjectCloser, error) {
	b.step("put " + path)
	w, err := b.ReadWriteBucket.Put(ctx, path, opts...)
	if err != nil {
		return nil, err
	}
	return countingWriter{w, b.step, path}, nil
}

type countingWriter struct {
	storage.WriteObjectCloser
	step func(string)
	path string
}

func (w countingWriter) Write(p []byte) (int, error) {
	w.step("write " + w.path)
	return w.WriteObjectCloser.Write(p)
}
func (w countingWriter) Close() error {
	w.step("close " + w.path)
	return w.WriteObjectCloser.Close()
}

// runProcChild stores the module once. VH_CACHE_MODE: "none", "kill:<n>", "fsize:<bytes>".
func runProcChild(_ []byte) (*reg.Result, error) {
	ctx := context.Background()
	dir, layout, mode := os.Getenv("VH_CACHE_DIR"), os.Getenv("VH_CACHE_LAYOUT"), os.Getenv("VH_CACHE_MODE")
	_, data, err := procModule(ctx)
	if err != nil {
		return nil, err
	}
	base, err := storageos.NewProvider().NewReadWriteBucket(dir)
	if err != nil {
		return nil, err
	}
	kind, arg, _ := strings.Cut(mode, ":")
	n, _ := strconv.Atoi(arg)
	var steps atomic.Int64
	step := func(what string) {
		k := steps.Add(1)
		if kind == "kill" && int(k) == n {
			fmt.Println("KILLED-BEFORE", what)
			_ = syscall.Kill(os.Getpid(), syscall.SIGKILL)
			select {}
		}
	}
	verifhook.Set(func(point string, args ...any) {
		if strings.HasPrefix(point, "storageos.atomic.") {
			step(point)
		}
	})
	if kind == "fsize" {
		signal.Ignore(syscall.SIGXFSZ)
		lim := syscall.Rlimit{Cur: uint64(n), Max: uint64(n)}
		if err := syscall.Setrlimit(syscall.RLIMIT_FSIZE, &lim); err != nil {
			return nil, err
		}
	}
	store, err := procStore(dir, layout, countingBucket{base, step})
	if err != nil {
		return nil, err
	}
	putErr := store.PutModuleDatas(ctx, []bufmodule.ModuleData{data})
	if putErr != nil {
		fmt.Println("RESULT=ERR", putErr)
	} else {
		fmt.Println("RESULT=OK")
	}
	fmt.Println("STEPS=" + strconv.FormatInt(steps.Load(), 10))
	os.Exit(0)
	return nil, nil
}

// load reads the entry with a fresh store: "miss", "content", "mismatch" (an error surfaced by the accessors) or
// "WRONG-CONTENT".
func procLoad(ctx context.Context, dir, layout string, key bufmodule.ModuleKey) (string, error) {
	base, err := storageos.NewProvider().NewReadWriteBucket(dir)
	if err != nil {
		return "", err
	}
	store, err := procStore(dir, layout, base)
	if err != nil {
		return "", err
	}
	found, notFound, err := store.GetModuleDatasForModuleKeys(ctx, []bufmodule.ModuleKey{key})
	if err != nil {
		return "error:" + err.Error(), nil
	}
	if len(found) == 0 && len(notFound) == 1 {
		return "miss", nil
	}
	if len(found) != 1 {
		return fmt.Sprintf("found=%d notfound=%d", len(found), len(notFound)), nil
	}
	md := found[0]
	b, err := md.Bucket()
	if err != nil {
		return "mismatch", nil
	}
	got := map[string][]byte{}
	if err := b.Walk(ctx, "", func(oi storage.ObjectInfo) error {
		d, err := storage.ReadPath(ctx, b, oi.Path())
		if err != nil {
			return err
		}
		got[oi.Path()] = d
		return nil
	}); err != nil {
		return "mismatch", nil
	}
	if len(got) != len(procContents) {
		return "WRONG-CONTENT", nil
	}
	for k, v := range procContents {
		if !bytes.Equal(got[k], v) {
			return "WRONG-CONTENT", nil
		}
	}
	deps, err := md.DepModuleKeys()
	if err != nil {
		return "mismatch", nil
	}
	if len(deps) != 1 {
		return "WRONG-CONTENT", nil
	}
	return "content", nil
}

type procsInput struct {
	Exe     string `json:"exe"`
	Corrupt bool   `json:"corrupt"`
}

func runProcs(in []byte) (*reg.Result, error) {
	var inp procsInput
	if err := reg.Decode(in, &inp); err != nil {
		return nil, err
	}
	ctx := context.Background()
	res := &reg.Result{}
	exe := inp.Exe
	if exe == "" {
		exe, _ = os.Executable()
	}
	key, _, err := procModule(ctx)
	if err != nil {
		return nil, err
	}
	work := filepath.Join(reg.WorkDir(), "cacheprocs")
	defer os.RemoveAll(work)
	child := func(dir, layout, mode string) (string, error) {
		cmd := exec.Command(exe, "cache-child", "/dev/null", filepath.Join(work, "child-out.json"))
		cmd.Env = append(os.Environ(), "VH_CACHE_DIR="+dir, "VH_CACHE_LAYOUT="+layout, "VH_CACHE_MODE="+mode)
		out, err := cmd.CombinedOutput()
		return string(out), err
	}
	fresh := func(dir string) error {
		if err := os.RemoveAll(dir); err != nil {
			return err
		}
		return os.MkdirAll(dir, 0o755)
	}
	for _, layout := range []string{"dir", "tar"} {
		dir := filepath.Join(work, layout)
		// an undisturbed store: how many steps, how large are the files
		if err := fresh(dir); err != nil {
			return nil, err
		}
		out, err := child(dir, layout, "none")
		if err != nil || !strings.Contains(out, "RESULT=OK") {
			return nil, fmt.Errorf("undisturbed store failed: %v %s", err, out)
		}
		total := 0
		for _, l := range strings.Split(out, "\n") {
			if strings.HasPrefix(l, "STEPS=") {
				total, _ = strconv.Atoi(strings.TrimPrefix(l, "STEPS="))
			}
		}
		if total == 0 {
			return nil, errors.New("child reported no steps")
		}
		if r, err := procLoad(ctx, dir, layout, key); err != nil || r != "content" {
			return nil, fmt.Errorf("load after an undisturbed store: %q %v", r, err)
		}
		var maxSize int64
		_ = filepath.Walk(dir, func(_ string, fi os.FileInfo, err error) error {
			if err == nil && !fi.IsDir() && fi.Size() > maxSize {
				maxSize = fi.Size()
			}
			return nil
		})
		check := func(mode, out string, failedOrKilled bool) {
			res.Count(1, 1)
			info := map[string]any{"layout": layout, "mode": mode, "child": strings.TrimSpace(out)}
			r, err := procLoad(ctx, dir, layout, key)
			if err != nil {
				res.Violate("harness/load/"+layout+"/"+mode, info, "%v", err)
				return
			}
			if inp.Corrupt {
				r = "WRONG-CONTENT"
			}
			info["load"] = r
			class, _, _ := strings.Cut(mode, ":")
			if r != "miss" && r != "content" {
				res.Violate("wrong-read/"+layout+"/"+class+"/"+r, info, "after a store that was %s a read yields %q, not a miss and not verified content", mode, r)
			}
			if failedOrKilled && class == "fsize" && r == "content" {
				res.Violate("complete-after-failed-store/"+layout+"/"+class, info, "the store reported a failure (%s) but the entry is complete", mode)
			}
			// a later store repairs
			out2, err := child(dir, layout, "none")
			info["repair"] = strings.TrimSpace(out2)
			if err != nil || !strings.Contains(out2, "RESULT=OK") {
				res.Violate("repair-failed/"+layout+"/"+class, info, "a later store of the same module failed: %v", err)
				return
			}
			r2, err := procLoad(ctx, dir, layout, key)
			info["load_after_repair"] = r2
			if err != nil || r2 != "content" {
				res.Violate("not-repaired/"+layout+"/"+class+"/"+r2, info, "after a later store of the same module a read yields %q", r2)
			}
		}
		// SIGKILL before every step
		for n := 1; n <= total; n++ {
			if err := fresh(dir); err != nil {
				return nil, err
			}
			mode := fmt.Sprintf("kill:%d", n)
			out, err := child(dir, layout, mode)
			if err == nil || !strings.Contains(fmt.Sprint(err), "killed") {
				return nil, fmt.Errorf("child %s was not killed: %v %s", mode, err, out)
			}
			check(mode, out, true)
		}
		// a real write failure at every size limit that some file exceeds
		limits := []int64{}
		for l := int64(0); l <= maxSize+1; l++ {
			if l <= 400 || l%97 == 0 || l >= maxSize-2 {
				limits = append(limits, l)
			}
		}
		for _, l := range limits {
			if err := fresh(dir); err != nil {
				return nil, err
			}
			mode := fmt.Sprintf("fsize:%d", l)
			out, err := child(dir, layout, mode)
			if err != nil {
				return nil, fmt.Errorf("child %s failed: %v %s", mode, err, out)
			}
			failed := strings.Contains(out, "RESULT=ERR")
			if !failed && l < maxSize {
				res.Violate("unreported/"+layout+"/fsize", map[string]any{"layout": layout, "mode": mode, "child": out}, "a file exceeded the size limit %d but the store reported success", l)
			}
			check(mode, out, failed)
		}
		res.SetExtra("steps_"+layout, total)
		res.SetExtra("limits_"+layout, len(limits))
	}
	return res, nil
}

// Package pathescape replays the cases emitted by specs/storage/PathEscape.tla (C13) against the
// real bucket implementations: every raw path x operation x bucket kind is executed on a fresh
// universe that has sentinel objects outside every (view) root, and the observed effect is compared
// with the specification's expectation ("reject" or "act at Root \o Clean(raw)").
package pathescape

import (
	"archive/tar"
	"bytes"
	"context"
	"fmt"
	"io"
	"os"
	"path/filepath"
	"sort"
	"strings"
	"sync"

	"github.com/bufbuild/buf/private/bufpkg/bufcas"
	"github.com/bufbuild/buf/private/pkg/storage"
	"github.com/bufbuild/buf/private/pkg/storage/storagearchive"
	"github.com/bufbuild/buf/private/pkg/storage/storagemem"
	"github.com/bufbuild/buf/private/pkg/storage/storageos"
	"github.com/bufbuild/verifharness/internal/reg"
	"github.com/klauspost/compress/zip"
)

func init() { reg.Register("pathescape", run) }

type archiveExpect struct {
	Kind string   `json:"kind"`
	At   []string `json:"at"`
}

// Case is one line emitted by TLC.
type Case struct {
	Raw    []string          `json:"raw"`
	Clean  []string          `json:"clean"`
	Rooted bool              `json:"rooted"`
	Valid  bool              `json:"valid"`
	IsRoot bool              `json:"isroot"`
	Expect map[string]string `json:"expect"`
	// FilterNotHides: the negated filter view hides the object at the cleaned path
	FilterNotHides bool `json:"filterNotHides"`
	// PrefixExpect: what a nested view whose prefix is this raw path must do with every call
	PrefixExpect string                   `json:"prefixExpect"`
	Archive      map[string]archiveExpect `json:"archive"`
}

type input struct {
	Cases []Case   `json:"cases"`
	Kinds []string `json:"kinds"`
	// Corrupt flips the expectation of the first case (negative control: the oracle must object).
	Corrupt bool `json:"corrupt"`
}

var allKinds = []string{"os", "os-map", "os-map-map", "os-chain", "os-filter", "os-filternot", "os-pfxmap", "os-pfxmaprw", "mem", "mem-map", "mem-map-map", "mem-chain", "mem-filter", "mem-filternot", "mem-pfxmap", "mem-pfxmaprw"}
var ops = []string{"get", "stat", "walk", "put", "putatomic", "delete", "deleteall"}
var objNames = []string{"a/b", "b", "a.b", "..a", "s.txt"}

// universe is everything that exists, inside and outside the bucket under test.
type universe struct {
	disk     bool
	base     string
	dir      string
	levels   []string
	mem      storage.ReadWriteBucket
	pristine map[string]string
	emptyAt  string // level directory left without objects (archive destinations)
}

func newUniverse(disk bool, dir string, emptyAt string) (*universe, error) {
	// guard levels: an escaping path of up to 6 ".." components still lands inside base
	u := &universe{disk: disk, base: dir, dir: filepath.Join(dir, "g1", "g2", "g3", "g4", "g5", "g6"), emptyAt: emptyAt}
	if disk {
		u.levels = []string{"w", "o", "root", "m", "n"}
	} else {
		u.levels = []string{"m", "n"}
	}
	if err := u.reset(); err != nil {
		return nil, err
	}
	return u, nil
}

// resetAndSnapshot is used after an operation damaged the universe beyond targeted repair.
func (u *universe) guardEntries() map[string]string {
	out := map[string]string{}
	if !u.disk {
		return out
	}
	for d := filepath.Dir(u.dir); len(d) > len(u.base); d = filepath.Dir(d) {
		out["<guard>"+strings.TrimPrefix(filepath.Join(d, "guard.txt"), u.base)] = "guard"
	}
	return out
}

func (u *universe) reset() error {
	u.pristine = u.guardEntries()
	ctx := context.Background()
	if u.disk {
		if err := os.RemoveAll(filepath.Join(u.base, "g1")); err != nil {
			return err
		}
		if err := os.MkdirAll(u.dir, 0o755); err != nil {
			return err
		}
		// sentinels in the guard levels
		for d := filepath.Dir(u.dir); len(d) > len(u.base); d = filepath.Dir(d) {
			if err := os.WriteFile(filepath.Join(d, "guard.txt"), []byte("guard"), 0o644); err != nil {
				return err
			}
		}
	} else {
		u.mem = storagemem.NewReadWriteBucket()
	}
	cur := ""
	dirs := []string{}
	if !u.disk {
		dirs = append(dirs, "")
	}
	for _, l := range u.levels {
		cur = cur + "/" + l
		dirs = append(dirs, cur)
	}
	for _, d := range dirs {
		if u.disk {
			if err := os.MkdirAll(filepath.Join(u.dir, d), 0o755); err != nil {
				return err
			}
		}
		if d == u.emptyAt {
			continue
		}
		for _, n := range objNames {
			loc := d + "/" + n
			u.pristine[loc] = "@" + loc
			if u.disk {
				p := filepath.Join(u.dir, loc)
				if err := os.MkdirAll(filepath.Dir(p), 0o755); err != nil {
					return err
				}
				if err := os.WriteFile(p, []byte("@"+loc), 0o644); err != nil {
					return err
				}
			} else {
				if err := storage.PutPath(ctx, u.mem, strings.TrimPrefix(loc, "/"), []byte("@"+loc)); err != nil {
					return err
				}
			}
		}
	}
	return nil
}

// repair restores the changed locations (cheaper than reset; falls back to reset on any doubt).
func (u *universe) repair(changed []string) error {
	if !u.disk {
		return u.reset()
	}
	for _, ch := range changed {
		if strings.HasPrefix(ch, "<guard>") {
			return u.reset()
		}
		p := filepath.Join(u.dir, ch)
		if want, ok := u.pristine[ch]; ok {
			if err := os.MkdirAll(filepath.Dir(p), 0o755); err != nil {
				return u.reset()
			}
			if err := os.WriteFile(p, []byte(want), 0o644); err != nil {
				return u.reset()
			}
			continue
		}
		if err := os.Remove(p); err != nil {
			return u.reset()
		}
		// remove directories created for the new object (os.Remove refuses non-empty ones)
		for d := filepath.Dir(p); d != u.dir && len(d) > len(u.dir); d = filepath.Dir(d) {
			rel := strings.TrimPrefix(d, u.dir)
			if u.isLevelDir(rel) {
				break
			}
			if err := os.Remove(d); err != nil {
				break
			}
		}
	}
	after, err := u.snapshot()
	if err != nil || len(diff(u.pristine, after)) > 0 {
		return u.reset()
	}
	return nil
}

func (u *universe) isLevelDir(rel string) bool {
	cur := ""
	for _, l := range u.levels {
		cur = cur + "/" + l
		if rel == cur || rel == cur+"/a" {
			return true
		}
	}
	return rel == "" || rel == "/a"
}

func (u *universe) snapshot() (map[string]string, error) {
	out := map[string]string{}
	if u.disk {
		name := func(p string) string {
			if strings.HasPrefix(p, u.dir) {
				return strings.TrimPrefix(p, u.dir)
			}
			return "<guard>" + strings.TrimPrefix(p, u.base)
		}
		err := filepath.Walk(u.base, func(p string, info os.FileInfo, err error) error {
			if err != nil {
				return err
			}
			if info.Mode().IsRegular() {
				data, err := os.ReadFile(p)
				if err != nil {
					return err
				}
				out[name(p)] = string(data)
			} else if !info.IsDir() {
				out[name(p)] = "<special " + info.Mode().String() + ">"
			}
			return nil
		})
		return out, err
	}
	ctx := context.Background()
	err := u.mem.Walk(ctx, "", func(oi storage.ObjectInfo) error {
		data, err := storage.ReadPath(ctx, u.mem, oi.Path())
		if err != nil {
			// an object whose own path the bucket refuses: record its existence
			out["/"+oi.Path()] = "<unreadable>"
			return nil
		}
		out["/"+oi.Path()] = string(data)
		return nil
	})
	return out, err
}

type view struct {
	kind    string
	rb      storage.ReadBucket
	wb      storage.WriteBucket
	root    []string // location components of the view root in the universe
	visible []string // location components under which objects are visible (filter), nil = root
	// filterNot: the view hides a.b and everything under a/ (negated matcher)
	filterNot bool
}

// hiddenByFilterNot mirrors FilterNotHides of the specification for the clean paths a walk reports.
func hiddenByFilterNot(comps []string) bool {
	return (len(comps) == 1 && comps[0] == "a.b") || (len(comps) > 1 && comps[0] == "a")
}

func (u *universe) view(kind string) (*view, error) { return u.viewWithPrefix(kind, "", nil) }

// viewWithPrefix builds the view; for the pfxmap kinds the view is nested in the view rooted at m with the given
// (untrusted) prefix, whose cleaned components are cleanPrefix.
func (u *universe) viewWithPrefix(kind string, prefix string, cleanPrefix []string) (*view, error) {
	v := &view{kind: kind}
	var base storage.ReadWriteBucket
	if u.disk {
		b, err := storageos.NewProvider().NewReadWriteBucket(filepath.Join(u.dir, "w", "o", "root"))
		if err != nil {
			return nil, err
		}
		base = b
		v.root = []string{"w", "o", "root"}
	} else {
		base = u.mem
		v.root = []string{}
	}
	suffix := kind[strings.Index(kind, "-")+1:]
	if !strings.Contains(kind, "-") {
		suffix = ""
	}
	switch suffix {
	case "":
		v.rb, v.wb = base, base
	case "map":
		b := storage.MapReadWriteBucket(base, storage.MapOnPrefix("m"))
		v.rb, v.wb = b, b
		v.root = append(v.root, "m")
	case "map-map":
		b := storage.MapReadWriteBucket(storage.MapReadWriteBucket(base, storage.MapOnPrefix("m")), storage.MapOnPrefix("n"))
		v.rb, v.wb = b, b
		v.root = append(v.root, "m", "n")
	case "chain":
		b := storage.MapReadWriteBucket(base, storage.MapOnPrefix("m"), storage.MapOnPrefix("n"))
		v.rb, v.wb = b, b
		v.root = append(v.root, "m", "n")
	case "filter":
		v.rb = storage.FilterReadBucket(base, storage.MatchPathContained("m"))
		v.visible = append(append([]string{}, v.root...), "m")
	case "filternot":
		v.rb = storage.FilterReadBucket(base, storage.MatchNot(storage.MatchOr(storage.MatchPathEqual("a.b"), storage.MatchPathContained("a"))))
		v.filterNot = true
	case "pfxmap":
		// read and write views built separately (MapReadBucket / MapWriteBucket), each nested in its own inner view
		v.rb = storage.MapReadBucket(storage.MapReadBucket(base, storage.MapOnPrefix("m")), storage.MapOnPrefix(prefix))
		v.wb = storage.MapWriteBucket(storage.MapWriteBucket(base, storage.MapOnPrefix("m")), storage.MapOnPrefix(prefix))
		v.root = append(append(v.root, "m"), cleanPrefix...)
	case "pfxmaprw":
		b := storage.MapReadWriteBucket(storage.MapReadWriteBucket(base, storage.MapOnPrefix("m")), storage.MapOnPrefix(prefix))
		v.rb, v.wb = b, b
		v.root = append(append(v.root, "m"), cleanPrefix...)
	default:
		return nil, fmt.Errorf("unknown kind %q", kind)
	}
	return v, nil
}

func loc(comps []string) string { return "/" + strings.Join(comps, "/") }

func hasPrefix(a, prefix []string) bool {
	if len(prefix) > len(a) {
		return false
	}
	for i := range prefix {
		if a[i] != prefix[i] {
			return false
		}
	}
	return true
}

func locComps(l string) []string {
	l = strings.TrimPrefix(l, "/")
	if l == "" {
		return nil
	}
	return strings.Split(l, "/")
}

func diff(a, b map[string]string) []string {
	var out []string
	for k, v := range a {
		if w, ok := b[k]; !ok || w != v {
			out = append(out, k)
		}
	}
	for k := range b {
		if _, ok := a[k]; !ok {
			out = append(out, k)
		}
	}
	sort.Strings(out)
	return out
}

func cleanStr(c Case) string {
	if len(c.Clean) == 0 {
		if c.Rooted {
			return "/"
		}
		return "."
	}
	s := strings.Join(c.Clean, "/")
	if c.Rooted {
		s = "/" + s
	}
	return s
}

type opResult struct {
	err   error
	data  []byte
	paths []string
	stat  string
}

func doOp(ctx context.Context, v *view, op string, raw string) (res opResult, applicable bool) {
	switch op {
	case "get":
		r, err := v.rb.Get(ctx, raw)
		if err != nil {
			return opResult{err: err}, true
		}
		data, err := io.ReadAll(r)
		_ = r.Close()
		return opResult{err: err, data: data, stat: r.Path()}, true
	case "stat":
		oi, err := v.rb.Stat(ctx, raw)
		if err != nil {
			return opResult{err: err}, true
		}
		return opResult{stat: oi.Path()}, true
	case "walk":
		var paths []string
		err := v.rb.Walk(ctx, raw, func(oi storage.ObjectInfo) error {
			paths = append(paths, oi.Path())
			return nil
		})
		return opResult{err: err, paths: paths}, true
	}
	if v.wb == nil {
		return opResult{}, false
	}
	switch op {
	case "put", "putatomic":
		var opts []storage.PutOption
		if op == "putatomic" {
			opts = append(opts, storage.PutWithAtomic())
		}
		w, err := v.wb.Put(ctx, raw, opts...)
		if err != nil {
			return opResult{err: err}, true
		}
		_, err = w.Write([]byte("NEW"))
		cerr := w.Close()
		if err == nil {
			err = cerr
		}
		return opResult{err: err}, true
	case "delete":
		return opResult{err: v.wb.Delete(ctx, raw)}, true
	case "deleteall":
		return opResult{err: v.wb.DeleteAll(ctx, raw)}, true
	}
	return opResult{}, false
}

func specOp(op string) string {
	if op == "putatomic" {
		return "put"
	}
	return op
}

func checkCase(ctx context.Context, u *universe, kind string, c Case, res *reg.Result) error {
	raw := strings.Join(c.Raw, "/")
	prefix, cleanPrefix := "", []string(nil)
	if strings.Contains(kind, "-pfxmap") {
		// the raw path is the prefix of the nested view; the call itself is benign
		if c.PrefixExpect == "" {
			return nil
		}
		prefix = raw
		if c.PrefixExpect == "act" {
			cleanPrefix = c.Clean
		}
		exp := map[string]string{}
		for _, o := range []string{"get", "stat", "walk", "put", "delete", "deleteall"} {
			exp[o] = c.PrefixExpect
		}
		c = Case{Raw: []string{"b"}, Clean: []string{"b"}, Valid: true, Expect: exp}
		raw = "b"
	}
	for _, op := range ops {
		v, err := u.viewWithPrefix(kind, prefix, cleanPrefix)
		if err != nil {
			return err
		}
		r, ok := doOp(ctx, v, op, raw)
		if !ok {
			continue
		}
		res.Count(1, 0)
		var changed []string
		if !(u.disk && (op == "get" || op == "stat" || op == "walk")) {
			// (read operations on disk cannot be told to write; their universe is not re-scanned)
			after, err := u.snapshot()
			if err != nil {
				return err
			}
			changed = diff(u.pristine, after)
		}
		exp := c.Expect[specOp(op)]
		cs := cleanStr(c)
		caseInfo := map[string]any{"kind": kind, "op": op, "raw": raw, "clean": cs, "expect": exp}
		if prefix != "" {
			caseInfo["view_prefix"] = prefix
			cs = "b/prefix=" + prefix
		}
		target := append(append([]string{}, v.root...), c.Clean...)
		visibleRoot := v.root
		if v.visible != nil {
			visibleRoot = v.visible
		}
		switch exp {
		case "reject":
			if r.err == nil {
				res.Violate(fmt.Sprintf("accepted-invalid/%s/%s/clean=%s", kind, op, cs), caseInfo,
					"%s(%q) on %s returned no error although the path is not a valid bucket path (cleaned: %s)", op, raw, kind, cs)
			}
			if len(r.paths) > 0 {
				res.Violate(fmt.Sprintf("walk-invalid/%s/%s/clean=%s", kind, op, cs), caseInfo,
					"walk(%q) on %s visited %v for an invalid prefix", raw, kind, r.paths)
			}
			if len(changed) > 0 {
				res.Violate(fmt.Sprintf("escaped/%s/%s/clean=%s", kind, op, cs), caseInfo,
					"%s(%q) on %s (view root %s) changed %v", op, raw, kind, loc(v.root), changed)
			}
		case "act":
			for _, ch := range changed {
				lc := locComps(ch)
				ok := false
				switch specOp(op) {
				case "put", "delete":
					ok = loc(lc) == loc(target)
				case "deleteall":
					ok = hasPrefix(lc, target)
				}
				if !ok {
					res.Violate(fmt.Sprintf("escaped/%s/%s/clean=%s", kind, op, cs), caseInfo,
						"%s(%q) on %s (view root %s) changed %s, allowed only at/under %s", op, raw, kind, loc(v.root), ch, loc(target))
				}
			}
			switch op {
			case "get":
				if r.err == nil {
					want, exists := u.pristine[loc(target)]
					if v.filterNot && c.FilterNotHides {
						res.Violate(fmt.Sprintf("read-hidden/%s/%s/clean=%s", kind, op, cs), caseInfo,
							"get(%q) on %s returned %q: the filter hides the object at %s under every spelling", raw, kind, r.data, loc(target))
					}
					if !exists || want != string(r.data) || !hasPrefix(target, visibleRoot) {
						res.Violate(fmt.Sprintf("read-outside/%s/%s/clean=%s", kind, op, cs), caseInfo,
							"get(%q) on %s returned %q, the object at %s is %q (exists=%v)", raw, kind, r.data, loc(target), want, exists)
					}
				}
			case "stat":
				if r.err == nil {
					if v.filterNot && c.FilterNotHides {
						res.Violate(fmt.Sprintf("read-hidden/%s/%s/clean=%s", kind, op, cs), caseInfo,
							"stat(%q) on %s succeeded: the filter hides the object at %s under every spelling", raw, kind, loc(target))
					}
					if _, exists := u.pristine[loc(target)]; !exists || !hasPrefix(target, visibleRoot) {
						res.Violate(fmt.Sprintf("read-outside/%s/%s/clean=%s", kind, op, cs), caseInfo,
							"stat(%q) on %s succeeded but there is no visible object at %s", raw, kind, loc(target))
					}
				}
			case "walk":
				seen := map[string]bool{}
				for _, q := range r.paths {
					qc := locComps(q)
					full := append(append([]string{}, v.root...), qc...)
					_, exists := u.pristine[loc(full)]
					bad := !exists || !hasPrefix(full, target) || !hasPrefix(full, visibleRoot) || seen[q] || (v.filterNot && hiddenByFilterNot(qc))
					for _, comp := range qc {
						if comp == ".." || comp == "." || comp == "" {
							bad = true
						}
					}
					seen[q] = true
					if bad {
						res.Violate(fmt.Sprintf("walk-outside/%s/%s/clean=%s", kind, op, cs), caseInfo,
							"walk(%q) on %s reported %q which is not a visible object under %s", raw, kind, q, loc(target))
					}
				}
			}
		default:
			return fmt.Errorf("unknown expectation %q", exp)
		}
		if len(changed) > 0 {
			if err := u.repair(changed); err != nil {
				return err
			}
		}
	}
	return nil
}

// ---------------------------------------------------------------- archives

func buildTar(entries [][2]string) ([]byte, error) {
	var buf bytes.Buffer
	tw := tar.NewWriter(&buf)
	for _, e := range entries {
		if err := tw.WriteHeader(&tar.Header{Typeflag: tar.TypeReg, Name: e[0], Size: int64(len(e[1])), Mode: 0o644}); err != nil {
			return nil, err
		}
		if _, err := tw.Write([]byte(e[1])); err != nil {
			return nil, err
		}
	}
	if err := tw.Close(); err != nil {
		return nil, err
	}
	return buf.Bytes(), nil
}

func buildZip(entries [][2]string) ([]byte, error) {
	var buf bytes.Buffer
	zw := zip.NewWriter(&buf)
	for _, e := range entries {
		w, err := zw.CreateHeader(&zip.FileHeader{Name: e[0], Method: zip.Store})
		if err != nil {
			return nil, err
		}
		if _, err := w.Write([]byte(e[1])); err != nil {
			return nil, err
		}
	}
	if err := zw.Close(); err != nil {
		return nil, err
	}
	return buf.Bytes(), nil
}

func checkArchive(ctx context.Context, u *universe, kind string, c Case, res *reg.Result) error {
	raw := strings.Join(c.Raw, "/")
	cs := cleanStr(c)
	for _, format := range []string{"tar", "zip"} {
		for k := 0; k <= 2; k++ {
			exp := c.Archive[fmt.Sprint(k)]
			entries := [][2]string{{"x/y/ok.txt", "OK"}, {raw, "EVIL"}}
			var data []byte
			var err error
			if format == "tar" {
				data, err = buildTar(entries)
			} else {
				data, err = buildZip(entries)
			}
			if err != nil {
				continue // the archive library itself refuses the name
			}
			v, err := u.view(kind)
			if err != nil {
				return err
			}
			var opErr error
			if format == "tar" {
				opErr = storagearchive.Untar(ctx, bytes.NewReader(data), v.wb, storagearchive.UntarWithStripComponentCount(uint32(k)))
			} else {
				opErr = storagearchive.Unzip(ctx, bytes.NewReader(data), int64(len(data)), v.wb, storagearchive.UnzipWithStripComponentCount(uint32(k)))
			}
			res.Count(1, 0)
			after, err := u.snapshot()
			if err != nil {
				return err
			}
			changed := diff(u.pristine, after)
			okTarget := loc(append(append([]string{}, v.root...), []string{"x", "y", "ok.txt"}[k:]...))
			caseInfo := map[string]any{"kind": kind, "op": "un" + format, "strip": k, "raw": raw, "clean": cs, "expect": exp}
			sigBase := fmt.Sprintf("%s/un%s-strip%d/clean=%s", kind, format, k, cs)
			evilTarget := ""
			if exp.Kind == "write" {
				evilTarget = loc(append(append([]string{}, v.root...), exp.At...))
			}
			for _, ch := range changed {
				if ch == okTarget || (evilTarget != "" && ch == evilTarget) {
					continue
				}
				res.Violate("escaped/"+sigBase, caseInfo, "un%s of entry %q (strip %d) into %s (root %s) changed %s; allowed: %s %s",
					format, raw, k, kind, loc(v.root), ch, okTarget, evilTarget)
			}
			switch exp.Kind {
			case "reject":
				if opErr == nil {
					res.Violate("accepted-invalid/"+sigBase, caseInfo, "un%s accepted the entry name %q (cleaned %s)", format, raw, cs)
				}
			case "skip":
				if opErr != nil {
					// not a C13 matter (over-rejection), ignore
					break
				}
			case "write":
				if opErr == nil && after[evilTarget] != "EVIL" {
					res.Violate("misplaced/"+sigBase, caseInfo, "un%s of entry %q (strip %d) succeeded but %s holds %q", format, raw, k, evilTarget, after[evilTarget])
				}
			}
			if len(changed) > 0 {
				if err := u.repair(changed); err != nil {
					return err
				}
			}
		}
	}
	return nil
}

// checkFileNode: a CAS file node path is a bucket path: NewFileNode must refuse what a bucket refuses.
func checkFileNode(c Case, res *reg.Result, digest bufcas.Digest) {
	raw := strings.Join(c.Raw, "/")
	_, err := bufcas.NewFileNode(raw, digest)
	res.Count(1, 0)
	if !c.Valid && err == nil {
		res.Violate(fmt.Sprintf("accepted-invalid/filenode/new/clean=%s", cleanStr(c)), map[string]any{"raw": raw},
			"bufcas.NewFileNode(%q) accepted a path that is not a valid bucket path", raw)
	}
}

func run(in []byte) (*reg.Result, error) {
	var inp input
	if err := reg.Decode(in, &inp); err != nil {
		return nil, err
	}
	kinds := inp.Kinds
	if len(kinds) == 0 {
		kinds = allKinds
	}
	if inp.Corrupt && len(inp.Cases) > 0 {
		// negative control: claim that a valid path must be rejected
		for i := range inp.Cases {
			if inp.Cases[i].Valid && !inp.Cases[i].IsRoot {
				for k := range inp.Cases[i].Expect {
					inp.Cases[i].Expect[k] = "reject"
				}
				inp.Cases = inp.Cases[i : i+1]
				break
			}
		}
	}
	res := &reg.Result{}
	ctx := context.Background()
	work := reg.WorkDir()
	digest, err := bufcas.NewDigestForContent(bytes.NewReader([]byte("x")))
	if err != nil {
		return nil, err
	}
	const workers = 16
	var wg sync.WaitGroup
	errs := make(chan error, workers)
	for w := 0; w < workers; w++ {
		wg.Add(1)
		go func(w int) {
			defer wg.Done()
			dir := filepath.Join(work, fmt.Sprintf("pe-%d", w))
			_ = os.MkdirAll(dir, 0o755)
			defer os.RemoveAll(dir)
			unis := map[string]*universe{}
			get := func(disk bool, emptyAt string) (*universe, error) {
				key := fmt.Sprint(disk, emptyAt)
				if u, ok := unis[key]; ok {
					return u, nil
				}
				d := filepath.Join(dir, fmt.Sprintf("u%d", len(unis)))
				_ = os.MkdirAll(d, 0o755)
				u, err := newUniverse(disk, d, emptyAt)
				if err != nil {
					return nil, err
				}
				unis[key] = u
				return u, nil
			}
			for i := w; i < len(inp.Cases); i += workers {
				c := inp.Cases[i]
				for _, kind := range kinds {
					u, err := get(strings.HasPrefix(kind, "os"), "")
					if err != nil {
						errs <- err
						return
					}
					if err := checkCase(ctx, u, kind, c, res); err != nil {
						errs <- err
						return
					}
				}
				if !inp.Corrupt {
					for _, kind := range []string{"os", "mem-map"} {
						empty := "/w/o/root"
						if kind == "mem-map" {
							empty = "/m"
						}
						u, err := get(kind == "os", empty)
						if err != nil {
							errs <- err
							return
						}
						if err := checkArchive(ctx, u, kind, c, res); err != nil {
							errs <- err
							return
						}
					}
					checkFileNode(c, res, digest)
				}
				if i < 3 {
					res.Sample(map[string]any{"raw": strings.Join(c.Raw, "/"), "clean": cleanStr(c), "valid": c.Valid, "expect": c.Expect, "kinds": kinds})
				}
			}
		}(w)
	}
	wg.Wait()
	close(errs)
	for err := range errs {
		return nil, err
	}
	res.Distinct = len(inp.Cases)
	if !inp.Corrupt {
		if err := checkDeleteLastObject(ctx, work, res); err != nil {
			return nil, err
		}
	}
	return res, nil
}

// checkDeleteLastObject: the frame property for directories. A disk bucket whose root is given as a relative or as
// an absolute path, directly or through a mapped view, holds a single object in otherwise empty directories;
// deleting it (Delete / DeleteAll) must leave every directory outside the root as it was - whatever a bucket does
// about directories that became empty, it does it inside its root.
func checkDeleteLastObject(ctx context.Context, work string, res *reg.Result) error {
	base := filepath.Join(work, "prune")
	cwd, err := os.Getwd()
	if err != nil {
		return err
	}
	defer func() { _ = os.Chdir(cwd) }()
	for _, rootForm := range []string{"relative", "absolute"} {
		for _, via := range []string{"direct", "map"} {
			for _, op := range []string{"delete", "deleteall"} {
				_ = os.RemoveAll(base)
				rootDir := filepath.Join(base, "p1", "p2", "root")
				objDir := rootDir
				if via == "map" {
					objDir = filepath.Join(rootDir, "m")
				}
				if err := os.MkdirAll(filepath.Join(objDir, "d"), 0o755); err != nil {
					return err
				}
				if err := os.WriteFile(filepath.Join(objDir, "d", "only.txt"), []byte("x"), 0o644); err != nil {
					return err
				}
				if err := os.Chdir(work); err != nil {
					return err
				}
				rootArg := rootDir
				if rootForm == "relative" {
					rootArg = filepath.Join("prune", "p1", "p2", "root")
				}
				b, err := storageos.NewProvider().NewReadWriteBucket(rootArg)
				if err != nil {
					return err
				}
				var wb storage.WriteBucket = b
				if via == "map" {
					wb = storage.MapWriteBucket(b, storage.MapOnPrefix("m"))
				}
				res.Count(1, 0)
				if op == "delete" {
					err = wb.Delete(ctx, "d/only.txt")
				} else {
					err = wb.DeleteAll(ctx, "d")
				}
				info := map[string]any{"root": rootArg, "via": via, "op": op, "err": fmt.Sprint(err)}
				for _, outside := range []string{filepath.Join(base, "p1", "p2"), filepath.Join(base, "p1"), base} {
					if st, serr := os.Stat(outside); serr != nil || !st.IsDir() {
						res.Violate(fmt.Sprintf("escaped/directory-removed/%s-root/%s/%s", rootForm, via, op), info,
							"%s of the last object of a bucket rooted at %s removed the directory %s, which lies outside the root", op, rootArg, outside)
						break
					}
				}
			}
		}
	}
	_ = os.RemoveAll(base)
	return nil
}

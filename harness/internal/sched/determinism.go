package sched

import (
	"bytes"
	"context"
	"crypto/sha256"
	"errors"
	"fmt"
	"github.com/bufbuild/buf/private/bufpkg/bufmodule/bufmoduletesting"
	"io/fs"
	"math/rand"
	"runtime"
	"sort"
	"strings"
	"time"

	"github.com/bufbuild/buf/private/buf/bufformat"
	"github.com/bufbuild/buf/private/bufpkg/bufanalysis"
	"github.com/bufbuild/buf/private/bufpkg/bufconfig"
	"github.com/bufbuild/buf/private/bufpkg/bufimage"
	"github.com/bufbuild/buf/private/bufpkg/bufimage/bufimageutil"
	"github.com/bufbuild/buf/private/bufpkg/bufmodule"
	"github.com/bufbuild/buf/private/bufpkg/bufparse"
	"github.com/bufbuild/buf/private/pkg/protoencoding"
	"github.com/bufbuild/buf/private/pkg/storage"
	"github.com/bufbuild/buf/private/pkg/storage/storagemem"
	"github.com/bufbuild/buf/private/pkg/thread"
	"github.com/bufbuild/verifharness/internal/bufx"
	"github.com/bufbuild/verifharness/internal/reg"
	"github.com/google/uuid"
)

// Env is one environment an operation is executed under.
type Env struct {
	Parallelism int    `json:"parallelism"`
	MaxProcs    int    `json:"gomaxprocs"`
	Policy      string `json:"policy"`
	WalkSeed    int64  `json:"walk_seed"` // 0 = the bucket's own order
	ArgSeed     int64  `json:"arg_seed"`  // 0 = canonical argument order
	Rep         int    `json:"rep"`
}

func (e Env) String() string {
	return fmt.Sprintf("P=%d procs=%d policy=%s walk=%d args=%d rep=%d", e.Parallelism, e.MaxProcs, e.Policy, e.WalkSeed, e.ArgSeed, e.Rep)
}

// shuffleBucket delivers Walk callbacks in a permuted order.
type shuffleBucket struct {
	storage.ReadBucket
	seed int64
}

func (s shuffleBucket) Walk(ctx context.Context, prefix string, f func(storage.ObjectInfo) error) error {
	var infos []storage.ObjectInfo
	if err := s.ReadBucket.Walk(ctx, prefix, func(oi storage.ObjectInfo) error {
		infos = append(infos, oi)
		return nil
	}); err != nil {
		return err
	}
	r := rand.New(rand.NewSource(s.seed + int64(len(prefix))))
	r.Shuffle(len(infos), func(i, j int) { infos[i], infos[j] = infos[j], infos[i] })
	for _, oi := range infos {
		if err := f(oi); err != nil {
			return err
		}
	}
	return nil
}

func perturbBucket(b storage.ReadBucket, env Env) storage.ReadBucket {
	if env.WalkSeed == 0 {
		return b
	}
	return shuffleBucket{b, env.WalkSeed}
}

func shuffled[T any](in []T, seed int64) []T {
	out := append([]T{}, in...)
	if seed != 0 {
		r := rand.New(rand.NewSource(seed))
		r.Shuffle(len(out), func(i, j int) { out[i], out[j] = out[j], out[i] })
	}
	return out
}

// ---------------------------------------------------------------- workspace

type moduleSrc struct {
	name  string // bucket id and full name suffix
	files map[string]string
}

// workspace: four modules. "pet" and "pet-store" style sibling directories (bytes below '/'), many
// files (so that bufprotosource takes its chunked, concurrent path even at parallelism 16), imports
// across modules, lint violations in many files, two modules without any dependency relation.
func workspace(version int) []moduleSrc {
	var mods []moduleSrc
	a := moduleSrc{name: "alpha", files: map[string]string{}}
	const k = 150
	for i := 0; i < k; i++ {
		dir := "acme/pet/v1"
		pkg := "acme.pet.v1"
		if i%3 == 1 {
			dir, pkg = "acme/pet-store/v1", "acme.petstore.v1"
		} else if i%3 == 2 {
			dir, pkg = "acme/pet.v2", "acme.petv2"
		}
		var sb strings.Builder
		sb.WriteString("syntax = \"proto3\";\npackage " + pkg + ";\n")
		if i >= 3 {
			prev := i - 3
			pdir := dir
			sb.WriteString(fmt.Sprintf("import \"%s/f%03d.proto\";\n", pdir, prev))
		}
		sb.WriteString(fmt.Sprintf("// comment %d\nmessage M%03d {\n  string id = 1;\n", i, i))
		if i%7 == 0 {
			sb.WriteString("  string BadCase = 2;\n") // lint: FIELD_LOWER_SNAKE_CASE
		} else if !(version == 2 && i%11 == 0) {
			sb.WriteString("  int32 count = 2;\n")
		}
		if i >= 3 {
			sb.WriteString(fmt.Sprintf("  M%03d prev = 3;\n", i-3))
		}
		if version == 2 && i%13 == 0 {
			sb.WriteString("  string added = 9;\n")
		}
		sb.WriteString("}\n")
		if i%10 == 0 {
			sb.WriteString(fmt.Sprintf("enum E%03d {\n  E%03d_UNSPECIFIED = 0;\n  badValue%d = 1;\n}\n", i, i, i))
		}
		a.files[fmt.Sprintf("%s/f%03d.proto", dir, i)] = sb.String()
	}
	mods = append(mods, a)
	b := moduleSrc{name: "beta", files: map[string]string{
		"beta/v1/b.proto":  "syntax = \"proto3\";\npackage beta.v1;\nimport \"acme/pet/v1/f000.proto\";\nimport \"google/protobuf/timestamp.proto\";\nmessage B { acme.pet.v1.M000 m = 1; google.protobuf.Timestamp t = 2; }\nservice BService { rpc Get(B) returns (B); }\n",
		"beta/v1/b2.proto": "syntax = \"proto3\";\npackage beta.v1;\nimport \"beta/v1/b.proto\";\nmessage B2 { B b = 1; }\n",
		// a custom option whose value holds a map with several entries (the order of map entries on the wire is only fixed
		// by deterministic marshalling)
		"beta/v1/labels.proto": "syntax = \"proto3\";\npackage beta.v1;\nimport \"google/protobuf/descriptor.proto\";\nmessage Labels { map<string, string> kv = 1; map<int32, string> byid = 2; }\nextend google.protobuf.MessageOptions { Labels labels = 50777; }\nmessage Labelled {\n  option (labels) = { kv: [{key: \"a\", value: \"1\"}, {key: \"b\", value: \"2\"}, {key: \"c\", value: \"3\"}, {key: \"d\", value: \"4\"}, {key: \"e\", value: \"5\"}], byid: [{key: 3, value: \"x\"}, {key: 1, value: \"y\"}, {key: 2, value: \"z\"}] };\n  string id = 1;\n}\n",
	}}
	mods = append(mods, b)
	// packages that import each other along two routes (pa -> pb -> pa and pa -> pb -> pc -> pa; the files form a DAG)
	mods = append(mods, moduleSrc{name: "cyc", files: map[string]string{
		"cyc/pa/a1.proto": "syntax = \"proto3\";\npackage cyc.pa;\nimport \"cyc/pb/b1.proto\";\nmessage A1 { cyc.pb.B1 b = 1; }\n",
		"cyc/pa/a2.proto": "syntax = \"proto3\";\npackage cyc.pa;\nmessage A2 { string id = 1; }\n",
		"cyc/pb/b1.proto": "syntax = \"proto3\";\npackage cyc.pb;\nmessage B1 { string id = 1; }\n",
		"cyc/pb/b2.proto": "syntax = \"proto3\";\npackage cyc.pb;\nimport \"cyc/pa/a2.proto\";\nmessage B2 { cyc.pa.A2 a = 1; }\n",
		"cyc/pb/b3.proto": "syntax = \"proto3\";\npackage cyc.pb;\nimport \"cyc/pc/c1.proto\";\nmessage B3 { cyc.pc.C1 c = 1; }\n",
		"cyc/pc/c1.proto": "syntax = \"proto3\";\npackage cyc.pc;\nmessage C1 { string id = 1; }\n",
		"cyc/pc/c2.proto": "syntax = \"proto3\";\npackage cyc.pc;\nimport \"cyc/pa/a2.proto\";\nmessage C2 { cyc.pa.A2 a = 1; }\n",
	}})
	for _, n := range []string{"gamma", "delta", "epsilon", "zeta"} {
		mods = append(mods, moduleSrc{name: n, files: map[string]string{
			n + "/v1/x.proto": "syntax = \"proto3\";\npackage " + n + ".v1;\nmessage X { string id = 1; }\n",
		}})
	}
	return mods
}

func buildModuleSet(ctx context.Context, env Env, version int) (bufmodule.ModuleSet, error) {
	mods := shuffled(workspace(version), env.ArgSeed)
	builder := bufmodule.NewModuleSetBuilder(ctx, bufx.Logger, bufmodule.NopModuleDataProvider, bufmodule.NopCommitProvider)
	for _, m := range mods {
		b, err := bufx.Bucket(m.files)
		if err != nil {
			return nil, err
		}
		fullName, err := bufparse.NewFullName("buf.test", "verif", m.name)
		if err != nil {
			return nil, err
		}
		builder.AddLocalModule(perturbBucket(b, env), m.name, true,
			bufmodule.LocalModuleWithFullNameAndCommitID(fullName, uuid.NewSHA1(uuid.Nil, []byte(m.name))))
	}
	return builder.Build()
}

func buildImage(ctx context.Context, env Env, version int) (bufimage.Image, error) {
	ms, err := buildModuleSet(ctx, env, version)
	if err != nil {
		return nil, err
	}
	return bufx.BuildImageForModuleSet(ctx, ms)
}

// ---------------------------------------------------------------- operations

type operation struct {
	name string
	run  func(ctx context.Context, env Env) ([]byte, error)
}

func annotationBytes(err error) ([]byte, error) {
	as, ok := bufx.Annotations(err)
	if !ok {
		return nil, err
	}
	return []byte(bufx.AnnotationText(as)), nil
}

func dumpBucket(ctx context.Context, b storage.ReadBucket) ([]byte, error) {
	var buf bytes.Buffer
	paths, err := storage.AllPaths(ctx, b, "")
	if err != nil {
		return nil, err
	}
	for _, p := range paths {
		d, err := storage.ReadPath(ctx, b, p)
		if err != nil {
			return nil, err
		}
		fmt.Fprintf(&buf, "== %s (%d)\n%s\n", p, len(d), d)
	}
	return buf.Bytes(), nil
}

func operations() []operation {
	return []operation{
		{"build-marshal", func(ctx context.Context, env Env) ([]byte, error) {
			img, err := buildImage(ctx, env, 1)
			if err != nil {
				return nil, err
			}
			return bufx.MarshalImage(img)
		}},
		{"lint", func(ctx context.Context, env Env) ([]byte, error) {
			img, err := buildImage(ctx, env, 1)
			if err != nil {
				return nil, err
			}
			client, err := bufx.CheckClient(ctx)
			if err != nil {
				return nil, err
			}
			cfg, err := bufx.LintConfig(bufconfig.FileVersionV2, shuffled([]string{"STANDARD", "COMMENTS"}, env.ArgSeed), nil, nil, nil, false)
			if err != nil {
				return nil, err
			}
			return annotationBytes(client.Lint(ctx, cfg, img))
		}},
		{"lint-junit", func(ctx context.Context, env Env) ([]byte, error) {
			// the same annotations in the junit format (grouped by file: the groups come in a fixed order too)
			img, err := buildImage(ctx, env, 1)
			if err != nil {
				return nil, err
			}
			client, err := bufx.CheckClient(ctx)
			if err != nil {
				return nil, err
			}
			cfg, err := bufx.LintConfig(bufconfig.FileVersionV2, []string{"STANDARD"}, nil, nil, nil, false)
			if err != nil {
				return nil, err
			}
			var fas bufanalysis.FileAnnotationSet
			if cerr := client.Lint(ctx, cfg, img); !errors.As(cerr, &fas) {
				return nil, fmt.Errorf("lint gave no annotations: %v", cerr)
			}
			var buf bytes.Buffer
			if err := bufanalysis.PrintFileAnnotationSet(&buf, fas, "junit"); err != nil {
				return nil, err
			}
			return buf.Bytes(), nil
		}},
		{"breaking", func(ctx context.Context, env Env) ([]byte, error) {
			img1, err := buildImage(ctx, env, 1)
			if err != nil {
				return nil, err
			}
			img2, err := buildImage(ctx, env, 2)
			if err != nil {
				return nil, err
			}
			client, err := bufx.CheckClient(ctx)
			if err != nil {
				return nil, err
			}
			cfg, err := bufx.BreakingConfig(bufconfig.FileVersionV2, shuffled([]string{"FILE", "WIRE_JSON"}, env.ArgSeed), nil, nil, nil, false)
			if err != nil {
				return nil, err
			}
			return annotationBytes(client.Breaking(ctx, cfg, img2, img1))
		}},
		{"format", func(ctx context.Context, env Env) ([]byte, error) {
			b, err := bufx.Bucket(workspace(1)[0].files)
			if err != nil {
				return nil, err
			}
			out, err := bufformat.FormatBucket(ctx, perturbBucket(b, env))
			if err != nil {
				return nil, err
			}
			return dumpBucket(ctx, out)
		}},
		{"copy", func(ctx context.Context, env Env) ([]byte, error) {
			b, err := bufx.Bucket(workspace(1)[0].files)
			if err != nil {
				return nil, err
			}
			dst := storagemem.NewReadWriteBucket()
			n, err := storage.Copy(ctx, perturbBucket(b, env), dst)
			if err != nil {
				return nil, err
			}
			d, err := dumpBucket(ctx, dst)
			return append([]byte(fmt.Sprintf("count=%d\n", n)), d...), err
		}},
		{"codegen-requests", func(ctx context.Context, env Env) ([]byte, error) {
			img, err := buildImage(ctx, env, 1)
			if err != nil {
				return nil, err
			}
			images, err := bufimage.ImageByDir(img)
			if err != nil {
				return nil, err
			}
			reqs, err := bufimage.ImagesToCodeGeneratorRequests(images, "", nil, true, false)
			if err != nil {
				return nil, err
			}
			var buf bytes.Buffer
			for _, r := range reqs {
				d, err := protoencoding.NewWireMarshaler().Marshal(r)
				if err != nil {
					return nil, err
				}
				fmt.Fprintf(&buf, "%x\n", sha256.Sum256(d))
				buf.WriteString(strings.Join(r.FileToGenerate, ",") + "\n")
			}
			return buf.Bytes(), nil
		}},
		{"dep-graph", func(ctx context.Context, env Env) ([]byte, error) {
			ms, err := buildModuleSet(ctx, env, 1)
			if err != nil {
				return nil, err
			}
			g, err := bufmodule.ModuleSetToDAG(ms)
			if err != nil {
				return nil, err
			}
			s, err := g.DOTString(func(m bufmodule.Module) string { return m.OpaqueID() })
			return []byte(s), err
		}},
		{"digests", func(ctx context.Context, env Env) ([]byte, error) {
			ms, err := buildModuleSet(ctx, env, 1)
			if err != nil {
				return nil, err
			}
			var lines []string
			for _, m := range ms.Modules() {
				for _, dt := range []bufmodule.DigestType{bufmodule.DigestTypeB5} {
					d, err := m.Digest(dt)
					if err != nil {
						return nil, err
					}
					lines = append(lines, m.OpaqueID()+" "+d.String())
				}
			}
			sort.Strings(lines)
			return []byte(strings.Join(lines, "\n")), nil
		}},
		{"module-order", func(ctx context.Context, env Env) ([]byte, error) {
			// the order in which the module set lists its modules and their dependencies
			ms, err := buildModuleSet(ctx, env, 1)
			if err != nil {
				return nil, err
			}
			var buf bytes.Buffer
			for _, m := range ms.Modules() {
				deps, err := m.ModuleDeps()
				if err != nil {
					return nil, err
				}
				buf.WriteString(m.OpaqueID() + ":")
				for _, d := range deps {
					fmt.Fprintf(&buf, " %s(direct=%v)", d.OpaqueID(), d.IsDirect())
				}
				buf.WriteString("\n")
			}
			return buf.Bytes(), nil
		}},
		{"type-filter", func(ctx context.Context, env Env) ([]byte, error) {
			img, err := buildImage(ctx, env, 1)
			if err != nil {
				return nil, err
			}
			types := shuffled([]string{"beta.v1.BService", "acme.pet.v1.M147", "acme.petstore.v1.M148", "acme.petv2.M149"}, env.ArgSeed)
			out, err := bufimageutil.FilterImage(img, bufimageutil.WithIncludeTypes(types...))
			if err != nil {
				return nil, err
			}
			return bufx.MarshalImage(out)
		}},
		{"build-errors", func(ctx context.Context, env Env) ([]byte, error) {
			// a workspace that does not compile in many places (8 files with 30 unknown types each): the diagnostics are
			// the same set in the same order whatever order the compiler found them in
			files := map[string]string{}
			for f := 0; f < 8; f++ {
				var sb strings.Builder
				sb.WriteString(fmt.Sprintf("syntax = \"proto3\";\npackage bad.v%d;\nmessage Holder%d {\n", f, f))
				for k := 1; k <= 30; k++ {
					sb.WriteString(fmt.Sprintf("  Unknown%d_%d f%d = %d;\n", f, k, k, k))
				}
				sb.WriteString("}\n")
				files[fmt.Sprintf("bad/v%d/bad%d.proto", f, f)] = sb.String()
			}
			b, err := bufx.Bucket(files)
			if err != nil {
				return nil, err
			}
			_, err = bufx.BuildImageForBucket(ctx, perturbBucket(b, env))
			if err == nil {
				return nil, errors.New("a workspace with unknown types compiled")
			}
			return annotationBytes(err)
		}},
		{"image-paths", func(ctx context.Context, env Env) ([]byte, error) {
			// an image used as input with --path values (files and a directory) listed in any order
			img, err := buildImage(ctx, env, 1)
			if err != nil {
				return nil, err
			}
			paths := shuffled([]string{"beta/v1/b2.proto", "acme/pet/v1/f009.proto", "acme/pet.v2/f005.proto", "cyc/pb", "acme/pet-store/v1/f004.proto"}, env.ArgSeed+int64(env.Rep))
			out, err := bufimage.ImageWithOnlyPaths(img, paths, nil)
			if err != nil {
				return nil, err
			}
			return bufx.MarshalImage(out)
		}},
		{"type-filter-extensions", func(ctx context.Context, env Env) ([]byte, error) {
			// known-extension retention over a chain of extensions, and a custom option named together with a
			// message that uses it: the closure must not depend on map iteration or on the order of the names
			img, err := bufx.BuildImage(ctx, map[string]string{"x/v1/x.proto": extensionChainSource})
			if err != nil {
				return nil, err
			}
			var buf bytes.Buffer
			for _, types := range [][]string{{"x.v1.A"}, {"x.v1.opt_b", "x.v1.UsesB"}, {"x.v1.UsesB", "x.v1.opt_a", "x.v1.D"}} {
				out, err := bufimageutil.FilterImage(img, bufimageutil.WithIncludeTypes(shuffled(types, env.ArgSeed+int64(env.Rep))...))
				if err != nil {
					return nil, err
				}
				data, err := bufx.MarshalImage(out)
				if err != nil {
					return nil, err
				}
				fmt.Fprintf(&buf, "== %v: %x\n", types, sha256.Sum256(data))
			}
			return buf.Bytes(), nil
		}},
		{"remote-commits", func(ctx context.Context, env Env) ([]byte, error) {
			// one remote dependency pinned at four commits (a workspace whose lock files drifted apart), added in an
			// order that depends on the environment: the newest one is used, whatever the order
			ms, err := buildModuleSetWithCommits(ctx, env)
			if err != nil {
				return nil, err
			}
			var buf bytes.Buffer
			for _, m := range ms.Modules() {
				fmt.Fprintf(&buf, "%s commit=%s target=%v\n", m.OpaqueID(), m.CommitID(), m.IsTarget())
			}
			img, err := bufx.BuildImageForModuleSet(ctx, ms)
			if err != nil {
				return nil, err
			}
			data, err := bufx.MarshalImage(img)
			if err != nil {
				return nil, err
			}
			return append(buf.Bytes(), data...), nil
		}},
		{"ls-files", func(ctx context.Context, env Env) ([]byte, error) {
			ms, err := buildModuleSet(ctx, env, 1)
			if err != nil {
				return nil, err
			}
			infos, err := bufmodule.GetTargetFileInfos(ctx, bufmodule.ModuleSetToModuleReadBucketWithOnlyProtoFiles(ms))
			if err != nil {
				return nil, err
			}
			var buf bytes.Buffer
			for _, fi := range infos {
				buf.WriteString(fi.Path() + "\n")
			}
			return buf.Bytes(), nil
		}},
	}
}

type determinismInput struct {
	Envs []Env    `json:"envs"`
	Ops  []string `json:"ops"`
	// Sabotage: negative control, one operation gets an output that depends on the environment
	Sabotage bool `json:"sabotage"`
}

func runDeterminism(in []byte) (*reg.Result, error) {
	var inp determinismInput
	if err := reg.Decode(in, &inp); err != nil {
		return nil, err
	}
	res := &reg.Result{}
	ctx := context.Background()
	defer thread.SetParallelism(16)
	defer runtime.GOMAXPROCS(runtime.GOMAXPROCS(0))
	ops := operations()
	if inp.Sabotage {
		ops = []operation{{"sabotaged", func(ctx context.Context, env Env) ([]byte, error) {
			return []byte(fmt.Sprint(env.WalkSeed, env.Policy)), nil
		}}}
	}
	want := map[string]bool{}
	for _, o := range inp.Ops {
		want[o] = true
	}
	var allTraces [][]Event
	canonical := Env{Parallelism: 1, MaxProcs: 16, Policy: "free"}
	distinct := 0
	for _, o := range ops {
		if len(want) > 0 && !want[o.name] {
			continue
		}
		thread.SetParallelism(canonical.Parallelism)
		runtime.GOMAXPROCS(canonical.MaxProcs)
		ref, err := o.run(ctx, canonical)
		if err != nil {
			return nil, fmt.Errorf("operation %s failed in the canonical environment: %w", o.name, err)
		}
		for _, env := range inp.Envs {
			thread.SetParallelism(env.Parallelism)
			runtime.GOMAXPROCS(env.MaxProcs)
			g := NewGate(env.Policy, env.WalkSeed*31+int64(env.Rep)+reg.Seed(), true)
			got, err := o.run(ctx, env)
			traces := g.Traces()
			g.Close()
			if len(allTraces) < 4000 {
				allTraces = append(allTraces, traces...)
			}
			res.Count(1, 1)
			distinct++
			caseInfo := map[string]any{"op": o.name, "env": env}
			sig := "nondeterministic/" + o.name
			switch {
			case env.Parallelism != 1 || env.Policy != "free":
				sig += "/schedule"
			}
			if env.WalkSeed != 0 {
				sig += "/walk-order"
			}
			if env.ArgSeed != 0 {
				sig += "/arg-order"
			}
			if err != nil {
				res.Violate(sig, caseInfo, "operation %s fails under %s: %v (succeeds in the canonical environment)", o.name, env, err)
				continue
			}
			if !bytes.Equal(got, ref) {
				res.Violate(sig, caseInfo, "operation %s: output under %s differs from the canonical output (%d vs %d bytes; first difference at byte %d)", o.name, env, len(got), len(ref), firstDiff(got, ref))
			}
		}
		if len(res.Samples) < 3 {
			res.Sample(map[string]any{"op": o.name, "canonical_sha256": fmt.Sprintf("%x", sha256.Sum256(ref)), "bytes": len(ref), "envs": len(inp.Envs)})
		}
	}
	res.Distinct = distinct
	res.SetExtra("traces", allTraces)
	return res, nil
}

func firstDiff(a, b []byte) int {
	n := min(len(a), len(b))
	for i := 0; i < n; i++ {
		if a[i] != b[i] {
			return i
		}
	}
	return n
}

// commitsProvider serves the commits of the remote dependency of the remote-commits operation.
type commitsProvider struct {
	datas   map[uuid.UUID]bufmodule.ModuleData
	created map[uuid.UUID]time.Time
}

func (p *commitsProvider) GetModuleDatasForModuleKeys(_ context.Context, keys []bufmodule.ModuleKey) ([]bufmodule.ModuleData, error) {
	var out []bufmodule.ModuleData
	for _, k := range keys {
		d, ok := p.datas[k.CommitID()]
		if !ok {
			return nil, fs.ErrNotExist
		}
		out = append(out, d)
	}
	return out, nil
}

func (p *commitsProvider) GetCommitsForModuleKeys(_ context.Context, keys []bufmodule.ModuleKey) ([]bufmodule.Commit, error) {
	var out []bufmodule.Commit
	for _, k := range keys {
		t, ok := p.created[k.CommitID()]
		if !ok {
			return nil, fs.ErrNotExist
		}
		out = append(out, bufmodule.NewCommit(k, func() (time.Time, error) { return t, nil }))
	}
	return out, nil
}

func (p *commitsProvider) GetCommitsForCommitKeys(context.Context, []bufmodule.CommitKey) ([]bufmodule.Commit, error) {
	return nil, errors.New("not used")
}

func buildModuleSetWithCommits(ctx context.Context, env Env) (bufmodule.ModuleSet, error) {
	prov := &commitsProvider{datas: map[uuid.UUID]bufmodule.ModuleData{}, created: map[uuid.UUID]time.Time{}}
	// creation times are not in the order of the commit numbers
	times := map[int]int64{1: 300, 2: 100, 3: 400, 4: 200}
	var keys []bufmodule.ModuleKey
	for commit := 1; commit <= 4; commit++ {
		id := uuid.NewSHA1(uuid.Nil, []byte(fmt.Sprintf("gamma-%d", commit)))
		omni, err := bufmoduletesting.NewOmniProvider(bufmoduletesting.ModuleData{Name: "buf.test/verif/gamma", CommitID: id, PathToData: map[string][]byte{
			"gamma/v1/g.proto": []byte(fmt.Sprintf("syntax = \"proto3\";\npackage gamma.v1;\n// commit %d\nmessage G { string id = 1; int32 rev%d = %d; }\n", commit, commit, commit+1)),
		}})
		if err != nil {
			return nil, err
		}
		ref, err := bufparse.NewRef("buf.test", "verif", "gamma", "")
		if err != nil {
			return nil, err
		}
		ks, err := omni.GetModuleKeysForModuleRefs(ctx, []bufparse.Ref{ref}, bufmodule.DigestTypeB5)
		if err != nil {
			return nil, err
		}
		md, err := omni.GetModuleDatasForModuleKeys(ctx, ks)
		if err != nil {
			return nil, err
		}
		prov.datas[id] = md[0]
		prov.created[id] = time.Unix(1700000000+times[commit], 0)
		keys = append(keys, ks[0])
	}
	builder := bufmodule.NewModuleSetBuilder(ctx, bufx.Logger, prov, prov)
	local, err := bufx.Bucket(map[string]string{"use/v1/u.proto": "syntax = \"proto3\";\npackage use.v1;\nimport \"gamma/v1/g.proto\";\nmessage U { gamma.v1.G g = 1; }\n"})
	if err != nil {
		return nil, err
	}
	fullName, err := bufparse.NewFullName("buf.test", "verif", "use")
	if err != nil {
		return nil, err
	}
	builder.AddLocalModule(perturbBucket(local, env), "use", true, bufmodule.LocalModuleWithFullNameAndCommitID(fullName, uuid.NewSHA1(uuid.Nil, []byte("use"))))
	// the order in which the pins are added: rotated and shuffled by the environment
	order := shuffled(keys, env.ArgSeed+int64(env.Rep)+env.WalkSeed)
	for _, k := range order {
		builder.AddRemoteModule(k, false)
	}
	return builder.Build()
}

const extensionChainSource = `syntax = "proto2";
package x.v1;
import "google/protobuf/descriptor.proto";
message A { extensions 100 to 200; }
message B { extensions 100 to 200; }
message C { extensions 100 to 200; }
message D { optional string x = 1; extensions 100 to 200; }
message E { optional string y = 1; }
extend A { optional B ext_b = 100; }
extend B { optional C ext_c = 100; }
extend C { optional D ext_d = 100; }
extend D { optional E ext_e = 100; }
message OptA { optional string note = 1; }
message OptB { optional string note = 1; }
extend google.protobuf.MessageOptions {
  optional OptA opt_a = 50101;
  optional OptB opt_b = 50102;
}
message UsesB {
  option (opt_b) = { note: "b" };
  optional string u = 1;
}
`

// Package sched binds specs/thread/Parallelize.tla (C02) to the real code.
//
// The verif hooks of thread.Parallelize are used twice: as a recorder (every call becomes a trace that
// ParallelizeTrace.tla must accept) and as a scheduler gate that imposes completion orders (fifo, lifo,
// seeded random) on the jobs of any call made by the operation under test.
//
// "sched-driver": randomised direct calls of thread.Parallelize (failures, cancel-on-failure, external
// cancellation, parallelism 1..3, multiplier) -> traces + direct check of the returned error.
// "sched-determinism": end-to-end operations (build+marshal, lint, breaking, format, copy, code-generator
// requests, dependency graph, digests, type filter) executed under a canonical environment and under
// perturbed ones (schedules, parallelism, storage walk order, argument order, repetition); every output
// must be byte-identical to the canonical one.  The Parallelize traces of those runs are returned too.
package sched

import (
	"context"
	"encoding/json"
	"errors"
	"fmt"
	"math/rand"
	"sort"
	"strings"
	"sync"
	"time"

	"github.com/bufbuild/buf/private/pkg/thread"
	"github.com/bufbuild/buf/private/pkg/verifhook"
	"github.com/bufbuild/verifharness/internal/reg"
)

func init() {
	reg.Register("sched-driver", runDriver)
	reg.Register("sched-determinism", runDeterminism)
}

// Event is one line of a trace.
type Event struct {
	E   string `json:"e"`
	J   int    `json:"j,omitempty"`
	N   int    `json:"n,omitempty"`
	Cap int    `json:"cap,omitempty"`
	Cof bool   `json:"cof"`
	Ext bool   `json:"ext"`
	Len int    `json:"len"`
}

type waiter struct {
	job int
	ch  chan struct{}
}

type callState struct {
	id         uint64
	n, cap     int
	dispatched int
	inflight   int
	jobIdx     map[uint64]int
	gated      map[uint64]bool
	waiting    []*waiter
	events     []Event
	done       bool
	lastEvent  time.Time
}

// Gate is recorder and scheduler.
type Gate struct {
	mu     sync.Mutex
	policy string // "free" | "fifo" | "lifo" | "rand"
	rng    *rand.Rand
	calls  map[uint64]*callState
	order  []uint64
	ext    bool
	stopC  chan struct{}
}

// NewGate installs a gate with the given policy.
func NewGate(policy string, seed int64, ext bool) *Gate {
	g := &Gate{policy: policy, rng: rand.New(rand.NewSource(seed)), calls: map[uint64]*callState{}, ext: ext, stopC: make(chan struct{})}
	verifhook.Set(g.hook)
	if policy != "free" {
		go g.watchdog()
	}
	return g
}

// Close uninstalls the gate and releases everything still waiting.
func (g *Gate) Close() {
	verifhook.Set(nil)
	close(g.stopC)
	g.mu.Lock()
	for _, cs := range g.calls {
		for _, w := range cs.waiting {
			close(w.ch)
		}
		cs.waiting = nil
	}
	g.mu.Unlock()
}

// watchdog releases a waiter when nothing happened for a while (a job depends on something the
// gate cannot see); it only affects which schedules are explored.
func (g *Gate) watchdog() {
	t := time.NewTicker(2 * time.Millisecond)
	defer t.Stop()
	for {
		select {
		case <-g.stopC:
			return
		case <-t.C:
			g.mu.Lock()
			for _, cs := range g.calls {
				if len(cs.waiting) > 0 && time.Since(cs.lastEvent) > 8*time.Millisecond {
					g.releaseOne(cs)
				}
			}
			g.mu.Unlock()
		}
	}
}

func (g *Gate) releaseOne(cs *callState) {
	if len(cs.waiting) == 0 {
		return
	}
	k := 0
	switch g.policy {
	case "fifo":
		for i, w := range cs.waiting {
			if w.job < cs.waiting[k].job {
				k = i
			}
		}
	case "lifo":
		for i, w := range cs.waiting {
			if w.job > cs.waiting[k].job {
				k = i
			}
		}
	default:
		k = g.rng.Intn(len(cs.waiting))
	}
	w := cs.waiting[k]
	cs.waiting = append(cs.waiting[:k], cs.waiting[k+1:]...)
	cs.lastEvent = time.Now()
	close(w.ch)
}

// evaluate releases a waiting job when the dispatcher cannot make progress without it.
func (g *Gate) evaluate(cs *callState) {
	if g.policy == "free" {
		for len(cs.waiting) > 0 {
			g.releaseOne(cs)
		}
		return
	}
	canDispatch := cs.dispatched < cs.n && cs.inflight < cs.cap
	if !canDispatch && len(cs.waiting) == cs.inflight && len(cs.waiting) > 0 {
		g.releaseOne(cs)
	}
}

func (g *Gate) hook(point string, args ...any) {
	if !strings.HasPrefix(point, "thread.") {
		return
	}
	call := args[0].(uint64)
	g.mu.Lock()
	cs := g.calls[call]
	if cs == nil {
		if point != "thread.begin" {
			g.mu.Unlock()
			return
		}
		cs = &callState{id: call, jobIdx: map[uint64]int{}, gated: map[uint64]bool{}}
		g.calls[call] = cs
		g.order = append(g.order, call)
	}
	cs.lastEvent = time.Now()
	switch point {
	case "thread.begin":
		cs.n, cs.cap = args[1].(int), args[2].(int)
		cs.events = append(cs.events, Event{E: "begin", N: cs.n, Cap: cs.cap, Cof: args[3].(bool), Ext: g.ext})
	case "thread.dispatch":
		cs.dispatched++
		cs.inflight++
		cs.jobIdx[args[1].(uint64)] = cs.dispatched
		cs.events = append(cs.events, Event{E: "dispatch", J: cs.dispatched})
		g.evaluate(cs)
	case "thread.start":
		cs.events = append(cs.events, Event{E: "start", J: cs.jobIdx[args[1].(uint64)]})
	case "thread.fail", "thread.finish":
		tok := args[1].(uint64)
		j := cs.jobIdx[tok]
		if !cs.gated[tok] {
			cs.gated[tok] = true
			w := &waiter{job: j, ch: make(chan struct{})}
			cs.waiting = append(cs.waiting, w)
			g.evaluate(cs)
			g.mu.Unlock()
			<-w.ch
			g.mu.Lock()
		}
		if point == "thread.fail" {
			cs.events = append(cs.events, Event{E: "fail", J: j})
		} else {
			cs.events = append(cs.events, Event{E: "finish", J: j})
			cs.inflight--
			g.evaluate(cs)
		}
	case "thread.adderror":
		cs.events = append(cs.events, Event{E: "adderror", Len: args[1].(int)})
	case "thread.return":
		cs.events = append(cs.events, Event{E: "return", Len: args[1].(int)})
		cs.done = true
	}
	g.mu.Unlock()
}

// Traces returns the events of all completed calls, call after call.
func (g *Gate) Traces() [][]Event {
	g.mu.Lock()
	defer g.mu.Unlock()
	var out [][]Event
	for _, id := range g.order {
		if cs := g.calls[id]; cs.done {
			out = append(out, cs.events)
		}
	}
	return out
}

// ---------------------------------------------------------------- direct driver

type driverInput struct {
	Iterations int `json:"iterations"`
	// Sabotage makes the driver's own bookkeeping wrong (negative control for the direct check)
	Sabotage bool `json:"sabotage"`
}

func flatten(err error) []string {
	if err == nil {
		return nil
	}
	if u, ok := err.(interface{ Unwrap() []error }); ok {
		var out []string
		for _, e := range u.Unwrap() {
			out = append(out, flatten(e)...)
		}
		return out
	}
	return []string{err.Error()}
}

func runDriver(in []byte) (*reg.Result, error) {
	var inp driverInput
	if err := reg.Decode(in, &inp); err != nil {
		return nil, err
	}
	if inp.Iterations == 0 {
		inp.Iterations = 300
	}
	res := &reg.Result{}
	rng := rand.New(rand.NewSource(reg.Seed()))
	var all [][]Event
	untraced := 0
	defer thread.SetParallelism(16)
	policies := []string{"free", "fifo", "lifo", "rand"}
	shapes := map[string]bool{}
	for it := 0; it < inp.Iterations; it++ {
		n := 2 + rng.Intn(5)
		p := 1 + rng.Intn(3)
		mult := 1 + rng.Intn(2)
		cof := rng.Intn(2) == 0
		fails := make([]bool, n)
		ctxSensitive := make([]bool, n)
		for i := range fails {
			fails[i] = rng.Intn(4) == 0
			ctxSensitive[i] = rng.Intn(3) == 0
		}
		extAt := -1
		if rng.Intn(4) == 0 {
			extAt = rng.Intn(n)
		}
		policy := policies[rng.Intn(len(policies))]
		thread.SetParallelism(p)
		g := NewGate(policy, rng.Int63(), extAt >= 0)
		ctx, cancel := context.WithCancel(context.Background())
		var mu sync.Mutex
		ran := make([]bool, n)
		failed := make([]bool, n)
		jobs := make([]func(context.Context) error, n)
		for i := 0; i < n; i++ {
			i := i
			jobs[i] = func(jctx context.Context) error {
				mu.Lock()
				ran[i] = true
				mu.Unlock()
				if i == extAt {
					cancel()
				}
				if fails[i] {
					mu.Lock()
					failed[i] = true
					mu.Unlock()
					return fmt.Errorf("job-%d-failed", i)
				}
				if ctxSensitive[i] {
					select {
					case <-jctx.Done():
						mu.Lock()
						failed[i] = true
						mu.Unlock()
						return fmt.Errorf("job-%d-saw-%w", i, jctx.Err())
					default:
					}
				}
				return nil
			}
		}
		var opts []thread.ParallelizeOption
		if mult > 1 {
			opts = append(opts, thread.ParallelizeWithMultiplier(mult))
		}
		if cof {
			opts = append(opts, thread.ParallelizeWithCancelOnFailure())
		}
		err := thread.Parallelize(ctx, jobs, opts...)
		cancel()
		traces := g.Traces()
		g.Close()
		all = append(all, traces...)
		res.Count(1, 0)
		shapes[fmt.Sprint(n, p, mult, cof, fails, extAt >= 0, policy)] = true
		// direct check of the result: every failing job's error exactly once; nothing else but ctx errors
		got := flatten(err)
		caseInfo := map[string]any{"n": n, "parallelism": p, "multiplier": mult, "cancel_on_failure": cof, "fails": fails, "ext_cancel_in_job": extAt, "policy": policy, "returned": got}
		sig := fmt.Sprintf("parallelize/cof=%v", cof)
		if inp.Sabotage && it == 0 {
			failed[0] = !failed[0]
			ran[0] = true
		}
		seen := map[string]int{}
		for _, m := range got {
			seen[m]++
		}
		for i := 0; i < n; i++ {
			want := 0
			if failed[i] {
				want = 1
			}
			cnt := 0
			for m, c := range seen {
				if strings.HasPrefix(m, fmt.Sprintf("job-%d-", i)) {
					cnt += c
				}
			}
			if cnt != want {
				res.Violate(sig+"/job-error-lost-or-duplicated", caseInfo, "job %d failed=%v but its error appears %d time(s) in the result %v", i, failed[i], cnt, got)
			}
		}
		anyNotRun := false
		for i := 0; i < n; i++ {
			if !ran[i] {
				anyNotRun = true
			}
		}
		ctxErrs := seen[context.Canceled.Error()]
		if anyNotRun && ctxErrs == 0 {
			res.Violate(sig+"/job-skipped-silently", caseInfo, "a job never ran but the result %v carries no context error", got)
		}
		if !cof && extAt < 0 && anyNotRun {
			res.Violate(sig+"/job-skipped-without-cancel", caseInfo, "a job never ran although nothing was cancelled")
		}
		if len(traces) != 1 {
			// The call went through no hook (or through more than one call): its events cannot be validated against
			// the specification.  Its result was judged above by the terminal conditions of the specification; the
			// run is only conclusive if that found something.
			untraced++
			continue
		}
		if it < 2 {
			res.Sample(map[string]any{"params": caseInfo, "trace": traces[0]})
		}
	}
	res.Distinct = len(shapes)
	res.SetExtra("traces", all)
	res.SetExtra("untraced_calls", untraced)
	if untraced > 0 && len(res.Violations) == 0 {
		return nil, fmt.Errorf("driver: %d call(s) of thread.Parallelize left no (single) trace and their results satisfy the terminal conditions: nothing to validate", untraced)
	}
	return res, nil
}

// TraceLines serialises traces as ndjson lines.
func TraceLines(traces [][]Event) []string {
	var out []string
	for _, t := range traces {
		for _, e := range t {
			b, _ := json.Marshal(e)
			out = append(out, string(b))
		}
	}
	return out
}

var _ = errors.New
var _ = sort.Strings

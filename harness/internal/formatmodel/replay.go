package formatmodel

import (
	"bytes"
	"context"
	"fmt"
	"sort"
	"strings"
	"sync"

	"github.com/bufbuild/buf/private/buf/bufformat"
	"github.com/bufbuild/buf/private/bufpkg/bufimage"
	"github.com/bufbuild/buf/private/pkg/protoencoding"
	"github.com/bufbuild/protocompile/ast"
	"github.com/bufbuild/protocompile/parser"
	"github.com/bufbuild/protocompile/reporter"
	"github.com/bufbuild/verifharness/internal/bufx"
	"github.com/bufbuild/verifharness/internal/reg"
	"google.golang.org/protobuf/proto"
	"google.golang.org/protobuf/types/descriptorpb"
)

func init() { reg.Register("format-replay", run) }

const allPath = "fmt/v1/all.proto"

type commentRec struct {
	Site  string `json:"site"`
	Style string `json:"style"`
	Owner string `json:"owner"`
}
type caseRec struct {
	W              [][2]string  `json:"w"`
	Comments       []commentRec `json:"comments"`
	ImportsWritten []string     `json:"importsWritten"`
	Imports        []string     `json:"imports"`
	OptionsWritten []string     `json:"optionsWritten"`
	Options        []string     `json:"options"`
}
type input struct {
	Base    map[string]string `json:"base"`
	Cases   []caseRec         `json:"cases"`
	Corrupt bool              `json:"corrupt"`
}

func optionName(n *ast.OptionNameNode) string {
	var parts []string
	for _, p := range n.Parts {
		s := string(p.Name.AsIdentifier())
		if p.IsExtension() {
			s = "(" + s + ")"
		}
		parts = append(parts, s)
	}
	return strings.Join(parts, ".")
}

// declLabel names a declaration node; "" for nodes that are not declarations.
func declLabel(n ast.Node, parent ast.Node) string {
	index := func(same func(ast.Node) bool) int {
		k := 0
		if c, ok := parent.(ast.CompositeNode); ok {
			for _, ch := range c.Children() {
				if same(ch) {
					k++
				}
				if ch == n {
					break
				}
			}
		}
		return k
	}
	switch x := n.(type) {
	case *ast.SyntaxNode, *ast.EditionNode:
		return "syntax"
	case *ast.PackageNode:
		return "package"
	case *ast.ImportNode:
		return "import:" + x.Name.AsString()
	case *ast.OptionNode:
		if _, compact := parent.(*ast.CompactOptionsNode); compact {
			return ""
		}
		name := optionName(x.Name)
		return fmt.Sprintf("option:%s#%d", name, index(func(o ast.Node) bool {
			on, ok := o.(*ast.OptionNode)
			return ok && optionName(on.Name) == name
		}))
	case *ast.MessageNode:
		return "message:" + string(x.Name.AsIdentifier())
	case *ast.FieldNode:
		return "field:" + string(x.Name.AsIdentifier())
	case *ast.MapFieldNode:
		return "field:" + string(x.Name.AsIdentifier())
	case *ast.GroupNode:
		return "group:" + string(x.Name.AsIdentifier())
	case *ast.OneofNode:
		return "oneof:" + string(x.Name.AsIdentifier())
	case *ast.EnumNode:
		return "enum:" + string(x.Name.AsIdentifier())
	case *ast.EnumValueNode:
		return "value:" + string(x.Name.AsIdentifier())
	case *ast.ExtendNode:
		return "extend:" + string(x.Extendee.AsIdentifier())
	case *ast.ExtensionRangeNode:
		return fmt.Sprintf("extensions#%d", index(func(o ast.Node) bool { _, ok := o.(*ast.ExtensionRangeNode); return ok }))
	case *ast.ReservedNode:
		return fmt.Sprintf("reserved#%d", index(func(o ast.Node) bool { _, ok := o.(*ast.ReservedNode); return ok }))
	case *ast.ServiceNode:
		return "service:" + string(x.Name.AsIdentifier())
	case *ast.RPCNode:
		return "rpc:" + string(x.Name.AsIdentifier())
	case *ast.EmptyDeclNode:
		return "empty"
	}
	return ""
}

// owners maps every marker "S:<site>" found in a comment to the declaration path of the token the comment is attached to.
func owners(file *ast.FileNode) (map[string]string, error) {
	out := map[string]string{}
	var stack []ast.Node
	after := ast.WithAfter(func(ast.Node) error {
		stack = stack[:len(stack)-1]
		return nil
	})
	before := ast.WithBefore(func(n ast.Node) error {
		stack = append(stack, n)
		if _, ok := n.(ast.TerminalNode); !ok {
			return nil
		}
		info := file.NodeInfo(n)
		var texts []string
		for i := 0; i < info.LeadingComments().Len(); i++ {
			texts = append(texts, info.LeadingComments().Index(i).RawText())
		}
		for i := 0; i < info.TrailingComments().Len(); i++ {
			texts = append(texts, info.TrailingComments().Index(i).RawText())
		}
		if len(texts) == 0 {
			return nil
		}
		path := stack
		var labels []string
		if n == ast.Node(file.EOF) {
			labels = []string{"eof"}
		} else {
			for i, anc := range path {
				var parent ast.Node
				if i > 0 {
					parent = path[i-1]
				}
				if l := declLabel(anc, parent); l != "" {
					labels = append(labels, l)
				}
			}
		}
		owner := strings.Join(labels, "/")
		for _, text := range texts {
			for _, f := range strings.Fields(text) {
				if strings.HasPrefix(f, "S:") {
					out[strings.TrimPrefix(f, "S:")] = owner
				}
			}
		}
		return nil
	})
	if err := ast.Walk(file, ast.NoOpVisitor{}, before, after); err != nil {
		return nil, err
	}
	return out, nil
}

// headerOrder returns the imports and the file options of a file in source order.
func headerOrder(file *ast.FileNode) ([]string, []string) {
	var imports, options []string
	for _, d := range file.Decls {
		switch x := d.(type) {
		case *ast.ImportNode:
			imports = append(imports, x.Name.AsString())
		case *ast.OptionNode:
			name := optionName(x.Name)
			if name == "(fmt.v1.file_tags)" {
				if s, ok := x.Val.(ast.StringValueNode); ok {
					name += "#" + s.AsString()
				}
			}
			options = append(options, name)
		}
	}
	return imports, options
}

// descriptorJSON compiles all.proto and renders its descriptor (options interpreted, no source info, imports as a set).
func descriptorJSON(ctx context.Context, src string) (string, error) {
	image, err := bufx.BuildImage(ctx, map[string]string{allPath: src, "fmt/v1/opts.proto": optsProto})
	if err != nil {
		return "", err
	}
	file := image.GetFile(allPath)
	if file == nil {
		return "", fmt.Errorf("image has no %s", allPath)
	}
	fdp := proto.Clone(file.FileDescriptorProto()).(*descriptorpb.FileDescriptorProto)
	fdp.SourceCodeInfo = nil
	// the order of import statements is not part of the meaning
	public := map[string]bool{}
	for _, i := range fdp.PublicDependency {
		public[fdp.Dependency[i]] = true
	}
	weak := map[string]bool{}
	for _, i := range fdp.WeakDependency {
		weak[fdp.Dependency[i]] = true
	}
	sort.Strings(fdp.Dependency)
	fdp.PublicDependency, fdp.WeakDependency = nil, nil
	for i, d := range fdp.Dependency {
		if public[d] {
			fdp.PublicDependency = append(fdp.PublicDependency, int32(i))
		}
		if weak[d] {
			fdp.WeakDependency = append(fdp.WeakDependency, int32(i))
		}
	}
	resolver, err := protoencoding.NewResolver(bufimage.ImageToFileDescriptorProtos(image)...)
	if err != nil {
		return "", err
	}
	if err := protoencoding.ReparseExtensions(resolver, fdp.ProtoReflect()); err != nil {
		return "", err
	}
	data, err := protoencoding.NewJSONMarshaler(resolver, protoencoding.JSONMarshalerWithIndent()).Marshal(fdp)
	if err != nil {
		return "", err
	}
	return string(data), nil
}

func firstDiff(a, b string) string {
	al, bl := strings.Split(a, "\n"), strings.Split(b, "\n")
	for i := 0; i < len(al) && i < len(bl); i++ {
		if al[i] != bl[i] {
			return fmt.Sprintf("line %d: %q vs %q", i+1, strings.TrimSpace(al[i]), strings.TrimSpace(bl[i]))
		}
	}
	return fmt.Sprintf("lengths %d vs %d lines", len(al), len(bl))
}

// diffMarkers names the comment sites on the first line that differs (or "no-comment").
func diffMarkers(a, b string) string {
	al, bl := strings.Split(a, "\n"), strings.Split(b, "\n")
	for i := 0; i < len(al) && i < len(bl); i++ {
		if al[i] != bl[i] {
			var ms []string
			for _, f := range strings.Fields(al[i] + " " + bl[i]) {
				if strings.HasPrefix(f, "S:") && !has(ms, strings.TrimPrefix(f, "S:")) {
					ms = append(ms, strings.TrimPrefix(f, "S:"))
				}
			}
			if len(ms) == 0 {
				return "no-comment"
			}
			sort.Strings(ms)
			return strings.Join(ms, "+")
		}
	}
	return "length"
}

func has(l []string, x string) bool {
	for _, y := range l {
		if y == x {
			return true
		}
	}
	return false
}

func format(src string) (string, *ast.FileNode, error) {
	node, err := parser.Parse(allPath, strings.NewReader(src), reporter.NewHandler(nil))
	if err != nil {
		return "", nil, err
	}
	var buf bytes.Buffer
	if err := bufformat.FormatFileNode(&buf, node); err != nil {
		return "", node, err
	}
	return buf.String(), node, nil
}

func eq(a, b []string) bool {
	if len(a) != len(b) {
		return false
	}
	for i := range a {
		if a[i] != b[i] {
			return false
		}
	}
	return true
}

func run(in []byte) (*reg.Result, error) {
	var inp input
	if err := reg.Decode(in, &inp); err != nil {
		return nil, err
	}
	ctx := context.Background()
	res := &reg.Result{}
	cases := inp.Cases
	if inp.Corrupt {
		var keep []caseRec
		for _, c := range cases {
			if len(c.Comments) == 1 {
				c.Comments[0].Owner = "message:Nowhere"
				keep = append(keep, c)
				break
			}
		}
		cases = keep
	}
	var wg sync.WaitGroup
	ch := make(chan caseRec)
	var mu sync.Mutex
	commentsChecked := 0
	for wk := 0; wk < 16; wk++ {
		wg.Add(1)
		go func() {
			defer wg.Done()
			for c := range ch {
				w := source{}
				for k, v := range inp.Base {
					w[k] = v
				}
				var parts []string
				for _, d := range c.W {
					w[d[0]] = d[1]
					parts = append(parts, d[0]+"="+d[1])
				}
				sort.Strings(parts)
				delta := strings.Join(parts, ",")
				if delta == "" {
					delta = "canonical"
				}
				src := render(w, c.ImportsWritten, c.OptionsWritten)
				info := map[string]any{"file": delta, "input": src}
				out, inNode, err := format(src)
				if inNode == nil {
					res.Violate("harness/input-does-not-parse/"+delta, info, "the rendered file does not parse: %v", err)
					continue
				}
				// a repeated import parses but does not compile: the reference is the same file with each import once
				inJSON, cerr := descriptorJSON(ctx, render(w, c.Imports, c.OptionsWritten))
				if cerr != nil {
					res.Violate("harness/input-does-not-compile/"+delta, info, "the rendered file does not compile: %v", cerr)
					continue
				}
				if err != nil {
					res.Violate("format-error/"+delta, info, "formatting a file that parses failed: %v", err)
					continue
				}
				info["output"] = out
				res.Count(1, 1)
				out2, outNode, err := format(out)
				if outNode == nil {
					res.Violate("output-does-not-parse/"+delta, info, "the formatted file does not parse: %v", err)
					continue
				}
				if err != nil {
					res.Violate("format-error-second-pass/"+delta, info, "formatting the formatted file failed: %v", err)
					continue
				}
				if out2 != out {
					info["second"] = out2
					res.Violate("not-idempotent/at="+diffMarkers(out, out2)+"/"+delta, info, "formatting the result again changes it: %s", firstDiff(out, out2))
				}
				outJSON, cerr := descriptorJSON(ctx, out)
				if cerr != nil {
					res.Violate("output-does-not-compile/"+delta, info, "the formatted file does not compile: %v", cerr)
					continue
				}
				if inJSON != outJSON {
					res.Violate("descriptors-differ/"+delta, info, "the formatted file compiles to different descriptors: %s", firstDiff(inJSON, outJSON))
				}
				// comments
				inOwners, err1 := owners(inNode)
				outOwners, err2 := owners(outNode)
				if err1 != nil || err2 != nil {
					res.Violate("harness/walk/"+delta, info, "%v %v", err1, err2)
					continue
				}
				for _, cm := range c.Comments {
					want := cm.Owner
					matches := func(got string) bool {
						if strings.HasSuffix(want, "/*") {
							return got == strings.TrimSuffix(want, "/*") || strings.HasPrefix(got, strings.TrimSuffix(want, "*"))
						}
						return got == want
					}
					got, ok := inOwners[cm.Site]
					if !ok || !matches(got) {
						res.Violate("harness/input-owner/"+cm.Site+"/"+delta, info, "site %s: the parser attaches the comment to %q (found=%v), the specification says %q", cm.Site, got, ok, want)
						continue
					}
					mu.Lock()
					commentsChecked++
					mu.Unlock()
					if !strings.Contains(out, "S:"+cm.Site) {
						res.Violate("comment-lost/"+cm.Site+"/"+cm.Style+"/"+delta, info, "the comment at site %s (%s) is not in the formatted file", cm.Site, cm.Style)
						continue
					}
					got, ok = outOwners[cm.Site]
					if !ok || !matches(got) {
						res.Violate("comment-moved/"+cm.Site+"/"+cm.Style+"/"+delta, info, "the comment at site %s belongs to %q, after formatting it is attached to %q", cm.Site, want, got)
					}
				}
				// header canonicalisation
				imports, options := headerOrder(outNode)
				if !eq(imports, c.Imports) {
					res.Violate("imports-not-canonical/"+delta, info, "imports after formatting %v, expected %v", imports, c.Imports)
				}
				if !eq(options, c.Options) {
					res.Violate("options-not-canonical/"+delta, info, "file options after formatting %v, expected %v", options, c.Options)
				}
			}
		}()
	}
	for _, c := range cases {
		ch <- c
	}
	close(ch)
	wg.Wait()
	res.SetExtra("files_formatted", res.Evaluations)
	res.SetExtra("comments_checked", commentsChecked)
	if len(cases) > 0 {
		c := cases[len(cases)/2]
		res.Sample(map[string]any{"file": c.W, "comments": c.Comments})
	}
	return res, nil
}

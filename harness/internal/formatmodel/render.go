// Package formatmodel binds specs/format/Format.tla (C07) to the real formatter.
package formatmodel

import (
	"strings"
)

type source map[string]string

const (
	kTok = iota
	kNL
	kIn
	kOut
	kSite
	kBlank
)

type part struct {
	kind int
	text string
}

// builder assembles a source file from tokens, layout hints and comment sites.
type builder struct {
	w     source
	parts []part
}

func (b *builder) T(tokens ...string) *builder {
	for _, t := range tokens {
		if t != "" {
			b.parts = append(b.parts, part{kTok, t})
		}
	}
	return b
}
func (b *builder) NL() *builder    { b.parts = append(b.parts, part{kNL, ""}); return b }
func (b *builder) Blank() *builder { b.parts = append(b.parts, part{kBlank, ""}); return b }
func (b *builder) In() *builder    { b.parts = append(b.parts, part{kIn, ""}); return b }
func (b *builder) Out() *builder   { b.parts = append(b.parts, part{kOut, ""}); return b }

// S is a comment site: nothing, a block comment or a line comment carrying the marker "S:<site>".
func (b *builder) S(site string) *builder {
	switch b.w[site] {
	case "block":
		b.parts = append(b.parts, part{kSite, "/* S:" + site + " */"})
	case "line":
		b.parts = append(b.parts, part{kSite, "// S:" + site})
	}
	return b
}

// SLead is a site on its own line(s) before a declaration.
func (b *builder) SLead(site string) *builder {
	if b.w[site] != "none" && b.w[site] != "" {
		b.S(site).NL()
	}
	return b
}

func (b *builder) String() string {
	style := b.w["whitespace"]
	indentUnit, tokSep, nl := "  ", " ", "\n"
	switch style {
	case "compact":
		indentUnit = ""
	case "airy":
		indentUnit, tokSep, nl = "      ", "   ", "\n\n"
	case "tabs":
		indentUnit, tokSep = "\t", "\t"
	}
	var sb strings.Builder
	depth := 0
	atLineStart := true
	write := func(s string) {
		if atLineStart {
			sb.WriteString(strings.Repeat(indentUnit, depth))
			atLineStart = false
		} else {
			sb.WriteString(tokSep)
		}
		sb.WriteString(s)
	}
	newline := func(n string) {
		if !atLineStart {
			sb.WriteString(n)
			atLineStart = true
		}
	}
	for _, p := range b.parts {
		switch p.kind {
		case kTok:
			write(p.text)
		case kSite:
			write(p.text)
			if strings.HasPrefix(p.text, "//") {
				newline("\n")
			}
		case kNL:
			newline(nl)
		case kBlank:
			newline(nl)
			sb.WriteString("\n")
		case kIn:
			depth++
		case kOut:
			depth--
		}
	}
	newline("\n")
	return sb.String()
}

const optsProto = `syntax = "proto2";

package fmt.v1;

import "google/protobuf/descriptor.proto";

message Limits {
  optional int32 min = 1;
  optional int32 max = 2;
  optional Limits nested = 3;
}

message Rule {
  optional string name = 1;
  optional Limits limits = 2;
  repeated string tags = 3;
  repeated Limits rules = 4;
  repeated double weights = 5;
}

extend google.protobuf.FileOptions {
  repeated string file_tags = 50001;
  optional Rule file_rule = 50002;
}

extend google.protobuf.FieldOptions {
  optional Rule field_rule = 50003;
  optional double f_double = 50006;
  optional int64 f_int = 50007;
  optional string f_string = 50008;
}

extend google.protobuf.EnumValueOptions {
  optional string value_note = 50004;
}

extend google.protobuf.MessageOptions {
  optional Rule msg_rule = 50005;
  optional string msg_note = 50009;
}

extend google.protobuf.ExtensionRangeOptions {
  optional string range_note = 50010;
}
`

var stdOptionValues = map[string]string{
	"cc_enable_arenas": "true", "csharp_namespace": `"Fmt.V1"`, "go_package": `"fmt/v1;fmtv1"`, "java_multiple_files": "true",
	"java_outer_classname": `"AllProto"`, "java_package": `"com.fmt.v1"`, "objc_class_prefix": `"FMT"`, "optimize_for": "SPEED",
	"php_namespace": `"FmtV1"`, "ruby_package": `"Fmt::V1"`, "swift_prefix": `"Fmt"`,
}

// render writes fmt/v1/all.proto for the valuation; importsWritten / optionsWritten come from the specification.
func render(w source, importsWritten, optionsWritten []string) string {
	b := &builder{w: w}
	syntax := w["syntax"]
	proto2 := syntax == "proto2"
	label := func(l string) string {
		if proto2 {
			return l
		}
		return ""
	}
	open := func(style string) string {
		if style == "angles" {
			return "<"
		}
		return "{"
	}
	closeB := func(style string) string {
		if style == "angles" {
			return ">"
		}
		return "}"
	}
	sep := func(style string) string {
		switch style {
		case "comma":
			return ","
		case "semicolon":
			return ";"
		}
		return ""
	}

	// ---------------------------------------------------------------- header
	b.SLead("file_head")
	switch syntax {
	case "editions":
		b.T("edition", "=", `"2023"`, ";")
	default:
		b.T("syntax", "=", `"`+syntax+`"`, ";")
	}
	b.S("syntax_trail").NL().Blank()
	b.SLead("pkg_lead").T("package", "fmt.v1", ";").S("pkg_trail").NL().Blank()
	seenOpts := false
	for _, imp := range importsWritten {
		first := imp == "fmt/v1/opts.proto" && !seenOpts
		if first {
			seenOpts = true
			b.SLead("import_lead")
		}
		if imp == "google/protobuf/duration.proto" && w["import_modifier"] != "" && w["import_modifier"] != "plain" {
			b.T("import", w["import_modifier"], `"`+imp+`"`, ";")
		} else {
			b.T("import", `"`+imp+`"`, ";")
		}
		if first {
			b.S("import_trail")
		}
		b.NL()
	}
	b.Blank()
	tagsSeen := 0
	javaSeen := false
	for _, o := range optionsWritten {
		switch {
		case strings.HasPrefix(o, "(fmt.v1.file_tags)#"):
			tagsSeen++
			if tagsSeen == 1 {
				b.SLead("tags1_lead")
			}
			b.T("option", "(fmt.v1.file_tags)", "=", `"`+strings.TrimPrefix(o, "(fmt.v1.file_tags)#")+`"`, ";")
			if tagsSeen == 2 {
				b.S("tags2_trail")
			}
			b.NL()
		case o == "(fmt.v1.file_rule)":
			b.SLead("lit_lead")
			b.T("option", "(fmt.v1.file_rule)", "=", "{").NL().In()
			b.S("lit_first_field").T("name", ":").S("lit_after_colon").T(`"r"` + sep(w["lit_sep"])).S("lit_after_sep").NL()
			limitsName := "limits:"
			if w["lit_colon"] == "without" {
				limitsName = "limits"
			}
			nb := w["lit_nested_brackets"]
			b.T(limitsName, open(nb)).S("lit_nested_open").NL().In()
			switch w["lit_nested_size"] {
			case "one":
				b.T("min", ":", "1"+sep(w["lit_nested_sep"])).NL()
			case "two":
				b.T("min", ":", "1"+sep(w["lit_nested_sep"])).S("lit_nested_after_sep").NL()
				b.T("max", ":", "2"+sep(w["lit_nested_sep"])).NL()
			case "deep":
				b.T("min", ":", "1"+sep(w["lit_nested_sep"])).S("lit_nested_after_sep").NL()
				b.T("nested", open(nb), "min", ":", "3", closeB(nb)+sep(w["lit_nested_sep"])).NL()
			}
			b.Out().T(closeB(nb) + sep(w["lit_sep"])).S("lit_nested_close_after_sep").NL()
			switch w["lit_array"] {
			case "strings":
				b.T("tags", ":", "[").S("lit_array_elem").T(`"x"`, ",").S("lit_array_after_comma").T(`"y"`).S("lit_array_close").T("]").NL()
			case "one":
				b.T("tags", ":", "[").S("lit_array_elem").T(`"x"`).S("lit_array_close").T("]").NL()
			case "empty":
				b.T("tags", ":", "[", "]").NL()
			case "messages":
				b.T("rules", ":", "[").S("lit_array_elem").T("{").S("lit_array_elem_open").T("min", ":", "1", "}", ",").S("lit_array_after_comma").T("{", "min", ":", "2", "}").S("lit_array_close").T("]").NL()
			case "floats":
				// signed floats, the last one negative
				b.T("weights", ":", "[").S("lit_array_elem").T("1.5", ",").S("lit_array_after_comma").T("-0.25", ",", "-2.5").S("lit_array_close").T("]").NL()
			case "angle_messages":
				b.T("rules", ":", "[").S("lit_array_elem").T("<", "min", ":", "1", ">", ",").S("lit_array_after_comma").T("<", "min", ":", "2", ">").S("lit_array_close").T("]").NL()
			}
			b.Out().S("lit_close").T("}", ";").NL()
		default:
			if o == "java_package" && !javaSeen {
				javaSeen = true
				b.SLead("opt_lead")
				b.T("option", o, "=", stdOptionValues[o], ";").S("opt_trail").NL()
			} else if o == "go_package" {
				b.T("option").S("fileopt_after_keyword").T(o, "=", stdOptionValues[o], ";").NL()
			} else {
				b.T("option", o, "=", stdOptionValues[o], ";").NL()
			}
		}
	}
	b.Blank()

	// ---------------------------------------------------------------- message M
	b.SLead("msg_lead").T("message", "M", "{").S("msg_open_trail").NL().In()
	switch w["msg_option"] {
	case "simple":
		b.T("option").S("msgopt_after_keyword").T("(fmt.v1.msg_note)", "=", `"note"`, ";").NL()
	case "literal":
		b.T("option", "(fmt.v1.msg_rule)", "=", "{", "name", ":", `"m"`, "}", ";").NL()
	}
	// field name
	b.SLead("field_lead")
	if proto2 {
		b.T("optional").S("after_label")
	}
	b.T("string").S("after_type").T("name").S("after_name").T("=").S("after_eq").T("1")
	switch w["field_opts"] {
	case "two":
		b.S("before_opts").T("[").S("in_opts_lead").T("deprecated", "=", "true").S("after_optval").T(",").S("after_comma").T("json_name", "=", `"n"`).S("before_close_bracket").T("]")
	case "one":
		b.S("before_opts").T("[").S("in_opts_lead").T("deprecated", "=", "true").S("after_optval").S("before_close_bracket").T("]")
	case "literal":
		b.S("before_opts").T("[").S("in_opts_lead").T("(fmt.v1.field_rule)", "=", "{", "name", ":", `"f"`, "limits", "{", "min", ":", "1", "}", "}").S("after_optval").S("before_close_bracket").T("]")
	}
	b.T(";").S("field_trail").NL()
	// a field whose type is written with a leading dot
	inner := "Inner"
	switch w["dot_field"] {
	case "labeled":
		b.T("repeated", ".fmt.v1.M.Inner", "dotted", "=", "13", ";").NL()
	case "plain":
		if proto2 {
			b.T("repeated", ".fmt.v1.M.Inner", "dotted", "=", "13", ";").NL()
		} else {
			b.T(".fmt.v1.M.Inner", "dotted", "=", "13", ";").NL()
		}
	case "in_oneof":
		inner = ".fmt.v1.M.Inner"
	}
	b.SLead("oneof_lead").T("oneof", "choice", "{").NL().In()
	b.SLead("oneof_member_lead").T(inner, "inner_choice", "=", "5", ";").NL()
	b.T("string", "other_choice", "=", "6", ";").NL()
	b.Out().SLead("oneof_close_lead").T("}").NL()
	b.SLead("map_lead").T("map", "<", "string", ",").S("map_after_comma").T("int32", ">", "counts", "=", "7", ";").NL()
	b.T(label("optional"), "double", "ratio", "=", "9", "[", "(fmt.v1.f_double)", "=", w["float_form"], "]", ";").NL()
	b.T(label("optional"), "int64", "hex", "=", "10", "[", "(fmt.v1.f_int)", "=", w["int_form"], "]", ";").NL()
	str := `"abc"`
	switch w["string_form"] {
	case "escapes":
		str = `"a\"b\\c\n\t'"`
	case "concat":
		str = `"abc" "def"`
	case "single_quoted":
		str = `'it"s'`
	case "hex_escapes":
		str = `"\x41\102\a"`
	case "unicode":
		str = `"héllo ü"`
	}
	b.T(label("optional"), "string", "text", "=", "11", "[", "(fmt.v1.f_string)", "=", str, "]", ";").NL()
	if proto2 && w["group_field"] == "yes" {
		b.T("optional", "group", "Grp", "=", "12", "{").NL().In().T("optional", "int32", "g", "=", "1", ";").NL().Out().T("}").NL()
	}
	b.T(label("optional"), "google.protobuf.Any", "any_value", "=", "14", ";").NL()
	b.T(label("optional"), "google.protobuf.Duration", "wait", "=", "15", ";").NL()
	if syntax != "proto3" {
		b.SLead("ext_range_lead")
		if w["ext_range_opts"] == "yes" {
			b.T("extensions", "100", "to", "199", "[", "(fmt.v1.range_note)", "=", `"r"`, "]", ";").NL()
		} else {
			b.T("extensions", "100", "to", "199", ";").NL()
		}
	}
	names := []string{`"old"`, `"older"`}
	if syntax == "editions" {
		names = []string{"old", "older"}
	}
	b.SLead("reserved_lead")
	switch w["reserved_form"] {
	case "mixed":
		b.T("reserved", "50", ",").S("reserved_after_comma").T("60", "to", "70", ",", "2000", "to", "max", ";").NL()
		b.T("reserved", names[0], ",", names[1], ";").NL()
	case "single":
		b.T("reserved", "50", ";").NL()
	case "max":
		b.T("reserved", "1000", "to", "max", ";").NL()
	case "names_only":
		b.T("reserved", names[0], ",").S("reserved_after_comma").T(names[1], ";").NL()
	}
	if w["empty_stmt"] == "in_message" {
		b.SLead("empty_lead").T(";").NL()
	}
	b.SLead("inner_lead").T("message", "Inner", "{").NL().In().T(label("optional"), "int32", "v", "=", "1", ";").S("inner_field_trail").NL().Out().T("}").NL()
	b.SLead("enum_lead").T("enum", "E", "{").NL().In()
	b.T("option").S("enumopt_after_keyword").T("allow_alias", "=", "true", ";").NL()
	b.SLead("enumval_lead").T("E_ZERO", "=", "0", "[").S("enumval_opts").T("(fmt.v1.value_note)", "=", `"z"`, "]", ";").NL()
	b.T("E_NULL", "=", "0", ";").NL()
	if w["empty_stmt"] == "in_enum" {
		b.T(";").NL()
	}
	b.T("E_ONE", "=", "1", ";").S("enumval_trail").NL()
	b.Out().T("}").NL()
	b.Out().SLead("msg_close_lead").T("}").S("msg_close_trail").NL()
	if w["empty_stmt"] == "top_level" {
		b.T(";").NL()
	}
	b.Blank()
	if strings.HasPrefix(w["dot_field"], "shadowed") {
		// inside Shadow the relative name fmt.v1.M.Inner means Shadow.fmt.v1.M.Inner: only the leading dot reaches the real one
		b.T("message", "Shadow", "{").NL().In()
		b.T("message", "fmt", "{", "message", "v1", "{", "message", "M", "{", "message", "Inner", "{", "}", "}", "}", "}").NL()
		if w["dot_field"] == "shadowed_in_oneof" || proto2 {
			b.T("oneof", "pick", "{").NL().In().T(".fmt.v1.M.Inner", "real", "=", "1", ";").NL().Out().T("}").NL()
		} else {
			b.T(".fmt.v1.M.Inner", "real", "=", "1", ";").NL()
		}
		b.Out().T("}").NL().Blank()
	}
	// ---------------------------------------------------------------- extend
	b.SLead("extend_lead").T("extend", "google.protobuf.MessageOptions", "{").NL().In()
	b.SLead("extend_field_lead").T(label("optional"), "string", "ext_field", "=", "50100", ";").NL()
	b.Out().T("}").NL().Blank()
	// ---------------------------------------------------------------- service
	b.SLead("svc_lead").T("service", "S", "{").NL().In()
	b.SLead("rpc_lead").T("rpc", "Do", "(").S("rpc_in_req").T("M", ")").S("rpc_before_returns").T("returns", "(", "stream", "M", ")")
	switch w["rpc_style"] {
	case "body":
		b.T("{").NL().In().SLead("rpc_body").T("option").S("rpcopt_after_keyword").T("idempotency_level", "=", "IDEMPOTENT", ";").NL().Out().SLead("rpc_close_lead").T("}").NL()
	case "empty_body":
		b.T("{", "}").NL()
	case "semicolon":
		b.T(";").NL()
	}
	if w["empty_stmt"] == "in_service" {
		b.T(";").NL()
	}
	b.T("rpc", "Plain", "(", "M", ")", "returns", "(", "M", ")", ";").S("rpc_plain_trail").NL()
	b.Out().T("}").NL()
	if w["eof"] != "none" && w["eof"] != "" {
		b.Blank().S("eof").NL()
	}
	return b.String()
}

package formatmodel

// End-to-end stage of C07 (the observation points `buf format`, `buf format -w`, `buf format -d --exit-code`): a
// sample of the files of Format.tla on disk, next to a file that is already formatted; the output of `buf format`
// on standard output, the file rewritten by -w and the library result must be the same text; -d --exit-code on the
// rewritten tree reports nothing; the already formatted file is untouched.

import (
	"bytes"
	"fmt"
	"os"
	"os/exec"
	"path/filepath"
	"sort"
	"strings"
	"sync"

	"github.com/bufbuild/verifharness/internal/reg"
)

func init() { reg.Register("format-cli", runCLI) }

type cliInput struct {
	Buf     string            `json:"buf"`
	Base    map[string]string `json:"base"`
	Cases   []caseRec         `json:"cases"`
	Corrupt bool              `json:"corrupt"`
}

func runCLI(in []byte) (*reg.Result, error) {
	var inp cliInput
	if err := reg.Decode(in, &inp); err != nil {
		return nil, err
	}
	res := &reg.Result{}
	work := filepath.Join(reg.WorkDir(), "format-cli")
	defer os.RemoveAll(work)
	var wg sync.WaitGroup
	ch := make(chan caseRec)
	shorter := 0
	var mu sync.Mutex
	for wk := 0; wk < 16; wk++ {
		wg.Add(1)
		go func(wk int) {
			defer wg.Done()
			root := filepath.Join(work, fmt.Sprintf("w%d", wk))
			for c := range ch {
				w := source{}
				for k, v := range inp.Base {
					w[k] = v
				}
				var parts []string
				for _, d := range c.W {
					w[d[0]] = d[1]
					parts = append(parts, d[0]+"="+d[1])
				}
				sort.Strings(parts)
				delta := strings.Join(parts, ",")
				src := render(w, c.ImportsWritten, c.OptionsWritten)
				want, inNode, err := format(src)
				if inNode == nil || err != nil {
					continue // judged by the library stage
				}
				if inp.Corrupt {
					want += "// not there\n"
				}
				_ = os.RemoveAll(root)
				write := func(rel, content string) {
					p := filepath.Join(root, filepath.FromSlash(rel))
					_ = os.MkdirAll(filepath.Dir(p), 0o755)
					_ = os.WriteFile(p, []byte(content), 0o644)
				}
				write(allPath, src)
				write("fmt/v1/opts.proto", optsProto)
				optsFormatted, _, _ := format(optsProto)
				write("fmt/v1/clean.proto", optsFormattedClean)
				write("buf.yaml", "version: v2\n")
				_ = optsFormatted
				runBuf := func(args ...string) (string, string, int) {
					cmd := exec.Command(inp.Buf, args...)
					cmd.Dir = root
					cmd.Env = append(os.Environ(), "HOME="+root, "BUF_CACHE_DIR="+filepath.Join(root, ".cache"), "NO_COLOR=1")
					var stdout, stderr bytes.Buffer
					cmd.Stdout, cmd.Stderr = &stdout, &stderr
					err := cmd.Run()
					code := 0
					if ee, ok := err.(*exec.ExitError); ok {
						code = ee.ExitCode()
					} else if err != nil {
						code = -1
					}
					return stdout.String(), stderr.String(), code
				}
				info := map[string]any{"file": delta, "input": src, "expected": want}
				res.Count(1, 1)
				if len(want) < len(src) {
					mu.Lock()
					shorter++
					mu.Unlock()
				}
				// 1. buf format <file> prints the formatted text
				stdout, stderr, code := runBuf("format", allPath)
				if code != 0 || stdout != want {
					res.Violate("cli/stdout-differs/"+delta, info, "buf format %s (exit %d) printed a text that differs from the library result: %s%s", allPath, code, firstDiff(stdout, want), stderr)
				}
				// 2. buf format -w rewrites the file to exactly that text and leaves formatted files alone
				if _, stderr, code := runBuf("format", "-w"); code != 0 {
					res.Violate("cli/write-failed/"+delta, info, "buf format -w failed (exit %d): %s", code, stderr)
					continue
				}
				got, _ := os.ReadFile(filepath.Join(root, filepath.FromSlash(allPath)))
				if string(got) != want {
					info["rewritten"] = string(got)
					res.Violate("cli/rewritten-file-differs/"+delta, info, "after buf format -w the file (%d bytes) is not the formatted text (%d bytes; the source had %d): %s", len(got), len(want), len(src), firstDiff(string(got), want))
				}
				if clean, _ := os.ReadFile(filepath.Join(root, "fmt/v1/clean.proto")); string(clean) != optsFormattedClean {
					res.Violate("cli/formatted-file-touched/"+delta, info, "buf format -w changed a file that was already formatted")
				}
				// 3. nothing left to do (where the formatter itself is not idempotent on this file, that is the finding of the
				// library stage, with its own signature: not judged again here)
				again, _, aerr := format(want)
				if aerr != nil || again != want {
					continue
				}
				if stdout, stderr, code := runBuf("format", "-d", "--exit-code"); code != 0 || stdout != "" {
					if string(got) == want {
						res.Violate("cli/not-clean-after-write/"+delta, info, "buf format -d --exit-code after -w: exit %d, output %q %s", code, stdout, stderr)
					}
				}
			}
		}(wk)
	}
	for _, c := range inp.Cases {
		ch <- c
	}
	close(ch)
	wg.Wait()
	res.SetExtra("files_whose_formatted_text_is_shorter_than_the_source", shorter)
	return res, nil
}

// a file that is its own formatted text
const optsFormattedClean = `syntax = "proto3";

package fmt.v1;

message Clean {
  string id = 1;
}
`

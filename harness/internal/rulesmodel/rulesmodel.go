// Package rulesmodel binds specs/check/RulesConfig.tla (C06) to bufcheck.Client.
//
// "rules-dump": the rule and category tables of every config version, read from the code under test
// (they become the generated module RuleTables.tla).
// "rules-replay": for every emitted configuration the real client is run on fixed images with planted
// violations; the result must equal the union over the selected rules of what each rule reports alone
// (measured), minus exactly the annotations the specification says are suppressed.
package rulesmodel

import (
	"context"
	"fmt"
	"sort"
	"strings"
	"sync"

	"buf.build/go/bufplugin/check"
	"github.com/bufbuild/buf/private/bufpkg/bufcheck"
	"github.com/bufbuild/buf/private/bufpkg/bufconfig"
	"github.com/bufbuild/buf/private/bufpkg/bufimage"
	"github.com/bufbuild/buf/private/bufpkg/bufmodule"
	"github.com/bufbuild/verifharness/internal/bufx"
	"github.com/bufbuild/verifharness/internal/reg"
)

func init() {
	reg.Register("rules-dump", runDump)
	reg.Register("rules-replay", runReplay)
}

var versions = map[string]bufconfig.FileVersion{"v1beta1": bufconfig.FileVersionV1Beta1, "v1": bufconfig.FileVersionV1, "v2": bufconfig.FileVersionV2}
var ruleTypes = map[string]check.RuleType{"lint": check.RuleTypeLint, "breaking": check.RuleTypeBreaking}

type ruleRec struct {
	ID         string   `json:"id"`
	Categories []string `json:"categories"`
	Default    bool     `json:"default"`
	Deprecated bool     `json:"deprecated"`
	Repl       []string `json:"repl"`
}

func runDump(_ []byte) (*reg.Result, error) {
	ctx := context.Background()
	client, err := bufx.CheckClient(ctx)
	if err != nil {
		return nil, err
	}
	res := &reg.Result{}
	tables := map[string]any{}
	for vn, v := range versions {
		cats, err := client.AllCategories(ctx, v)
		if err != nil {
			return nil, err
		}
		var catRecs []ruleRec
		for _, c := range cats {
			catRecs = append(catRecs, ruleRec{ID: c.ID(), Deprecated: c.Deprecated(), Repl: c.ReplacementIDs()})
		}
		tables["categories-"+vn] = catRecs
		for tn, t := range ruleTypes {
			rules, err := client.AllRules(ctx, t, v)
			if err != nil {
				return nil, err
			}
			var recs []ruleRec
			for _, r := range rules {
				var cs []string
				for _, c := range r.Categories() {
					cs = append(cs, c.ID())
				}
				sort.Strings(cs)
				recs = append(recs, ruleRec{ID: r.ID(), Categories: cs, Default: r.Default(), Deprecated: r.Deprecated(), Repl: r.ReplacementIDs()})
			}
			tables[tn+"-"+vn] = recs
		}
	}
	res.SetExtra("tables", tables)
	res.Count(1, 1)
	return res, nil
}

// ---------------------------------------------------------------- images

var fileIDs = map[string]string{"dira/x.proto": "x", "dira/sub/y.proto": "y", "dirb/z.proto": "z", "imp/i.proto": "imp", "imp/j.proto": "imp2", "dira/s1.proto": "s1", "dirb/s2.proto": "s2"}

func lintSource(pkg, suffix string, imports string) string {
	return `syntax = "proto3";
package ` + pkg + `;
` + imports + `
message bad_name` + suffix + ` {
  string BadField = 1;
}
enum Color` + suffix + ` {
  ZERO` + suffix + ` = 0;
}
service Svc` + suffix + ` {
  rpc Get(bad_name` + suffix + `) returns (bad_name` + suffix + `);
}
// buf:lint:ignore FIELD_LOWER_SNAKE_CASE
// buf:lint:ignore COMMENT_FIELD
message Commented` + suffix + ` {
  string AlsoBad = 1;
}
`
}

func commentedRange(src string) (int, int) {
	lines := strings.Split(src, "\n")
	start, end := 0, 0
	for i, l := range lines {
		if strings.HasPrefix(l, "message Commented") {
			start = i + 1
		}
		if start > 0 && end == 0 && l == "}" && i+1 > start {
			end = i + 1
		}
	}
	return start, end
}

func lintFiles() map[string]string {
	// s1 / s2: one package, two go_package values, each option statement under an ignore comment
	goPkg := func(v string) string {
		return "// buf:lint:ignore PACKAGE_SAME_GO_PACKAGE\noption go_package = \"example.com/" + v + "\";"
	}
	return map[string]string{
		"dira/x.proto":     lintSource("dira", "X", "import \"imp/i.proto\";\nimport \"imp/j.proto\";\noption java_package = \"com.dira\";"),
		"dira/sub/y.proto": lintSource("dira.sub", "Y", ""),
		"dirb/z.proto":     lintSource("dirb", "Z", ""),
		"imp/i.proto":      lintSource("imp", "I", ""),
		// only an import, but it declares the package of x, elsewhere and with another java_package
		"imp/j.proto":   lintSource("dira", "J", "option java_package = \"com.other\";"),
		"dira/s1.proto": lintSource("shared", "S1", goPkg("s1")),
		"dirb/s2.proto": lintSource("shared", "S2", goPkg("s2")),
	}
}

func breakingSource(pkg, suffix, imports string, version int) string {
	s := "syntax = \"proto3\";\npackage " + pkg + ";\n" + imports + "\nmessage M" + suffix + " {\n"
	if version == 1 {
		s += "  string a = 1;\n  int32 b = 2;\n  string c = 3;\n  string d = 4;\n"
	} else {
		s += "  string a = 1;\n  int64 b = 2;\n  repeated string d = 4;\n" // c deleted, b retyped, d changed cardinality
	}
	s += "}\n"
	if version == 1 {
		s += "enum E" + suffix + " {\n  E" + suffix + "_UNSPECIFIED = 0;\n  E" + suffix + "_ONE = 1;\n}\n"
	} else {
		s += "enum E" + suffix + " {\n  E" + suffix + "_UNSPECIFIED = 0;\n}\n"
	}
	return s
}

func breakingFiles(version int) map[string]string {
	return map[string]string{
		"dira/x.proto":     breakingSource("dira", "X", "import \"imp/i.proto\";", version),
		"dira/sub/y.proto": breakingSource("dira.sub", "Y", "", version),
		"dirb/z.proto":     breakingSource("dirb", "Z", "", version),
		"imp/i.proto":      breakingSource("imp", "I", "", version),
		"dira/s1.proto":    sharedSource("S1", version == 2, version),
		"dirb/s2.proto":    sharedSource("S2", version == 1, version),
	}
}

// sharedSource: two files of package "shared"; the message Moved lives in s2 in the previous version
// and in s1 (with a retyped field) in the current one.
func sharedSource(suffix string, withMoved bool, version int) string {
	s := "syntax = \"proto3\";\npackage shared;\nmessage Keep" + suffix + " {\n  string k = 1;\n}\n"
	if withMoved {
		if version == 1 {
			s += "message Moved {\n  string a = 1;\n  int32 b = 2;\n}\n"
		} else {
			s += "message Moved {\n  string a = 1;\n  int64 b = 2;\n}\n"
		}
	}
	return s
}

// buildImage: x, y, z are targets, imp/i.proto is only an import.
func buildImage(ctx context.Context, files map[string]string) (bufimage.Image, error) {
	b, err := bufx.Bucket(files)
	if err != nil {
		return nil, err
	}
	builder := bufmodule.NewModuleSetBuilder(ctx, bufx.Logger, bufmodule.NopModuleDataProvider, bufmodule.NopCommitProvider)
	builder.AddLocalModule(b, "m", true, bufmodule.LocalModuleWithTargetPaths([]string{"dira", "dirb"}, nil))
	ms, err := builder.Build()
	if err != nil {
		return nil, err
	}
	return bufx.BuildImageForModuleSet(ctx, ms)
}

// ---------------------------------------------------------------- replay

type caseRec struct {
	Kind           string              `json:"kind"` // lint-v1, breaking-v2, ...
	Use            []string            `json:"use"`
	Except         []string            `json:"except"`
	Ignore         []string            `json:"ignore"`
	IgnoreOnly     map[string][]string `json:"ignoreOnly"`
	AllowComments  bool                `json:"allowComments"`
	ExcludeImports bool                `json:"excludeImports"`
	Error          bool                `json:"error"`
	Selected       []string            `json:"selected"`
	// Expected: the (rule, file, commented) triples that must be reported
	Expected []struct {
		Rule      string `json:"rule"`
		File      string `json:"file"`
		Commented bool   `json:"commented"`
		Against   string `json:"against"`
	} `json:"expected"`
}

type input struct {
	Cases   []caseRec `json:"cases"`
	Corrupt bool      `json:"corrupt"`
}

type world struct {
	lintImage       bufimage.Image
	cur, prev       bufimage.Image
	commentedRanges map[string][2]int
	// commentedOptionLine: the line of an option statement that sits under an ignore comment (0 = none)
	commentedOptionLine map[string]int
}

func annKey(a bufx.Annotation) string {
	return fmt.Sprintf("%s:%d:%d:%s:%s", a.Path, a.StartLine, a.StartCol, a.Type, a.Message)
}

func (w *world) triple(kind string, a bufx.Annotation) string {
	commented := false
	if strings.HasPrefix(kind, "lint") {
		if r, ok := w.commentedRanges[a.Path]; ok && a.StartLine >= r[0] && a.StartLine <= r[1] {
			commented = true
		}
		if l := w.commentedOptionLine[a.Path]; l != 0 && a.StartLine == l {
			commented = true
		}
	}
	against := fileIDs[a.Path]
	if !strings.HasPrefix(kind, "lint") && a.Path == "dira/s1.proto" && strings.Contains(a.Message, "Moved") {
		against = "s2" // the previous version of the moved message lives in dirb/s2.proto
	}
	return fmt.Sprintf("%s|%s|%v|%s", a.Type, fileIDs[a.Path], commented, against)
}

func (w *world) runCheck(ctx context.Context, client bufcheck.Client, c caseRec) ([]bufx.Annotation, error, bool) {
	parts := strings.SplitN(c.Kind, "-", 2)
	v := versions[parts[1]]
	cc, err := bufconfig.NewEnabledCheckConfig(v, c.Use, c.Except, c.Ignore, c.IgnoreOnly, false)
	if err != nil {
		return nil, err, true
	}
	var cerr error
	if parts[0] == "lint" {
		cerr = client.Lint(ctx, bufconfig.NewLintConfig(cc, "", false, false, false, "", c.AllowComments), w.lintImage)
	} else {
		var opts []bufcheck.BreakingOption
		if c.ExcludeImports {
			opts = append(opts, bufcheck.BreakingWithExcludeImports())
		}
		cerr = client.Breaking(ctx, bufconfig.NewBreakingConfig(cc, false), w.cur, w.prev, opts...)
	}
	as, ok := bufx.Annotations(cerr)
	if !ok {
		return nil, cerr, true
	}
	return as, nil, false
}

// runCheckViaReader runs the case with the configuration the real reader derives for the second module of a
// two-module v2 buf.yaml whose top-level section carries the case's settings (paths prefixed with the module directory).
//
// placement "module": the section is the own section of the second module instead (a section that consists of a single
// key, such as disallow_comment_ignores, is still a section).
func (w *world) runCheckViaReader(ctx context.Context, client bufcheck.Client, c caseRec, placement string) ([]bufx.Annotation, error) {
	parts := strings.SplitN(c.Kind, "-", 2)
	var sb strings.Builder
	// the linted module is listed (and sorted) after another one
	in := ""
	if placement == "module" {
		in = "    "
		sb.WriteString("version: v2\nmodules:\n  - path: a_other\n  - path: m\n" + in + parts[0] + ":\n")
	} else {
		sb.WriteString("version: v2\nmodules:\n  - path: a_other\n  - path: m\n" + parts[0] + ":\n")
	}
	list := func(key string, xs []string, prefix string) {
		if len(xs) == 0 {
			return
		}
		sb.WriteString(in + "  " + key + ":\n")
		for _, x := range xs {
			sb.WriteString(in + "    - " + prefix + x + "\n")
		}
	}
	list("use", c.Use, "")
	list("except", c.Except, "")
	list("ignore", c.Ignore, "m/")
	if len(c.IgnoreOnly) > 0 {
		sb.WriteString(in + "  ignore_only:\n")
		for _, k := range bufx.SortedKeys(c.IgnoreOnly) {
			sb.WriteString(in + "    " + k + ":\n")
			for _, x := range c.IgnoreOnly[k] {
				sb.WriteString(in + "      - m/" + x + "\n")
			}
		}
	}
	if parts[0] == "lint" && !c.AllowComments {
		sb.WriteString(in + "  disallow_comment_ignores: true\n")
	}
	if strings.HasSuffix(sb.String(), parts[0]+":\n") {
		// nothing to say: an empty section
		return w.runCheckViaReaderText(ctx, client, c, strings.TrimSuffix(sb.String(), in+parts[0]+":\n"))
	}
	return w.runCheckViaReaderText(ctx, client, c, sb.String())
}

func (w *world) runCheckViaReaderText(ctx context.Context, client bufcheck.Client, c caseRec, text string) ([]bufx.Annotation, error) {
	parts := strings.SplitN(c.Kind, "-", 2)
	var sb strings.Builder
	sb.WriteString(text)
	f, err := bufconfig.ReadBufYAMLFile(strings.NewReader(sb.String()), "buf.yaml")
	if err != nil {
		return nil, err
	}
	if len(f.ModuleConfigs()) != 2 {
		return nil, fmt.Errorf("%d module configs", len(f.ModuleConfigs()))
	}
	var mc bufconfig.ModuleConfig
	for _, x := range f.ModuleConfigs() {
		if x.DirPath() == "m" {
			mc = x
		}
	}
	if mc == nil {
		return nil, fmt.Errorf("no module config for directory m")
	}
	var cerr error
	if parts[0] == "lint" {
		cerr = client.Lint(ctx, mc.LintConfig(), w.lintImage)
	} else {
		var opts []bufcheck.BreakingOption
		if c.ExcludeImports {
			opts = append(opts, bufcheck.BreakingWithExcludeImports())
		}
		cerr = client.Breaking(ctx, mc.BreakingConfig(), w.cur, w.prev, opts...)
	}
	as, ok := bufx.Annotations(cerr)
	if !ok {
		return nil, cerr
	}
	return as, nil
}

func runReplay(in []byte) (*reg.Result, error) {
	var inp input
	if err := reg.Decode(in, &inp); err != nil {
		return nil, err
	}
	ctx := context.Background()
	client, err := bufx.CheckClient(ctx)
	if err != nil {
		return nil, err
	}
	w := &world{commentedRanges: map[string][2]int{}, commentedOptionLine: map[string]int{}}
	lf := lintFiles()
	for p, src := range lf {
		s, e := commentedRange(src)
		w.commentedRanges[p] = [2]int{s - 3, e} // the ignore comments sit on the two lines above
		for i, l := range strings.Split(src, "\n") {
			if strings.HasPrefix(l, "option go_package") {
				w.commentedOptionLine[p] = i + 1
			}
		}
	}
	if w.lintImage, err = buildImage(ctx, lf); err != nil {
		return nil, err
	}
	if w.prev, err = buildImage(ctx, breakingFiles(1)); err != nil {
		return nil, err
	}
	if w.cur, err = buildImage(ctx, breakingFiles(2)); err != nil {
		return nil, err
	}
	res := &reg.Result{}
	// Alone(kind, rule): what the rule reports on its own, without any suppression (measured)
	alone := map[string]map[string][]bufx.Annotation{}
	var amu sync.Mutex
	getAlone := func(kind, rule string) ([]bufx.Annotation, error) {
		amu.Lock()
		defer amu.Unlock()
		if alone[kind] == nil {
			alone[kind] = map[string][]bufx.Annotation{}
		}
		if a, ok := alone[kind][rule]; ok {
			return a, nil
		}
		as, err, _ := w.runCheck(ctx, client, caseRec{Kind: kind, Use: []string{rule}})
		if err != nil {
			return nil, fmt.Errorf("measuring %s alone (%s): %w", rule, kind, err)
		}
		alone[kind][rule] = as
		return as, nil
	}
	const workers = 16
	var wg sync.WaitGroup
	var emu sync.Mutex
	var firstErr error
	for wk := 0; wk < workers; wk++ {
		wg.Add(1)
		go func(wk int) {
			defer wg.Done()
			for i := wk; i < len(inp.Cases); i += workers {
				c := inp.Cases[i]
				got, cerr, isErr := w.runCheck(ctx, client, c)
				res.Count(1, 0)
				caseInfo := map[string]any{"kind": c.Kind, "use": c.Use, "except": c.Except, "ignore": c.Ignore, "ignore_only": c.IgnoreOnly,
					"allow_comment_ignores": c.AllowComments, "exclude_imports": c.ExcludeImports}
				if c.Error {
					if !isErr {
						res.Violate("unknown-id-accepted/"+c.Kind, caseInfo, "the configuration names an unknown rule or category ID but was accepted")
					}
					continue
				}
				if isErr {
					res.Violate("config-rejected/"+c.Kind, caseInfo, "a valid configuration was rejected: %v", cerr)
					continue
				}
				expTriples := map[string]bool{}
				for _, e := range c.Expected {
					expTriples[fmt.Sprintf("%s|%s|%v|%s", e.Rule, e.File, e.Commented, e.Against)] = true
				}
				want := map[string]bool{}
				for _, r := range c.Selected {
					as, err := getAlone(c.Kind, r)
					if err != nil {
						emu.Lock()
						if firstErr == nil {
							firstErr = err
						}
						emu.Unlock()
						return
					}
					for _, a := range as {
						if expTriples[w.triple(c.Kind, a)] {
							want[annKey(a)] = true
						}
					}
				}
				if inp.Corrupt {
					// negative control: forget one annotation the specification requires
					for k := range want {
						delete(want, k)
						break
					}
				}
				gotSet := map[string]bool{}
				for _, a := range got {
					gotSet[annKey(a)] = true
				}
				var missing, extra []string
				for k := range want {
					if !gotSet[k] {
						missing = append(missing, k)
					}
				}
				for k := range gotSet {
					if !want[k] {
						extra = append(extra, k)
					}
				}
				sort.Strings(missing)
				sort.Strings(extra)
				if len(missing) > 0 {
					res.Violate(fmt.Sprintf("missing/%s/%s", c.Kind, strings.Split(missing[0], ":")[3]), caseInfo, "annotations the specification requires are missing (%d): %v", len(missing), missing[:min(len(missing), 4)])
				}
				if len(extra) > 0 {
					res.Violate(fmt.Sprintf("extra/%s/%s", c.Kind, strings.Split(extra[0], ":")[3]), caseInfo, "annotations were reported that the specification says are not selected or are suppressed (%d): %v", len(extra), extra[:min(len(extra), 4)])
				}
				// the same configuration written as the shared top-level section of a two-module v2 buf.yaml and read by the
				// real reader must give the same result for the second module
				for _, placement := range []string{"top", "module"} {
					if !strings.HasSuffix(c.Kind, "-v2") {
						break
					}
					got2, rerr := w.runCheckViaReader(ctx, client, c, placement)
					if rerr != nil {
						res.Violate("reader-rejected/"+placement+"/"+c.Kind, caseInfo, "the configuration is accepted by the constructor but not as a %s-level v2 section: %v", placement, rerr)
					} else {
						set2 := map[string]bool{}
						for _, a := range got2 {
							set2[annKey(a)] = true
						}
						var diff []string
						for k := range gotSet {
							if !set2[k] {
								diff = append(diff, "only-constructor:"+k)
							}
						}
						for k := range set2 {
							if !gotSet[k] {
								diff = append(diff, "only-reader:"+k)
							}
						}
						sort.Strings(diff)
						if len(diff) > 0 {
							res.Violate("reader-differs/"+placement+"/"+c.Kind+"/"+strings.Split(diff[0], ":")[4], caseInfo, "the %s-level section of a v2 buf.yaml gives the second module a different result (%d): %v", placement, len(diff), diff[:min(len(diff), 4)])
						}
					}
				}
				// ConfiguredRules = Selected
				parts := strings.SplitN(c.Kind, "-", 2)
				cc, err := bufconfig.NewEnabledCheckConfig(versions[parts[1]], c.Use, c.Except, c.Ignore, c.IgnoreOnly, false)
				if err == nil {
					rules, err := client.ConfiguredRules(ctx, ruleTypes[parts[0]], cc)
					if err == nil {
						var ids []string
						for _, r := range rules {
							ids = append(ids, r.ID())
						}
						sort.Strings(ids)
						sel := append([]string{}, c.Selected...)
						sort.Strings(sel)
						if strings.Join(ids, ",") != strings.Join(sel, ",") {
							res.Violate("configured-rules/"+c.Kind, caseInfo, "ConfiguredRules = %v, the specification selects %v", ids, sel)
						}
					}
				}
				if i < 2 {
					res.Sample(map[string]any{"config": caseInfo, "selected": len(c.Selected), "expected_triples": len(c.Expected)})
				}
			}
		}(wk)
	}
	wg.Wait()
	if firstErr != nil {
		return nil, firstErr
	}
	res.Distinct = len(inp.Cases)
	return res, nil
}

// Package climodel replays specs/cli/Verdict.tla (C20) with the real buf binary: every scenario is
// materialised as a workspace, the command is run once per --error-format, the exit status is compared
// with the specification's class and the outputs of the formats are parsed back and compared.
package climodel

import (
	"bytes"
	"encoding/json"
	"encoding/xml"
	"fmt"
	"os"
	"os/exec"
	"path/filepath"
	"regexp"
	"sort"
	"strconv"
	"strings"
	"sync"

	"github.com/bufbuild/verifharness/internal/reg"
)

func init() { reg.Register("cli-verdict", run) }

type caseRec struct {
	Command     string   `json:"command"`
	Problems    []string `json:"problems"`
	Operational string   `json:"operational"`
	Spelling    string   `json:"spelling"`
	HostilePath bool     `json:"hostilePath"`
	Exit        string   `json:"exit"`
	Prints      bool     `json:"prints"`
	Reported    []string `json:"reported"`
}
type input struct {
	Buf     string    `json:"buf"`
	Cases   []caseRec `json:"cases"`
	Corrupt bool      `json:"corrupt"`
}

var formats = []string{"text", "json", "msvs", "junit", "github-actions"}

func has(l []string, x string) bool {
	for _, y := range l {
		if y == x {
			return true
		}
	}
	return false
}

const hostileDir = "we ird<&\"q'>é\nnl"

func write(root, rel, content string) error {
	p := filepath.Join(root, filepath.FromSlash(rel))
	if err := os.MkdirAll(filepath.Dir(p), 0o755); err != nil {
		return err
	}
	return os.WriteFile(p, []byte(content), 0o644)
}

// materialize writes the current tree under root/cur and the previous one under root/prev.
func materialize(root string, c caseRec) error {
	if err := os.RemoveAll(root); err != nil {
		return err
	}
	cfg := "version: v2\nlint:\n  use:\n    - BASIC\n    - COMMENT_FIELD\nbreaking:\n  use:\n    - FILE\n"
	if c.Operational == "bad-config" {
		cfg = "version: v9\n"
	}
	for _, side := range []string{"cur", "prev"} {
		if err := write(root, side+"/buf.yaml", cfg); err != nil {
			return err
		}
		base := "syntax = \"proto3\";\n\npackage acme.v1;\n\nmessage A {\n  // id\n  string id = 1;\n"
		if side == "prev" || !has(c.Problems, "breaking-change") {
			base += "  // gone\n  string gone = 2;\n"
		}
		base += "}\n"
		if err := write(root, side+"/acme/v1/a.proto", base); err != nil {
			return err
		}
		if err := write(root, side+"/acme/v1/b.proto", "syntax = \"proto3\";\n\npackage acme.v1;\n\nmessage B {\n  // id\n  string id = 1;\n}\n"); err != nil {
			return err
		}
	}
	if has(c.Problems, "deleted-file") {
		if err := write(root, "prev/acme/v1/deleted.proto", "syntax = \"proto3\";\n\npackage acme.v1;\n\nmessage Deleted {\n  // id\n  string id = 1;\n}\n"); err != nil {
			return err
		}
	}
	for _, side := range []string{"cur", "prev"} {
		if has(c.Problems, "compile-error") && side == "cur" {
			if err := write(root, side+"/acme/v1/bad.proto", "syntax = \"proto3\";\n\npackage acme.v1;\n\nmessage {\n"); err != nil {
				return err
			}
		}
		if has(c.Problems, "malformed-import") && side == "cur" {
			// caught by the import scanner that runs before the compiler
			if err := write(root, side+"/acme/v1/scan.proto", "syntax = \"proto3\";\n\npackage acme.v1;\n\nimport foo;\n"); err != nil {
				return err
			}
		}
		if has(c.Problems, "missing-import") && side == "cur" {
			if err := write(root, side+"/acme/v1/imp.proto", "syntax = \"proto3\";\n\npackage acme.v1;\n\nimport \"nope/missing.proto\";\n"); err != nil {
				return err
			}
		}
		if has(c.Problems, "escaping-import") && side == "cur" {
			// an import path that is not a valid path inside any module: not "not found" but still a problem of the sources
			if err := write(root, side+"/acme/v1/esc.proto", "syntax = \"proto3\";\n\npackage acme.v1;\n\nimport \"../outside.proto\";\n"); err != nil {
				return err
			}
		}
		if has(c.Problems, "lint-violation") {
			for _, n := range []string{"l1", "l2"} {
				if err := write(root, side+"/acme/v1/"+n+".proto", "syntax = \"proto3\";\n\npackage acme.v1;\n\nmessage bad_"+n+" {\n  // f\n  string BadField = 1;\n}\n"); err != nil {
					return err
				}
			}
		}
		if has(c.Problems, "many-lint-violations") {
			// 70 fields in the wrong case: the annotations of one run are several KiB in every format
			var sb strings.Builder
			sb.WriteString("syntax = \"proto3\";\n\npackage acme.v1;\n\nmessage Many {\n")
			for k := 1; k <= 70; k++ {
				sb.WriteString(fmt.Sprintf("  // f\n  string BadFieldNumber%d = %d;\n", k, k))
			}
			sb.WriteString("}\n")
			if err := write(root, side+"/acme/v1/many.proto", sb.String()); err != nil {
				return err
			}
		}
		if has(c.Problems, "multi-line-lint") {
			if err := write(root, side+"/acme/v1/ml.proto", "syntax = \"proto3\";\n\npackage acme.v1;\n\nmessage Ml {\n  // a\n  string a = 1; string no_comment = 2 [\n    deprecated = true\n  ];\n}\n"); err != nil {
				return err
			}
		}
		if has(c.Problems, "format-diff") {
			if err := write(root, side+"/acme/v1/fmt.proto", "syntax = \"proto3\";\n\npackage acme.v1;\n\nmessage   Fmt   {\n  // id\n      string id = 1;\n}\n"); err != nil {
				return err
			}
		}
		if c.HostilePath {
			// a directory with quotes, angle brackets, an ampersand, non-ASCII and a newline; the package does not match it
			extra := ""
			if side == "prev" {
				extra = "  // gone\n  string gone = 2;\n"
			}
			if err := write(root, side+"/"+hostileDir+"/h.proto", "syntax = \"proto3\";\n\npackage hostile.v1;\n\nmessage H {\n  // id\n  string id = 1;\n"+extra+"}\n"); err != nil {
				return err
			}
		}
	}
	return nil
}

type tuple struct {
	Path    string
	Line    int
	Col     int
	Type    string
	Message string
	EndLine int // 0 when the format does not carry the end of the range
	EndCol  int
}

var textRe = regexp.MustCompile(`^(.*?):(\d+):(\d+):(.*)$`)
var msvsRe = regexp.MustCompile(`^(.*?)\((\d+)(?:,(\d+))?\) : error (\S+) : (.*)$`)
var ghRe = regexp.MustCompile(`^::error file=(.*?)(?:,line=(\d+))?(?:,col=(\d+))?(?:,endLine=(\d+))?(?:,endColumn=(\d+))?::(.*)$`)

type junitSuites struct {
	Suites []struct {
		Name  string `xml:"name,attr"`
		Cases []struct {
			Name    string `xml:"name,attr"`
			Failure struct {
				Message string `xml:"message,attr"`
				Type    string `xml:"type,attr"`
			} `xml:"failure"`
		} `xml:"testcase"`
	} `xml:"testsuite"`
}

// parse returns the tuples of one format's output and whether the output is well-formed.
func parse(format, out string) ([]tuple, error) {
	var ts []tuple
	atoi := func(s string) int { n, _ := strconv.Atoi(s); return n }
	switch format {
	case "json":
		dec := json.NewDecoder(strings.NewReader(out))
		for dec.More() {
			var a struct {
				Path      string `json:"path"`
				StartLine int    `json:"start_line"`
				StartCol  int    `json:"start_column"`
				EndLine   int    `json:"end_line"`
				EndCol    int    `json:"end_column"`
				Type      string `json:"type"`
				Message   string `json:"message"`
			}
			if err := dec.Decode(&a); err != nil {
				return nil, fmt.Errorf("json output is not well-formed: %w", err)
			}
			ts = append(ts, tuple{a.Path, a.StartLine, a.StartCol, a.Type, a.Message, a.EndLine, a.EndCol})
		}
	case "junit":
		var s junitSuites
		if err := xml.Unmarshal([]byte(out), &s); err != nil {
			return nil, fmt.Errorf("junit output is not well-formed: %w", err)
		}
		for _, suite := range s.Suites {
			for _, c := range suite.Cases {
				t := tuple{Path: suite.Name, Type: c.Failure.Type}
				if m := regexp.MustCompile(`_(\d+)_(\d+)$`).FindStringSubmatch(c.Name); m != nil {
					t.Line, t.Col = atoi(m[1]), atoi(m[2])
				}
				t.Message = c.Failure.Message
				ts = append(ts, t)
			}
		}
	default:
		for _, l := range strings.Split(strings.TrimRight(out, "\n"), "\n") {
			if l == "" {
				continue
			}
			var m []string
			switch format {
			case "text":
				if m = textRe.FindStringSubmatch(l); m != nil {
					ts = append(ts, tuple{m[1], atoi(m[2]), atoi(m[3]), "", m[4], 0, 0})
				}
			case "msvs":
				if m = msvsRe.FindStringSubmatch(l); m != nil {
					ts = append(ts, tuple{m[1], atoi(m[2]), atoi(m[3]), m[4], m[5], 0, 0})
				}
			case "github-actions":
				if m = ghRe.FindStringSubmatch(l); m != nil {
					ts = append(ts, tuple{m[1], atoi(m[2]), atoi(m[3]), "", m[6], atoi(m[4]), atoi(m[5])})
				}
			}
			if m == nil {
				return nil, fmt.Errorf("%s line does not parse: %q", format, l)
			}
		}
	}
	return ts, nil
}

func exitClass(code int) string {
	switch code {
	case 0:
		return "zero"
	case 100:
		return "hundred"
	}
	return "other"
}

func run(in []byte) (*reg.Result, error) {
	var inp input
	if err := reg.Decode(in, &inp); err != nil {
		return nil, err
	}
	if inp.Corrupt {
		for i := range inp.Cases {
			if inp.Cases[i].Exit == "hundred" {
				inp.Cases[i].Exit = "zero"
				inp.Cases = inp.Cases[i : i+1]
				break
			}
		}
	}
	res := &reg.Result{}
	work := reg.WorkDir()
	const workers = 16
	var wg sync.WaitGroup
	var emu sync.Mutex
	var firstErr error
	var cmpMu sync.Mutex
	compared := map[string]int{}
	skippedHostile := 0
	for wk := 0; wk < workers; wk++ {
		wg.Add(1)
		go func(wk int) {
			defer wg.Done()
			root := filepath.Join(work, fmt.Sprintf("cli-%d", wk))
			defer os.RemoveAll(root)
			for i := wk; i < len(inp.Cases); i += workers {
				c := inp.Cases[i]
				if err := materialize(root, c); err != nil {
					emu.Lock()
					firstErr = err
					emu.Unlock()
					return
				}
				cur := filepath.Join(root, "cur")
				inputArg := "."
				switch c.Spelling {
				case "absolute":
					inputArg = cur
				case "dot-slash":
					inputArg = "./"
				case "protofile-with-package":
					inputArg = "acme/v1/a.proto#include_package_files=true"
				}
				if c.Operational == "missing-input" {
					inputArg = "does-not-exist"
				}
				probs := append([]string{}, c.Problems...)
				sort.Strings(probs)
				sig := fmt.Sprintf("%s/problems=%s/op=%s/input=%s/hostile=%v", c.Command, strings.Join(probs, "+"), c.Operational, c.Spelling, c.HostilePath)
				caseInfo := map[string]any{"command": c.Command, "problems": probs, "operational": c.Operational, "input": inputArg, "hostile_path": c.HostilePath}
				outputs := map[string][]tuple{}
				for _, f := range formats {
					var args []string
					switch c.Command {
					case "build":
						args = []string{"build", inputArg, "-o", os.DevNull}
					case "lint":
						args = []string{"lint", inputArg}
					case "breaking":
						args = []string{"breaking", inputArg, "--against", filepath.Join(root, "prev")}
					case "format":
						args = []string{"format", inputArg, "--exit-code"}
					case "format-write":
						// every run starts from the unformatted files
						if f != formats[0] {
							if err := materialize(root, c); err != nil {
								emu.Lock()
								firstErr = err
								emu.Unlock()
								return
							}
						}
						args = []string{"format", inputArg, "--exit-code", "-w"}
					}
					args = append(args, "--error-format="+f)
					if c.Operational == "bad-flag" {
						args = append(args, "--no-such-flag")
					}
					cmd := exec.Command(inp.Buf, args...)
					cmd.Dir = cur
					cmd.Env = append(os.Environ(), "HOME="+root, "BUF_CACHE_DIR="+filepath.Join(root, "cache"), "NO_COLOR=1")
					var stdout, stderr bytes.Buffer
					cmd.Stdout, cmd.Stderr = &stdout, &stderr
					runErr := cmd.Run()
					code := 0
					if ee, ok := runErr.(*exec.ExitError); ok {
						code = ee.ExitCode()
					} else if runErr != nil {
						emu.Lock()
						firstErr = runErr
						emu.Unlock()
						return
					}
					res.Count(1, 0)
					ci := map[string]any{"scenario": caseInfo, "args": args, "exit": code, "stdout": trunc(stdout.String()), "stderr": trunc(stderr.String())}
					if exitClass(code) != c.Exit {
						res.Violate(fmt.Sprintf("exit-status/expected=%s/got=%s/%s", c.Exit, exitClass(code), sig), ci, "buf %s exited with %d, the specification requires the class %q", strings.Join(args, " "), code, c.Exit)
						continue
					}
					if !c.Prints {
						continue
					}
					// annotations go to stdout for lint/breaking, to stderr for build/format
					text := stdout.String()
					if c.Command == "build" || c.Command == "format" {
						text = stderr.String()
					}
					ts, err := parse(f, text)
					if err != nil {
						if c.HostilePath && (f == "text" || f == "msvs" || f == "github-actions") {
							cmpMu.Lock()
							skippedHostile++
							cmpMu.Unlock()
							continue // a newline inside a path cannot survive a line-oriented format
						}
						res.Violate("malformed/"+f+"/"+sig, ci, "%v", err)
						continue
					}
					if len(ts) == 0 {
						res.Violate("nothing-printed/"+f+"/"+sig, ci, "exit status 100 but no annotation was printed in format %s", f)
						continue
					}
					outputs[f] = ts
				}
				// the formats agree: same number, same order, same fields
				ref, ok := outputs["json"]
				if ok {
					for _, f := range formats {
						ts, ok := outputs[f]
						if !ok || f == "json" {
							continue
						}
						if len(ts) != len(ref) {
							res.Violate("formats-disagree/count/"+f+"/"+sig, map[string]any{"scenario": caseInfo, "json": ref, f: ts}, "format %s prints %d annotations, json prints %d", f, len(ts), len(ref))
							continue
						}
						cmpMu.Lock()
						compared[f] += len(ts)
						cmpMu.Unlock()
						for k := range ts {
							a, b := ts[k], ref[k]
							pathOK := a.Path == b.Path || (f == "junit" && a.Path == strings.TrimSuffix(b.Path, ".proto")) || (b.Path == "" && a.Path == "<input>")
							posOK := (a.Line == b.Line || (a.Line == 0 && b.Line == 1)) && (a.Col == b.Col || (a.Col == 0 && b.Col == 1))
							if a.EndLine != 0 && (a.EndLine != b.EndLine || a.EndCol != b.EndCol) {
								posOK = false
							}
							typeOK := a.Type == "" || a.Type == b.Type
							msgOK := a.Message == b.Message || (f == "junit" && strings.HasSuffix(a.Message, b.Message))
							if !(pathOK && posOK && typeOK && msgOK) {
								res.Violate("formats-disagree/field/"+f+"/"+sig, map[string]any{"scenario": caseInfo, "index": k, "json": b, f: a},
									"annotation %d differs between json %+v and %s %+v", k, b, f, a)
								break
							}
						}
					}
				}
				if i < 2 {
					res.Sample(map[string]any{"scenario": caseInfo, "expected_exit": c.Exit})
				}
			}
		}(wk)
	}
	wg.Wait()
	if firstErr != nil {
		return nil, firstErr
	}
	res.SetExtra("annotations_compared_with_json", compared)
	res.SetExtra("line_formats_not_parsed_for_newline_path", skippedHostile)
	res.Distinct = len(inp.Cases)
	return res, nil
}

func trunc(s string) string {
	if len(s) > 1500 {
		return s[:1500] + "..."
	}
	return s
}

package breakmodel

import (
	"context"
	"fmt"
	"sort"
	"strings"
	"sync"

	"github.com/bufbuild/buf/private/bufpkg/bufconfig"
	"github.com/bufbuild/buf/private/bufpkg/bufimage"
	"github.com/bufbuild/buf/private/bufpkg/bufmodule/bufmoduletesting"
	"github.com/bufbuild/verifharness/internal/bufx"
	"github.com/bufbuild/verifharness/internal/reg"
)

func init() { reg.Register("breaking-replay", run) }

type expectedRec struct {
	Rule  string              `json:"rule"`
	Names []string            `json:"names"`
	At    string              `json:"at"`
	Cats  map[string][]string `json:"cats"`
}
type pairRec struct {
	Prev       [][2]string   `json:"prev"`
	Compatible bool          `json:"compatible"`
	Expected   []expectedRec `json:"expected"`
}
type caseRec struct {
	Cur   [][2]string `json:"cur"`
	Pairs []pairRec   `json:"pairs"`
}
type input struct {
	Base    map[string]string `json:"base"`
	Cases   []caseRec         `json:"cases"`
	Corrupt string            `json:"corrupt"`
	// Only: "C03" / "C04" restricts which clauses raise violations
	Only string `json:"only"`
}

var versions = []struct {
	name string
	v    bufconfig.FileVersion
}{{"v1beta1", bufconfig.FileVersionV1Beta1}, {"v1", bufconfig.FileVersionV1}, {"v2", bufconfig.FileVersionV2}}
var categories = []string{"FILE", "PACKAGE", "WIRE_JSON", "WIRE"}

type built struct {
	v       version
	files   map[string]string
	anchors map[string]int
	image   bufimage.Image
	err     error
	// the same files as a module that is not targeted, imported by one targeted file: every file of the model is an
	// import of the image
	importImage bufimage.Image
}

type world struct {
	base  map[string]string
	mu    sync.Mutex
	cache map[string]*built
}

func (w *world) version(delta [][2]string) version {
	v := version{}
	for k, x := range w.base {
		v[k] = x
	}
	for _, d := range delta {
		v[d[0]] = d[1]
	}
	return v
}

func (w *world) build(ctx context.Context, v version) *built {
	k := v.key()
	w.mu.Lock()
	b, ok := w.cache[k]
	w.mu.Unlock()
	if ok {
		return b
	}
	b = &built{v: v}
	b.files, b.anchors = render(v)
	b.image, b.err = bufx.BuildImage(ctx, b.files)
	if b.err == nil {
		b.importImage, b.err = buildAsImports(ctx, b.files)
	}
	w.mu.Lock()
	w.cache[k] = b
	w.mu.Unlock()
	return b
}

func buildAsImports(ctx context.Context, files map[string]string) (bufimage.Image, error) {
	lib := map[string][]byte{}
	var sb strings.Builder
	sb.WriteString("syntax = \"proto3\";\npackage zz.app;\n")
	var paths []string
	for p := range files {
		paths = append(paths, p)
	}
	sort.Strings(paths)
	for _, p := range paths {
		lib[p] = []byte(files[p])
		sb.WriteString("import \"" + p + "\";\n")
	}
	ms, err := bufx.ModuleSet(
		bufmoduletesting.ModuleData{Name: "buf.test/verif/lib", PathToData: lib, NotTargeted: true},
		bufmoduletesting.ModuleData{Name: "buf.test/verif/app", PathToData: map[string][]byte{"zz/app/app.proto": []byte(sb.String())}},
	)
	if err != nil {
		return nil, err
	}
	return bufx.BuildImageForModuleSet(ctx, ms)
}

func diffSig(p, c version) string {
	var parts []string
	for k, x := range c {
		if p[k] != x {
			parts = append(parts, k+":"+p[k]+">"+x)
		}
	}
	sort.Strings(parts)
	if len(parts) == 0 {
		return "identical"
	}
	return strings.Join(parts, ",")
}

func has(l []string, x string) bool {
	for _, y := range l {
		if y == x {
			return true
		}
	}
	return false
}

// located reports whether the annotation sits where the specification says.
func located(a bufx.Annotation, at string, cur *built) bool {
	if at == "none" {
		return a.Path == ""
	}
	file, elem, _ := strings.Cut(at, "#")
	if a.Path != file {
		return false
	}
	if elem == "file" {
		return a.StartLine <= 1
	}
	line, ok := cur.anchors[at]
	if !ok {
		return false
	}
	return a.StartLine == line
}

func run(in []byte) (*reg.Result, error) {
	var inp input
	if err := reg.Decode(in, &inp); err != nil {
		return nil, err
	}
	ctx := context.Background()
	client, err := bufx.CheckClient(ctx)
	if err != nil {
		return nil, err
	}
	res := &reg.Result{}
	w := &world{base: inp.Base, cache: map[string]*built{}}
	wantC03 := inp.Only == "" || inp.Only == "C03"
	wantC04 := inp.Only == "" || inp.Only == "C04"

	type job struct {
		prev, cur  version
		compatible bool
		expected   []expectedRec
	}
	seen := map[string]bool{}
	var jobs []job
	identity := map[string]version{}
	for _, c := range inp.Cases {
		cur := w.version(c.Cur)
		identity[cur.key()] = cur
		for _, p := range c.Pairs {
			prev := w.version(p.Prev)
			k := prev.key() + "|" + cur.key()
			if seen[k] {
				continue
			}
			seen[k] = true
			jobs = append(jobs, job{prev, cur, p.Compatible, p.Expected})
		}
	}
	for _, v := range identity {
		jobs = append(jobs, job{v, v, true, nil})
	}
	if inp.Corrupt != "" {
		// negative controls: claim a consequence the code does not owe / claim compatibility of a breaking step
		var keep []job
		for _, j := range jobs {
			if inp.Corrupt == "C03" && j.compatible && diffSig(j.prev, j.cur) != "identical" {
				j.expected = []expectedRec{{Rule: "FIELD_NO_DELETE", Names: []string{"\"1\""}, At: "a.proto#message:M",
					Cats: map[string][]string{"v2": {"FILE"}, "v1": {"FILE"}, "v1beta1": {"FILE"}}}}
				keep = append(keep, j)
				break
			}
			if inp.Corrupt == "C04" && len(j.expected) > 0 {
				j.compatible = true
				keep = append(keep, j)
				break
			}
		}
		jobs = keep
	}

	var wg sync.WaitGroup
	ch := make(chan job)
	var runs, pairsChecked, expectedChecked int
	var cmu sync.Mutex
	for wk := 0; wk < 16; wk++ {
		wg.Add(1)
		go func() {
			defer wg.Done()
			for j := range ch {
				prev, cur := w.build(ctx, j.prev), w.build(ctx, j.cur)
				sig := diffSig(j.prev, j.cur)
				info := map[string]any{"diff": sig}
				if prev.err != nil || cur.err != nil {
					// the specification only produces schemas that compile
					res.Violate("harness/does-not-compile/"+sig, info, "a rendered version does not compile: %v %v", prev.err, cur.err)
					continue
				}
				localRuns := 0
				runCfg := func(v bufconfig.FileVersion, use []string) ([]bufx.Annotation, error) {
					cfg, err := bufx.BreakingConfig(v, use, nil, nil, nil, false)
					if err != nil {
						return nil, err
					}
					localRuns++
					cerr := client.Breaking(ctx, cfg, cur.image, prev.image)
					as, ok := bufx.Annotations(cerr)
					if !ok {
						return nil, cerr
					}
					return as, nil
				}
				// an expectation anchored at EACH-FILLER stands for one expectation per filler file
				var expanded []expectedRec
				for _, e := range j.expected {
					if strings.HasPrefix(e.At, "EACH-FILLER#") {
						for k := 0; k < FillerCount(); k++ {
							x := e
							x.At = fmt.Sprintf("filler/f%04d.proto#%s", k, strings.TrimPrefix(e.At, "EACH-FILLER#"))
							expanded = append(expanded, x)
						}
					} else {
						expanded = append(expanded, e)
					}
				}
				j.expected = expanded
				find := func(as []bufx.Annotation, e expectedRec) (bool, string) {
					why := "no annotation with this rule ID"
					for _, a := range as {
						if a.Type != e.Rule {
							continue
						}
						okNames := true
						for _, n := range e.Names {
							if !strings.Contains(a.Message, n) {
								okNames = false
							}
						}
						if !okNames {
							why = fmt.Sprintf("an annotation with this rule ID does not name %v: %q", e.Names, a.Message)
							continue
						}
						if !located(a, e.At, cur) {
							why = fmt.Sprintf("the annotation is at %s:%d, expected %s (line %d): %q", a.Path, a.StartLine, e.At, cur.anchors[e.At], a.Message)
							continue
						}
						return true, ""
					}
					return false, why
				}
				for _, ver := range versions {
					clean := map[string]bool{}
					for _, cat := range categories {
						as, err := runCfg(ver.v, []string{cat})
						if err != nil {
							res.Violate("error/"+ver.name+"/"+cat+"/"+sig, info, "Breaking returned an error: %v", err)
							continue
						}
						clean[cat] = len(as) == 0
						if wantC04 && j.compatible && len(as) > 0 {
							res.Violate("C04/compatible-change-reported/"+as[0].Type+"/"+ver.name+"/"+cat+"/"+sig,
								map[string]any{"diff": sig, "annotations": as, "prev": prev.files, "cur": cur.files},
								"%s category %s reports %d annotation(s) for an additive/cosmetic/identical step, first: %s", ver.name, cat, len(as), bufx.AnnotationText(as[:1]))
						}
						if wantC03 {
							for _, e := range j.expected {
								if !has(e.Cats[ver.name], cat) {
									continue
								}
								cmu.Lock()
								expectedChecked++
								cmu.Unlock()
								if ok, why := find(as, e); !ok {
									res.Violate("C03/not-reported/"+e.Rule+"/"+ver.name+"/"+cat+"/"+sig,
										map[string]any{"diff": sig, "expected": e, "annotations": as, "prev": prev.files, "cur": cur.files},
										"%s category %s: %s expected at %s naming %v: %s", ver.name, cat, e.Rule, e.At, e.Names, why)
								}
							}
						}
					}
					if wantC04 {
						order := []string{"FILE", "PACKAGE", "WIRE_JSON", "WIRE"}
						for i := 0; i+1 < len(order); i++ {
							if clean[order[i]] && !clean[order[i+1]] {
								res.Violate("C04/hierarchy/"+order[i]+"-clean-but-"+order[i+1]+"-not/"+ver.name+"/"+sig,
									map[string]any{"diff": sig, "prev": prev.files, "cur": cur.files},
									"%s: clean under %s but not under the laxer %s", ver.name, order[i], order[i+1])
							}
						}
					}
					// the same step seen through images in which every file of the model is an import (no exclude-imports):
					// the rules judge imports as well, so the same clauses hold
					{
						cleanImp := map[string]bool{}
						for _, cat := range categories {
							cfg, err := bufx.BreakingConfig(ver.v, []string{cat}, nil, nil, nil, false)
							if err != nil {
								continue
							}
							localRuns++
							cerr := client.Breaking(ctx, cfg, cur.importImage, prev.importImage)
							as, ok := bufx.Annotations(cerr)
							if !ok {
								res.Violate("error/imports/"+ver.name+"/"+cat+"/"+sig, info, "Breaking on images of imports returned an error: %v", cerr)
								continue
							}
							cleanImp[cat] = len(as) == 0
							if wantC04 && j.compatible && len(as) > 0 {
								res.Violate("C04/compatible-change-reported/imports/"+as[0].Type+"/"+ver.name+"/"+cat+"/"+sig,
									map[string]any{"diff": sig, "annotations": as}, "%s category %s reports %d annotation(s) for an additive/cosmetic/identical step in an imported file, first: %s", ver.name, cat, len(as), bufx.AnnotationText(as[:1]))
							}
							if wantC03 {
								for _, e := range j.expected {
									if !has(e.Cats[ver.name], cat) {
										continue
									}
									if ok, why := find(as, e); !ok {
										res.Violate("C03/not-reported/imports/"+e.Rule+"/"+ver.name+"/"+cat+"/"+sig,
											map[string]any{"diff": sig, "expected": e, "annotations": as}, "%s category %s, files as imports: %s expected at %s naming %v: %s", ver.name, cat, e.Rule, e.At, e.Names, why)
									}
								}
							}
						}
						if wantC04 {
							order := []string{"FILE", "PACKAGE", "WIRE_JSON", "WIRE"}
							for i := 0; i+1 < len(order); i++ {
								if cleanImp[order[i]] && !cleanImp[order[i+1]] {
									res.Violate("C04/hierarchy/imports/"+order[i]+"-clean-but-"+order[i+1]+"-not/"+ver.name+"/"+sig,
										map[string]any{"diff": sig}, "%s, files as imports: clean under %s but not under the laxer %s", ver.name, order[i], order[i+1])
								}
							}
						}
					}
					if wantC03 {
						// an ignore_only entry for one reported rule and its file must not silence the other rules there
						var rulesHere []string
						seenRule := map[string]bool{}
						for _, e := range j.expected {
							if has(e.Cats[ver.name], "FILE") && !seenRule[e.Rule] && !strings.HasPrefix(e.At, "EACH-FILLER") && e.At != "none" {
								seenRule[e.Rule] = true
								rulesHere = append(rulesHere, e.Rule)
							}
						}
						if len(rulesHere) >= 2 {
							for _, ignored := range rulesHere {
								var file string
								for _, e := range j.expected {
									if e.Rule == ignored {
										file, _, _ = strings.Cut(e.At, "#")
									}
								}
								cfg, err := bufx.BreakingConfig(ver.v, []string{"FILE"}, nil, nil, map[string][]string{ignored: {file}}, false)
								if err != nil {
									continue
								}
								localRuns++
								as, ok := bufx.Annotations(client.Breaking(ctx, cfg, cur.image, prev.image))
								if !ok {
									continue
								}
								for _, e := range j.expected {
									if e.Rule == ignored || !has(e.Cats[ver.name], "FILE") {
										continue
									}
									if ok, why := find(as, e); !ok {
										res.Violate("C03/not-reported/"+e.Rule+"/"+ver.name+"/ignore-only-other-rule/"+sig,
											map[string]any{"diff": sig, "expected": e, "ignore_only": map[string]string{ignored: file}, "annotations": as},
											"%s FILE with ignore_only {%s: [%s]}: %s expected at %s naming %v: %s", ver.name, ignored, file, e.Rule, e.At, e.Names, why)
									}
								}
							}
						}
					}
					if wantC03 {
						// single-rule configurations
						done := map[string]bool{}
						for _, e := range j.expected {
							if len(e.Cats[ver.name]) == 0 || done[e.Rule] {
								continue
							}
							done[e.Rule] = true
							as, err := runCfg(ver.v, []string{e.Rule})
							if err != nil {
								res.Violate("error/"+ver.name+"/"+e.Rule+"/"+sig, info, "Breaking returned an error: %v", err)
								continue
							}
							for _, e2 := range j.expected {
								if e2.Rule != e.Rule {
									continue
								}
								if ok, why := find(as, e2); !ok {
									res.Violate("C03/not-reported/"+e.Rule+"/"+ver.name+"/single-rule/"+sig,
										map[string]any{"diff": sig, "expected": e2, "annotations": as, "prev": prev.files, "cur": cur.files},
										"%s single-rule configuration: %s expected at %s naming %v: %s", ver.name, e.Rule, e2.At, e2.Names, why)
								}
							}
						}
					}
				}
				cmu.Lock()
				runs += localRuns
				pairsChecked++
				cmu.Unlock()
			}
		}()
	}
	for _, j := range jobs {
		ch <- j
	}
	close(ch)
	wg.Wait()
	res.Evaluations = runs
	res.Traces = pairsChecked
	res.Distinct = len(w.cache)
	res.SetExtra("version_pairs", pairsChecked)
	res.SetExtra("versions_compiled", len(w.cache))
	res.SetExtra("breaking_runs", runs)
	res.SetExtra("expected_annotations_checked", expectedChecked)
	if len(jobs) > 0 {
		j := jobs[0]
		res.Sample(map[string]any{"diff": diffSig(j.prev, j.cur), "compatible": j.compatible, "expected": j.expected})
	}
	return res, nil
}

// Package breakmodel binds specs/breaking/Breaking.tla (C03, C04) to the real breaking change detector.
package breakmodel

import (
	"fmt"
	"sort"
	"strings"

	"github.com/bufbuild/buf/private/pkg/thread"
)

// version is a valuation of the slots of Breaking.tla.
type version map[string]string

func (v version) key() string {
	ks := make([]string, 0, len(v))
	for k := range v {
		ks = append(ks, k)
	}
	sort.Strings(ks)
	var sb strings.Builder
	for _, k := range ks {
		sb.WriteString(k + "=" + v[k] + ";")
	}
	return sb.String()
}

// writer emits one file line by line and remembers the line of every anchored element.
type writer struct {
	file    string
	style   string
	lines   []string
	anchors map[string]int
	depth   int
	// top-level blocks, so that "reformatted" can reorder them
	blocks [][]pending
	cur    []pending
}

type pending struct {
	anchor string
	text   string
	depth  int
}

func (w *writer) l(anchor, text string) {
	w.cur = append(w.cur, pending{anchor, text, w.depth})
}
func (w *writer) open(anchor, text string) { w.l(anchor, text); w.depth++ }
func (w *writer) close()                   { w.depth--; w.l("", "}") }
func (w *writer) endBlock()                { w.blocks = append(w.blocks, w.cur); w.cur = nil }
func (w *writer) opt(cond bool, f func()) {
	if cond {
		f()
	}
}

// finish lays the blocks out according to the style. The header (first block) always stays first.
func (w *writer) finish() string {
	blocks := w.blocks
	if w.style == "reformatted" && len(blocks) > 2 {
		// declaration order is not part of the schema: reverse the top-level declarations
		rest := append([][]pending{}, blocks[1:]...)
		for i, j := 0, len(rest)-1; i < j; i, j = i+1, j-1 {
			rest[i], rest[j] = rest[j], rest[i]
		}
		blocks = append([][]pending{blocks[0]}, rest...)
	}
	var out []string
	for _, b := range blocks {
		for _, p := range b {
			indent := strings.Repeat("  ", p.depth)
			if w.style == "reformatted" {
				indent = strings.Repeat("\t", p.depth)
			}
			if w.style == "commented" && p.anchor != "" && !strings.HasPrefix(p.anchor, "syntax") {
				out = append(out, indent+"// "+strings.ReplaceAll(p.anchor, ":", " ")+" is documented now.")
				out = append(out, indent+"/* and has a block comment */")
			}
			text := p.text
			if w.style == "commented" && strings.HasSuffix(text, ";") {
				text += " // trailing"
			}
			if w.style == "reformatted" {
				text = strings.Replace(text, " = ", "  =  ", 1)
			}
			out = append(out, indent+text)
			if p.anchor != "" {
				w.anchors[w.file+"#"+p.anchor] = len(out)
			}
			if w.style == "reformatted" {
				out = append(out, "")
			}
		}
		out = append(out, "")
	}
	return strings.Join(out, "\n") + "\n"
}

func typeName(t string) string {
	switch t {
	case "msg:M.N":
		return "N"
	case "msg:M.N2":
		return "N2"
	case "enum:M.K":
		return "K"
	case "enum:KWide.K":
		return "KWide.K"
	case "enum:KSwap.K":
		return "KSwap.K"
	case "enum:E":
		return "E"
	}
	return t
}

var fileOptionOrder = []string{
	"o_java_package", "o_java_multiple_files", "o_go_package", "o_optimize_for", "o_csharp_namespace", "o_objc_class_prefix",
	"o_php_namespace", "o_ruby_package", "o_swift_prefix", "o_cc_enable_arenas", "o_java_outer_classname", "o_php_class_prefix",
	"o_php_metadata_namespace", "o_cc_generic_services", "o_java_generic_services", "o_py_generic_services",
}

func isBareOption(slot string) bool {
	switch slot {
	case "o_java_multiple_files", "o_optimize_for", "o_cc_enable_arenas", "o_cc_generic_services", "o_java_generic_services", "o_py_generic_services":
		return true
	}
	return false
}

// render returns the files of a version and the line of every anchor ("file#element").
func render(v version) (map[string]string, map[string]int) {
	files := map[string]string{}
	anchors := map[string]int{}
	style := v["style"]
	nw := func(file string) *writer { return &writer{file: file, style: style, anchors: anchors} }
	present := func(slot string) bool { return v[slot] == "present" }

	// ---------------------------------------------------------------- a.proto
	w := nw("a.proto")
	w.l("syntax", `syntax = "proto3";`)
	w.l("package", "package acme.v1;")
	for _, slot := range fileOptionOrder {
		name := strings.TrimPrefix(slot, "o_")
		val := v[slot]
		if !isBareOption(slot) {
			val = `"` + val + `"`
		}
		w.l("option:"+slot, fmt.Sprintf("option %s = %s;", name, val))
	}
	w.endBlock()

	w.open("message:M", "message M {")
	aOpts := ""
	if v["a_json"] == "custom" {
		aOpts = ` [json_name = "customA"]`
	}
	w.l("field:M.1", fmt.Sprintf("%s %s = 1%s;", v["a_type"], v["a_name"], aOpts))
	w.l("field:M.2", fmt.Sprintf("%s n = 2;", typeName(v["n_type"])))
	w.l("field:M.3", fmt.Sprintf("map<string, %s> mp = 3;", v["mp_val"]))
	w.open("", "oneof o {")
	if v["c_oneof"] == "o" {
		w.l("field:M.4", "string c = 4;")
	}
	w.l("field:M.5", "int32 d = 5;")
	w.close()
	w.open("", "oneof o2 {")
	w.l("field:M.8", "string g = 8;")
	if v["c_oneof"] == "o2" {
		w.l("field:M.4", "string c = 4;")
	}
	w.close()
	if v["c_oneof"] == "none" {
		w.l("field:M.4", "string c = 4;")
	}
	switch v["e_card"] {
	case "implicit":
		w.l("field:M.6", "int32 e = 6;")
	case "optional":
		w.l("field:M.6", "optional int32 e = 6;")
	case "repeated":
		w.l("field:M.6", "repeated int32 e = 6;")
	}
	switch v["x_state"] {
	case "present":
		w.l("field:M.7", "string x = 7;")
	case "deleted_num":
		w.l("", "reserved 7;")
	case "deleted_name":
		w.l("", `reserved "x";`)
	case "deleted_both":
		w.l("", "reserved 7;")
		w.l("", `reserved "x";`)
	}
	if v["ph_state"] == "oneof" {
		w.open("", "oneof p {")
		w.l("field:M.9", "string ph = 9;")
		w.close()
	} else {
		w.l("field:M.9", "string ph = 9;")
	}
	w.l("field:M.10", fmt.Sprintf("%s k = 10;", typeName(v["k_type"])))
	if present("z_state") {
		w.l("field:M.20", "string z = 20;")
	}
	if present("added_oneof") {
		w.open("", "oneof added {")
		w.l("field:M.21", "string added_one = 21;")
		w.l("field:M.22", "int32 added_two = 22;")
		w.close()
	}
	if present("m_res") {
		w.l("", "reserved 100 to 110;")
		w.l("", `reserved "old";`)
	}
	if present("m_res_new") {
		w.l("", "reserved 300;")
	}
	for _, n := range []string{"N", "N2"} {
		w.open("message:M."+n, "message "+n+" {")
		w.l("", "int32 i = 1;")
		w.close()
	}
	if present("inner_state") {
		w.open("message:M.Inner", "message Inner {")
		w.l("", "int32 i = 1;")
		w.close()
	}
	if present("added_nested") {
		w.open("message:M.AddedNested", "message AddedNested {")
		w.l("", "int32 i = 1;")
		w.close()
	}
	w.open("enum:M.K", "enum K {")
	w.l("", "K_UNSPECIFIED = 0;")
	w.l("", "K_ONE = 1;")
	w.close()
	if present("k2_state") {
		w.open("enum:M.K2", "enum K2 {")
		w.l("", "K2_UNSPECIFIED = 0;")
		w.close()
	}
	w.close()
	w.endBlock()

	w.open("message:KWide", "message KWide {")
	w.open("", "enum K {")
	w.l("", "K_UNSPECIFIED = 0;")
	w.l("", "K_ONE = 1;")
	w.l("", "K_TWO = 2;")
	w.close()
	w.close()
	w.endBlock()

	// (every name and every number of KWide.K, two of them bound the other way round)
	w.open("message:KSwap", "message KSwap {")
	w.open("", "enum K {")
	w.l("", "K_UNSPECIFIED = 0;")
	w.l("", "K_ONE = 2;")
	w.l("", "K_TWO = 1;")
	w.close()
	w.close()
	w.endBlock()

	w.open("enum:E", "enum E {")
	w.l("", "option allow_alias = true;")
	w.l("", "E_UNSPECIFIED = 0;")
	w.l("", "E_ZERO_ALIAS = 0;")
	// (always there: a reserved range of negative numbers, which enum values may have)
	w.l("", "reserved -10 to -5;")
	switch v["alias_state"] {
	case "present":
		w.l("enumvalue:E.1", "E_A = 1;")
		w.l("", "E_B = 1;")
	case "deleted_name_one":
		w.l("", `reserved "E_A";`)
	case "deleted_name_all":
		w.l("", `reserved "E_A", "E_B";`)
	case "deleted_num":
		w.l("", "reserved 1;")
	}
	switch v["ec_state"] {
	case "present":
		w.l("enumvalue:E.2", v["ec_name"]+" = 2;")
	case "deleted_num":
		w.l("", "reserved 2;")
	case "deleted_name":
		w.l("", `reserved "`+v["ec_name"]+`";`)
	case "deleted_both":
		w.l("", "reserved 2;")
		w.l("", `reserved "`+v["ec_name"]+`";`)
	}
	if present("e_new") {
		w.l("enumvalue:E.9", "E_NEW = 9;")
	}
	if present("e_res") {
		w.l("", "reserved 50 to 59;")
		w.l("", `reserved "E_OLD";`)
	}
	w.close()
	w.endBlock()

	if present("e2_state") {
		w.open("enum:E2", "enum E2 {")
		w.l("", "E2_UNSPECIFIED = 0;")
		w.close()
		w.endBlock()
	}
	if present("added_enum") {
		w.open("enum:AddedEnum", "enum AddedEnum {")
		w.l("", "ADDED_ENUM_UNSPECIFIED = 0;")
		w.close()
		w.endBlock()
	}
	if present("added_msg") {
		w.open("message:AddedMsg", "message AddedMsg {")
		w.l("", "string v = 1;")
		w.close()
		w.endBlock()
	}
	if v["b2_home"] == "a.proto" {
		w.open("message:B2", "message B2 {")
		w.l("", "string v = 1;")
		w.close()
		w.endBlock()
	}
	w.open("service:S", "service S {")
	stream := func(s string) string {
		if s == "stream" {
			return "stream "
		}
		return ""
	}
	idem := ""
	switch v["r_idem"] {
	case "no_side_effects":
		idem = " option idempotency_level = NO_SIDE_EFFECTS; "
	case "idempotent":
		idem = " option idempotency_level = IDEMPOTENT; "
	}
	w.l("rpc:S.R", fmt.Sprintf("rpc R(%s%s) returns (%s%s) {%s}", stream(v["r_cs"]), v["r_req"], stream(v["r_ss"]), v["r_resp"], idem))
	if present("r2_state") {
		w.l("rpc:S.R2", "rpc R2(M) returns (M.N);")
	}
	if present("r3_state") {
		w.l("rpc:S.R3", "rpc R3(M) returns (M.N);")
	}
	w.close()
	w.endBlock()
	for _, s := range []struct{ slot, name string }{{"s2_state", "S2"}, {"s3_state", "S3"}} {
		if present(s.slot) {
			w.open("service:"+s.name, "service "+s.name+" {")
			w.l("", "rpc Z(M) returns (M.N);")
			w.close()
			w.endBlock()
		}
	}
	files["a.proto"] = w.finish()

	// ---------------------------------------------------------------- b.proto
	w = nw("b.proto")
	w.l("syntax", `syntax = "proto2";`)
	w.l("package", "package acme.v1;")
	w.endBlock()
	w.open("message:P", "message P {")
	w.l("field:P.1", v["pr_label"]+" int32 r = 1;")
	def := ""
	if v["pf_default"] != "none" {
		def = " [default = " + v["pf_default"] + "]"
	}
	w.l("field:P.2", "optional double f = 2"+def+";")
	def = ""
	if v["ps_default"] != "none" {
		def = ` [default = "` + v["ps_default"] + `"]`
	}
	w.l("field:P.3", "optional string s = 3"+def+";")
	js := ""
	if v["pbig_js"] != "JS_NORMAL" {
		js = " [jstype = " + v["pbig_js"] + "]"
	}
	w.l("field:P.4", "optional int64 big = 4"+js+";")
	w.l("field:P.5", v["pc_card"]+" int32 pc = 5;")
	puType, puDefault, _ := strings.Cut(v["pu"], ":")
	w.l("field:P.6", "optional "+puType+" u = 6 [default = "+puDefault+"];")
	if present("p_newreq") {
		w.l("field:P.30", "required int32 newreq = 30;")
	}
	w.l("", "extensions 100 to 199;")
	if present("p_extrange") {
		w.l("", "extensions 300 to 310;")
	}
	w.close()
	w.endBlock()
	if present("ext_state") {
		w.open("", "extend P {")
		w.l("extension:ext", "optional int32 ext = 100;")
		w.close()
		w.endBlock()
	}
	if present("q_state") {
		w.open("message:Q", "message Q {")
		if v["q_nsda"] == "true" {
			w.l("option:Q.nsda", "option no_standard_descriptor_accessor = true;")
		}
		w.l("", "optional int32 q = 1;")
		w.close()
		w.endBlock()
	}
	files["b.proto"] = w.finish()

	// ---------------------------------------------------------------- b2.proto
	if present("b2_file") {
		w = nw("b2.proto")
		w.l("syntax", `syntax = "proto3";`)
		w.l("package", "package acme.v1;")
		w.endBlock()
		if v["b2_home"] == "b2.proto" {
			w.open("message:B2", "message B2 {")
			w.l("", "string v = 1;")
			w.close()
			w.endBlock()
		}
		w.open("message:B2Other", "message B2Other {")
		w.l("", "string v = 1;")
		w.close()
		w.endBlock()
		files["b2.proto"] = w.finish()
	}
	// ---------------------------------------------------------------- c.proto
	if present("c_file") {
		w = nw("c.proto")
		if v["c_syntax"] != "unspecified" {
			w.l("syntax", `syntax = "`+v["c_syntax"]+`";`)
		}
		w.l("package", "package "+v["c_pkg"]+";")
		w.endBlock()
		if present("c_msg") {
			w.open("message:O", "message O {")
			w.l("", "repeated string o = 1;")
			w.close()
			w.endBlock()
		}
		if present("c_enum") {
			w.open("enum:OnlyEnum", "enum OnlyEnum {")
			w.l("", "ONLY_ENUM_UNSPECIFIED = 0;")
			w.close()
			w.endBlock()
		}
		files["c.proto"] = w.finish()
	}
	// ---------------------------------------------------------------- d.proto
	if present("d_file") {
		w = nw("d.proto")
		w.l("syntax", `syntax = "proto3";`)
		w.l("package", "package acme.v1;")
		w.endBlock()
		w.open("message:D", "message D {")
		w.l("", "string v = 1;")
		w.close()
		w.endBlock()
		files["d.proto"] = w.finish()
	}
	// ---------------------------------------------------------------- fillers
	if v["fillers"] != "none" {
		for i := 0; i < FillerCount(); i++ {
			w = nw(fmt.Sprintf("filler/f%04d.proto", i))
			w.l("syntax", `syntax = "proto3";`)
			w.l("package", fmt.Sprintf("package filler.f%04d;", i))
			w.endBlock()
			w.open("message:F", "message F {")
			w.l("", "string id = 1;")
			if v["fillers"] == "present" {
				w.l("", "string gone = 2;")
			}
			w.close()
			w.endBlock()
			files[w.file] = w.finish()
		}
	}
	return files, anchors
}

// FillerCount is the number of extra files: enough for the chunked construction of source files, with a remainder.
func FillerCount() int { return 8*thread.Parallelism() + 7 }

// Package imagemodel replays specs/image/ImageGraph.tla (C01) against bufimage.BuildImage: every
// emitted workspace is rendered to .proto sources in two modules, built, and the image is compared
// element by element, in order, with the specification; every descriptor is compared with an
// independent protocompile compilation of the same source text.
package imagemodel

import (
	"context"
	"errors"
	"fmt"
	"io"
	"os"
	"path/filepath"
	"sort"
	"strings"
	"sync"

	"github.com/bufbuild/buf/private/bufpkg/bufanalysis"
	"github.com/bufbuild/buf/private/bufpkg/bufimage"
	"github.com/bufbuild/buf/private/bufpkg/bufmodule"
	"github.com/bufbuild/buf/private/bufpkg/bufparse"
	"github.com/bufbuild/buf/private/gen/data/datawkt"
	"github.com/bufbuild/buf/private/pkg/storage"
	"github.com/bufbuild/buf/private/pkg/storage/storageos"
	"github.com/bufbuild/protocompile"
	"github.com/bufbuild/protocompile/protoutil"
	"github.com/bufbuild/verifharness/internal/bufx"
	"github.com/bufbuild/verifharness/internal/reg"
	"github.com/google/uuid"
	"google.golang.org/protobuf/proto"
	"google.golang.org/protobuf/types/descriptorpb"
)

func init() { reg.Register("image-replay", run) }

// Entry is one expected image file.
type Entry struct {
	File              string `json:"file"`
	IsImport          bool   `json:"isImport"`
	Owner             string `json:"owner"`
	Unused            []int  `json:"unused"`
	SyntaxUnspecified bool   `json:"syntaxUnspecified"`
}

// Case is one emitted workspace.
type Case struct {
	Imports     map[string][]string `json:"imports"`
	Unused      []string            `json:"unused"`
	TargetA     bool                `json:"targetA"`
	TargetB     bool                `json:"targetB"`
	Paths       [][]string          `json:"paths"`
	Excludes    [][]string          `json:"excludes"`
	WktSupplied bool                `json:"wktSupplied"`
	NoSyntaxD   bool                `json:"noSyntaxD"`
	Planted     string              `json:"planted"`
	NoTargets   bool                `json:"noTargets"`
	ProtoRef    string              `json:"protoRef"`
	IncludePkg  bool                `json:"includePkg"`
	PkgMode     string              `json:"pkgMode"`
	Error       string              `json:"error"`
	Image       []Entry             `json:"image"`
}

type input struct {
	Cases   []Case `json:"cases"`
	Corrupt bool   `json:"corrupt"`
}

// PathOf maps abstract files to paths.
var PathOf = map[string]string{
	"a": "acme/v1/a.proto", "c": "acme/v1/sub/c.proto", "b": "acme/v1beta1/b.proto", "d": "dep/d.proto", "wkt": "google/protobuf/timestamp.proto",
}
var pkgOf = map[string]string{"a": "pa", "b": "pb", "c": "pc", "d": "pd"}

const suppliedWKT = `syntax = "proto3";
package google.protobuf;
// a vendored, modified copy
message Timestamp {
  int64 seconds = 1;
  int32 nanos = 2;
  string verif_marker = 99;
}
`

// Render gives the source text of a file and the line of a planted error (0 if none).
func Render(c Case, f string) (string, int) {
	var sb strings.Builder
	line := 0
	n := 0
	w := func(s string) {
		sb.WriteString(s + "\n")
		n++
	}
	label := ""
	if !(f == "d" && c.NoSyntaxD) {
		w(`syntax = "proto3";`)
	} else {
		label = "optional "
	}
	if c.Planted == "bad-package" && f == "b" {
		w("package bad..pkg;")
		line = n
	} else if pkgFor(c, f) != "" {
		w("package " + pkgFor(c, f) + ";")
	}
	for _, g := range c.Imports[f] {
		switch {
		case f == "c":
			w(`import weak "` + PathOf[g] + `";`) // the imports of c are weak imports
		default:
			w(`import "` + PathOf[g] + `";`)
		}
	}
	if c.Planted == "missing-import" && f == "a" {
		w(`import "does/not/exist.proto";`)
		line = n
	}
	w("// message of " + f)
	w("message M" + f + " {")
	w("  " + label + "string id = 1;")
	num := 2
	for _, g := range c.Imports[f] {
		if len(c.Unused) == 2 && c.Unused[0] == f && c.Unused[1] == g {
			continue
		}
		if g == "wkt" {
			w(fmt.Sprintf("  %sgoogle.protobuf.Timestamp ref_wkt = %d;", label, num))
		} else {
			w(fmt.Sprintf("  %s.%s ref_%s = %d;", label, strings.TrimPrefix(pkgFor(c, g)+".M"+g, "."), g, num))
		}
		num++
	}
	if c.Planted == "unresolved" && f == "b" {
		w("  Nope nope = 90;")
		line = n
	}
	w("}")
	if c.Planted == "syntax" && f == "c" {
		w("message {")
		line = n
	}
	return sb.String(), line
}

// pkgFor is the package a file declares under the case's package mode ("" = no package statement).
func pkgFor(c Case, f string) string {
	if f == "a" || f == "b" {
		switch c.PkgMode {
		case "ab-same":
			return "shared"
		case "ab-none":
			return ""
		}
	}
	return pkgOf[f]
}

func joinPaths(ps [][]string) []string {
	var out []string
	for _, p := range ps {
		out = append(out, strings.Join(p, "/"))
	}
	sort.Strings(out)
	return out
}

// Workspace materialises the two modules under dir and returns the module set.
func Workspace(ctx context.Context, c Case, dir string) (bufmodule.ModuleSet, map[string]string, map[string]int, error) {
	if err := os.RemoveAll(dir); err != nil {
		return nil, nil, nil, err
	}
	sources := map[string]string{}
	lines := map[string]int{}
	mods := map[string][]string{"A": {"a", "b", "c"}, "B": {"d"}}
	if c.WktSupplied {
		mods["B"] = append(mods["B"], "wkt")
	}
	builder := bufmodule.NewModuleSetBuilder(ctx, bufx.Logger, bufmodule.NopModuleDataProvider, bufmodule.NopCommitProvider)
	for _, m := range []string{"A", "B"} {
		mdir := filepath.Join(dir, "mod"+m)
		for _, f := range mods[m] {
			var text string
			if f == "wkt" {
				text = suppliedWKT
			} else {
				var l int
				text, l = Render(c, f)
				if l > 0 {
					lines[f] = l
				}
			}
			sources[PathOf[f]] = text
			p := filepath.Join(mdir, filepath.FromSlash(PathOf[f]))
			if err := os.MkdirAll(filepath.Dir(p), 0o755); err != nil {
				return nil, nil, nil, err
			}
			if err := os.WriteFile(p, []byte(text), 0o644); err != nil {
				return nil, nil, nil, err
			}
		}
		b, err := storageos.NewProvider().NewReadWriteBucket(mdir)
		if err != nil {
			return nil, nil, nil, err
		}
		fn, err := bufparse.NewFullName("buf.test", "verif", strings.ToLower(m))
		if err != nil {
			return nil, nil, nil, err
		}
		target := (m == "A" && c.TargetA) || (m == "B" && c.TargetB)
		opts := []bufmodule.LocalModuleOption{bufmodule.LocalModuleWithFullNameAndCommitID(fn, uuid.NewSHA1(uuid.Nil, []byte(m)))}
		if target && (len(c.Paths) > 0 || len(c.Excludes) > 0) {
			opts = append(opts, bufmodule.LocalModuleWithTargetPaths(joinPaths(c.Paths), joinPaths(c.Excludes)))
		}
		if m == "A" && c.ProtoRef != "" && c.ProtoRef != "none" {
			opts = append(opts, bufmodule.LocalModuleWithProtoFileTargetPath(PathOf[c.ProtoRef], c.IncludePkg))
		}
		builder.AddLocalModule(storage.ReadBucket(b), "mod"+m, target, opts...)
	}
	ms, err := builder.Build()
	return ms, sources, lines, err
}

func describe(c Case) map[string]any {
	return map[string]any{"imports": c.Imports, "unused": c.Unused, "targetA": c.TargetA, "targetB": c.TargetB, "paths": joinPaths(c.Paths),
		"excludes": joinPaths(c.Excludes), "wktSupplied": c.WktSupplied, "noSyntaxD": c.NoSyntaxD, "planted": c.Planted}
}

// compileIndependently compiles path with protocompile directly from the given sources.
func compileIndependently(ctx context.Context, sources map[string]string, path string) (proto.Message, error) {
	compiler := protocompile.Compiler{
		Resolver: &protocompile.SourceResolver{Accessor: func(p string) (io.ReadCloser, error) {
			if s, ok := sources[p]; ok {
				return io.NopCloser(strings.NewReader(s)), nil
			}
			if r, err := datawkt.ReadBucket.Get(ctx, p); err == nil {
				return r, nil
			}
			return nil, os.ErrNotExist
		}},
		SourceInfoMode: protocompile.SourceInfoExtraOptionLocations,
	}
	files, err := compiler.Compile(ctx, path)
	if err != nil {
		return nil, err
	}
	return protoutil.ProtoFromFileDescriptor(files[0]), nil
}

func run(in []byte) (*reg.Result, error) {
	var inp input
	if err := reg.Decode(in, &inp); err != nil {
		return nil, err
	}
	if inp.Corrupt {
		for i := range inp.Cases {
			if len(inp.Cases[i].Image) >= 2 {
				im := inp.Cases[i].Image
				im[0], im[1] = im[1], im[0]
				inp.Cases = inp.Cases[i : i+1]
				break
			}
		}
	}
	res := &reg.Result{}
	ctx := context.Background()
	work := reg.WorkDir()
	const workers = 16
	var wg sync.WaitGroup
	var emu sync.Mutex
	var firstErr error
	fail := func(err error) {
		emu.Lock()
		if firstErr == nil {
			firstErr = err
		}
		emu.Unlock()
	}
	for wk := 0; wk < workers; wk++ {
		wg.Add(1)
		go func(wk int) {
			defer wg.Done()
			dir := filepath.Join(work, fmt.Sprintf("image-%d", wk))
			defer os.RemoveAll(dir)
			for i := wk; i < len(inp.Cases); i += workers {
				c := inp.Cases[i]
				ms, sources, lines, err := Workspace(ctx, c, dir)
				if err != nil {
					fail(fmt.Errorf("workspace %v: %w", describe(c), err))
					return
				}
				res.Count(1, 0)
				caseInfo := describe(c)
				sel := "plain"
				if len(c.Paths) > 0 {
					sel = "path"
				}
				if len(c.Excludes) > 0 {
					sel += "+exclude"
				}
				if !(c.TargetA && c.TargetB) {
					sel += "+partial-targets"
				}
				image, err := bufx.BuildImageForModuleSet(ctx, ms)
				if c.NoTargets {
					if err == nil {
						res.Violate("no-targets-but-image/"+sel, caseInfo, "no file is targeted but BuildImage returned an image with %d files", len(image.Files()))
					}
					continue
				}
				if c.Error != "none" {
					var fas bufanalysis.FileAnnotationSet
					if err == nil {
						res.Violate("planted-error-not-reported/"+c.Planted, caseInfo, "the workspace has a planted %s error but BuildImage returned an image", c.Planted)
						continue
					}
					if !errors.As(err, &fas) {
						res.Violate("planted-error-not-annotated/"+c.Planted, caseInfo, "planted %s error: BuildImage failed without file annotations: %v", c.Planted, err)
						continue
					}
					found := false
					var seen []string
					wantPath := filepath.Join(dir, map[string]string{"a": "modA", "b": "modA", "c": "modA"}[c.Error], filepath.FromSlash(PathOf[c.Error]))
					for _, a := range fas.FileAnnotations() {
						p := "<nil>"
						if a.FileInfo() != nil {
							p = a.FileInfo().ExternalPath()
						}
						seen = append(seen, fmt.Sprintf("%s:%d:%d", p, a.StartLine(), a.StartColumn()))
						if p == wantPath && a.StartLine() == lines[c.Error] {
							found = true
						}
					}
					if !found {
						res.Violate("planted-error-misplaced/"+c.Planted, caseInfo, "planted %s error expected at %s:%d, annotations: %v", c.Planted, wantPath, lines[c.Error], seen)
					}
					continue
				}
				if err != nil {
					res.Violate("unexpected-build-error/"+sel, caseInfo, "BuildImage failed on a buildable workspace: %v", err)
					continue
				}
				// the ordered file list
				var got, want []string
				for _, f := range image.Files() {
					owner := "builtin"
					if f.FullName() != nil {
						owner = strings.ToUpper(f.FullName().Name())
					}
					var unused []int
					for _, u := range f.UnusedDependencyIndexes() {
						unused = append(unused, int(u))
					}
					got = append(got, fmt.Sprintf("%s import=%v owner=%s unused=%v nosyntax=%v", f.Path(), f.IsImport(), owner, unused, f.IsSyntaxUnspecified()))
				}
				for _, e := range c.Image {
					var unused []int
					unused = append(unused, e.Unused...)
					sort.Ints(unused)
					want = append(want, fmt.Sprintf("%s import=%v owner=%s unused=%v nosyntax=%v", PathOf[e.File], e.IsImport, e.Owner, unused, e.SyntaxUnspecified))
				}
				if strings.Join(got, "\n") != strings.Join(want, "\n") {
					class := "content"
					gs, ws := append([]string{}, got...), append([]string{}, want...)
					sort.Strings(gs)
					sort.Strings(ws)
					if strings.Join(gs, "\n") == strings.Join(ws, "\n") {
						class = "order"
					}
					res.Violate(fmt.Sprintf("image-files/%s/%s", class, sel), caseInfo, "image files differ from the specification:\n got:\n  %s\nwant:\n  %s", strings.Join(got, "\n  "), strings.Join(want, "\n  "))
					continue
				}
				// re-targeting the module set to the targets it already has (what lint and breaking do module by module)
				// must not change anything: files, flags, owners, commits
				if len(c.Paths) == 0 && len(c.Excludes) == 0 && (c.ProtoRef == "" || c.ProtoRef == "none") {
					var ids []string
					for _, m := range ms.Modules() {
						if m.IsTarget() {
							ids = append(ids, m.OpaqueID())
						}
					}
					ms2, rerr := ms.WithTargetOpaqueIDs(ids...)
					if rerr == nil {
						var image2 bufimage.Image
						image2, rerr = bufx.BuildImageForModuleSet(ctx, ms2)
						if rerr == nil {
							var a, b []string
							for _, f := range image.Files() {
								a = append(a, fmt.Sprintf("%s import=%v commit=%s", f.Path(), f.IsImport(), f.CommitID()))
							}
							for _, f := range image2.Files() {
								b = append(b, fmt.Sprintf("%s import=%v commit=%s", f.Path(), f.IsImport(), f.CommitID()))
							}
							if strings.Join(a, "\n") != strings.Join(b, "\n") {
								res.Violate("retarget-changes-image/"+sel, caseInfo, "after WithTargetOpaqueIDs(same targets) the image differs:\n before: %v\n after:  %v", a, b)
							}
						}
					}
					if rerr != nil {
						res.Violate("retarget-error/"+sel, caseInfo, "WithTargetOpaqueIDs(same targets) or the build after it failed: %v", rerr)
					}
				}
				// commit ids and descriptors
				for _, f := range image.Files() {
					if f.FullName() != nil {
						wantCommit := uuid.NewSHA1(uuid.Nil, []byte(strings.ToUpper(f.FullName().Name())))
						if f.CommitID() != wantCommit {
							res.Violate("commit-id/"+sel, caseInfo, "file %s carries commit %s, its module has %s", f.Path(), f.CommitID(), wantCommit)
						}
					}
					ref, err := compileIndependently(ctx, sources, f.Path())
					if err != nil {
						fail(fmt.Errorf("independent compile of %s: %w", f.Path(), err))
						return
					}
					if !proto.Equal(ref, f.FileDescriptorProto()) {
						res.Violate("descriptor/"+sel+"/"+map[bool]string{true: "import", false: "target"}[f.IsImport()], caseInfo,
							"descriptor of %s differs from an independent protocompile compilation of the same source (image has %d source info locations)", f.Path(),
							len(f.FileDescriptorProto().GetSourceCodeInfo().GetLocation()))
					}
				}
				// the image as it is written out (`buf build -o`): the same descriptors, file by file
				if pimg, err := bufimage.ImageToProtoImage(image); err != nil {
					res.Violate("serialized/error/"+sel, caseInfo, "ImageToProtoImage failed: %v", err)
				} else if data, err := proto.Marshal(pimg); err == nil {
					set := &descriptorpb.FileDescriptorSet{}
					// (an image is wire-compatible with a FileDescriptorSet; the buf extension is an unknown field there)
					if err := (proto.UnmarshalOptions{DiscardUnknown: true}).Unmarshal(data, set); err == nil {
						for k, f := range image.Files() {
							if k < len(set.File) && !proto.Equal(set.File[k], f.FileDescriptorProto()) {
								res.Violate("serialized/descriptor/"+sel, caseInfo, "the descriptor of %s in the serialized image differs from the descriptor of the built image (dependencies %v public %v weak %v vs %v public %v weak %v)",
									f.Path(), set.File[k].Dependency, set.File[k].PublicDependency, set.File[k].WeakDependency,
									f.FileDescriptorProto().Dependency, f.FileDescriptorProto().PublicDependency, f.FileDescriptorProto().WeakDependency)
								break
							}
						}
					}
				}
				if i < 2 {
					res.Sample(map[string]any{"workspace": caseInfo, "image": want})
				}
			}
		}(wk)
	}
	wg.Wait()
	if firstErr != nil {
		return nil, firstErr
	}
	res.Distinct = len(inp.Cases)
	return res, nil
}

var _ = bufimage.BuildImage

package configmodel

import (
	"bytes"
	"context"
	"fmt"
	"sort"
	"strings"

	"github.com/bufbuild/buf/private/bufpkg/bufconfig"
	"github.com/bufbuild/verifharness/internal/reg"
)

// Sample documents are generated from a small grammar given by the specification (see Samples.tla):
// each case names the file kind and the features switched on.
type sampleCase struct {
	Kind     string   `json:"kind"` // "gen-v2", "gen-v1", "lock-v2", "work"
	Features []string `json:"features"`
}
type sampleInput struct {
	Cases   []sampleCase `json:"cases"`
	Corrupt bool         `json:"corrupt"`
}

func has(fs []string, f string) bool {
	for _, x := range fs {
		if x == f {
			return true
		}
	}
	return false
}

func renderSample(c sampleCase) string {
	var sb strings.Builder
	switch c.Kind {
	case "gen-v2":
		sb.WriteString("version: v2\n")
		if has(c.Features, "clean") {
			sb.WriteString("clean: true\n")
		}
		if has(c.Features, "managed") {
			sb.WriteString("managed:\n  enabled: true\n  disable:\n    - file_option: java_package\n      path: a/b\n  override:\n    - file_option: go_package_prefix\n      value: example.com/x\n      module: buf.build/acme/pets\n")
		}
		sb.WriteString("plugins:\n  - local: protoc-gen-go\n    out: gen/go\n")
		if has(c.Features, "plugin-opts") {
			sb.WriteString("    opt:\n      - paths=source_relative\n      - x=y\n    include_imports: true\n    include_wkt: true\n    strategy: all\n")
		}
		if has(c.Features, "remote-plugin") {
			sb.WriteString("  - remote: buf.build/protocolbuffers/go:v1.31.0\n    out: gen/remote\n    revision: 2\n")
		}
		if has(c.Features, "plugin-types") {
			sb.WriteString("  - protoc_builtin: cpp\n    out: gen/cpp\n    types:\n      - a.v1.Foo\n    exclude_types:\n      - a.v1.Bar\n")
		}
		if has(c.Features, "builtin-strategy") {
			sb.WriteString("  - protoc_builtin: java\n    out: gen/java\n    strategy: all\n    include_imports: true\n")
		}
		sb.WriteString("inputs:\n")
		any := false
		if has(c.Features, "in-dir") {
			sb.WriteString("  - directory: proto\n    paths:\n      - proto/a\n    exclude_paths:\n      - proto/a/b\n")
			any = true
		}
		if has(c.Features, "in-module") {
			sb.WriteString("  - module: buf.build/acme/pets:main\n    types:\n      - acme.pets.v1.Pet\n    exclude_types:\n      - acme.pets.v1.Secret\n")
			any = true
		}
		if has(c.Features, "in-git-branch") {
			sb.WriteString("  - git_repo: https://example.com/r.git\n    branch: main\n    subdir: proto\n    depth: 3\n")
			any = true
		}
		if has(c.Features, "in-git-branch-ref") {
			sb.WriteString("  - git_repo: https://example.com/r.git\n    branch: release\n    ref: 7c0dc2fe4a2d27fb0b8b0c8e7c5a1f2d3e4f5a6b\n")
			any = true
		}
		if has(c.Features, "in-git-tag") {
			sb.WriteString("  - git_repo: https://example.com/r.git\n    tag: v1.2.3\n    recurse_submodules: true\n")
			any = true
		}
		if has(c.Features, "in-tar") {
			sb.WriteString("  - tarball: a/b.tar.gz\n    strip_components: 2\n    compression: gzip\n    subdir: x\n")
			any = true
		}
		if has(c.Features, "in-zip") {
			sb.WriteString("  - zip_archive: a/b.zip\n    strip_components: 1\n")
			any = true
		}
		if has(c.Features, "in-protofile") {
			sb.WriteString("  - proto_file: a/b.proto\n    include_package_files: true\n")
			any = true
		}
		if has(c.Features, "in-image") {
			sb.WriteString("  - binary_image: a/image.binpb\n    compression: zstd\n  - json_image: a/image.json\n  - yaml_image: a/image.yaml\n  - text_image: a/image.txtpb\n")
			any = true
		}
		if !any {
			sb.WriteString("  - directory: .\n")
		}
	case "gen-v1":
		sb.WriteString("version: v1\n")
		if has(c.Features, "managed") {
			sb.WriteString("managed:\n  enabled: true\n  cc_enable_arenas: false\n  java_multiple_files: true\n  java_package_prefix:\n    default: com\n    except:\n      - buf.build/googleapis/googleapis\n    override:\n      buf.build/acme/pets: org\n  go_package_prefix:\n    default: example.com/gen\n  optimize_for: CODE_SIZE\n")
		}
		sb.WriteString("plugins:\n  - plugin: go\n    out: gen/go\n")
		if has(c.Features, "plugin-opts") {
			sb.WriteString("    opt: paths=source_relative\n    strategy: directory\n")
		}
		if has(c.Features, "remote-plugin") {
			sb.WriteString("  - plugin: buf.build/protocolbuffers/go:v1.31.0\n    out: gen/remote\n")
		}
		if has(c.Features, "name-strategy") {
			sb.WriteString("  - name: java\n    out: gen/java\n    strategy: all\n")
		}
		if has(c.Features, "protoc-path-strategy") {
			sb.WriteString("  - plugin: cpp\n    out: gen/cpp\n    protoc_path: /usr/local/bin/protoc\n    strategy: all\n")
		}
	case "work":
		sb.WriteString("version: v1\ndirectories:\n  - b\n  - a\n")
		if has(c.Features, "three") {
			sb.WriteString("  - c/d\n")
		}
	}
	return sb.String()
}

func dumpGen(f bufconfig.BufGenYAMLFile) string {
	var sb strings.Builder
	g := f.GenerateConfig()
	fmt.Fprintf(&sb, "version=%v clean=%v\n", f.FileVersion(), g.CleanPluginOuts())
	for _, p := range g.GeneratePluginConfigs() {
		fmt.Fprintf(&sb, "plugin type=%v name=%s out=%s opt=%q imports=%v wkt=%v strategy=%v path=%v protoc=%v host=%s rev=%d types=%v exclude=%v\n",
			p.Type(), p.Name(), p.Out(), p.Opt(), p.IncludeImports(), p.IncludeWKT(), p.Strategy(), p.Path(), p.ProtocPath(), p.RemoteHost(), p.Revision(), p.IncludeTypes(), p.ExcludeTypes())
	}
	m := g.GenerateManagedConfig()
	fmt.Fprintf(&sb, "managed enabled=%v\n", m.Enabled())
	for _, d := range m.Disables() {
		fmt.Fprintf(&sb, "  disable path=%s module=%s field=%s fileopt=%v fieldopt=%v\n", d.Path(), d.FullName(), d.FieldName(), d.FileOption(), d.FieldOption())
	}
	for _, o := range m.Overrides() {
		fmt.Fprintf(&sb, "  override path=%s module=%s field=%s fileopt=%v fieldopt=%v value=%v\n", o.Path(), o.FullName(), o.FieldName(), o.FileOption(), o.FieldOption(), o.Value())
	}
	for _, in := range f.InputConfigs() {
		depth := "nil"
		if in.Depth() != nil {
			depth = fmt.Sprint(*in.Depth())
		}
		fmt.Fprintf(&sb, "input type=%v loc=%s compression=%s strip=%d subdir=%s branch=%s tag=%s ref=%s depth=%s recurse=%v pkgfiles=%v paths=%v exclude=%v types=%v excludeTypes=%v\n",
			in.Type(), in.Location(), in.Compression(), in.StripComponents(), in.SubDir(), in.Branch(), in.CommitOrTag(), in.Ref(), depth, in.RecurseSubmodules(),
			in.IncludePackageFiles(), in.TargetPaths(), in.ExcludePaths(), in.IncludeTypes(), in.ExcludeTypes())
	}
	return sb.String()
}

func featureSig(c sampleCase) string {
	fs := append([]string{}, c.Features...)
	sort.Strings(fs)
	return c.Kind + "/" + strings.Join(fs, "+")
}

func runSamples(in []byte) (*reg.Result, error) {
	var inp sampleInput
	if err := reg.Decode(in, &inp); err != nil {
		return nil, err
	}
	res := &reg.Result{}
	ctx := context.Background()
	_ = ctx
	for i, c := range inp.Cases {
		text := renderSample(c)
		caseInfo := map[string]any{"kind": c.Kind, "features": c.Features, "document": text}
		res.Count(1, 1)
		var dump1, dump2, w1, w2 string
		var err error
		switch {
		case strings.HasPrefix(c.Kind, "gen"):
			var f, f2 bufconfig.BufGenYAMLFile
			f, err = bufconfig.ReadBufGenYAMLFile(strings.NewReader(text))
			if err != nil {
				res.Violate("rejected/"+featureSig(c), caseInfo, "sample document rejected: %v", err)
				continue
			}
			dump1 = dumpGen(f)
			var b bytes.Buffer
			if err = bufconfig.WriteBufGenYAMLFile(&b, f); err != nil {
				res.Violate("write-error/"+featureSig(c), caseInfo, "write failed: %v", err)
				continue
			}
			w1 = b.String()
			f2, err = bufconfig.ReadBufGenYAMLFile(strings.NewReader(w1))
			if err != nil {
				res.Violate("reread-error/"+featureSig(c), map[string]any{"document": text, "written": w1}, "the written file cannot be read: %v", err)
				continue
			}
			dump2 = dumpGen(f2)
			var b2 bytes.Buffer
			_ = bufconfig.WriteBufGenYAMLFile(&b2, f2)
			w2 = b2.String()
			if c.Kind == "gen-v1" {
				// a v1 file is written as v2 (a migration: "plugin: go" becomes "local: protoc-gen-go"): what
				// must round-trip is the v2 form that was written
				f3, err := bufconfig.ReadBufGenYAMLFile(strings.NewReader(w2))
				if err != nil {
					res.Violate("reread-error/"+featureSig(c), map[string]any{"document": text, "written": w2}, "the re-written file cannot be read: %v", err)
					continue
				}
				dump1, dump2 = dump2, dumpGen(f3)
			}
		case c.Kind == "work":
			var f, f2 bufconfig.BufWorkYAMLFile
			f, err = bufconfig.ReadBufWorkYAMLFile(strings.NewReader(text), "buf.work.yaml")
			if err != nil {
				res.Violate("rejected/"+featureSig(c), caseInfo, "sample document rejected: %v", err)
				continue
			}
			dump1 = fmt.Sprint(f.DirPaths())
			var b bytes.Buffer
			_ = bufconfig.WriteBufWorkYAMLFile(&b, f)
			w1 = b.String()
			f2, err = bufconfig.ReadBufWorkYAMLFile(strings.NewReader(w1), "buf.work.yaml")
			if err != nil {
				res.Violate("reread-error/"+featureSig(c), caseInfo, "the written file cannot be read: %v", err)
				continue
			}
			dump2 = fmt.Sprint(f2.DirPaths())
			var b2 bytes.Buffer
			_ = bufconfig.WriteBufWorkYAMLFile(&b2, f2)
			w2 = b2.String()
		}
		if inp.Corrupt && i == 0 {
			dump2 += "corrupted"
		}
		if dump1 != dump2 {
			cls := featureSig(c)
			for _, l := range strings.Split(dump1, "\n") {
				if !strings.Contains(dump2, l) {
					switch {
					case strings.Contains(l, "excludeTypes=[") && !strings.Contains(l, "excludeTypes=[]") && strings.HasPrefix(l, "input"):
						cls = "input-types-or-exclude-types-not-written"
					case strings.HasPrefix(l, "input") && strings.Contains(l, "types=[") && !strings.Contains(l, " types=[] "):
						cls = "input-types-or-exclude-types-not-written"
					case strings.HasPrefix(l, "plugin") && (!strings.Contains(l, "types=[] ") || !strings.HasSuffix(l, "exclude=[]")):
						cls = "plugin-types-or-exclude-types-not-written"
					}
					break
				}
			}
			res.Violate("roundtrip/"+cls, map[string]any{"document": text, "written": w1}, "read, write, read changes the configuration:\n before:\n%s after:\n%s", dump1, dump2)
			continue
		}
		if w1 != w2 {
			res.Violate("not-idempotent/"+featureSig(c), map[string]any{"first": w1, "second": w2}, "writing is not idempotent")
		}
		if i < 2 {
			res.Sample(caseInfo)
		}
	}
	res.Distinct = len(inp.Cases)
	return res, nil
}

// Package configmodel binds specs/config/*.tla (C16) to the real configuration readers, writers and the migrator.
package configmodel

import (
	"bytes"
	"fmt"
	"sort"
	"strings"
	"sync"

	"github.com/bufbuild/buf/private/bufpkg/bufconfig"
	"github.com/bufbuild/verifharness/internal/reg"
)

func init() {
	reg.Register("config-bufyaml", runBufYAML)
	reg.Register("config-samples", runSamples)
	reg.Register("config-migrate", runMigrate)
}

type effRec struct {
	Kind       string     `json:"kind"`
	Use        []string   `json:"use"`
	Ignore     [][]string `json:"ignore"`
	IgnoreOnly [][]any    `json:"ignoreOnly"`
}
type modRec struct {
	Dir      []string `json:"dir"`
	Named    bool     `json:"named"`
	Include  bool     `json:"include"`
	Exclude  bool     `json:"exclude"`
	Lint     effRec   `json:"lint"`
	Breaking effRec   `json:"breaking"`
}
type yamlCase struct {
	Dir1    []string `json:"dir1"`
	Dir2    []string `json:"dir2"`
	Named1  bool     `json:"named1"`
	Inc1    bool     `json:"inc1"`
	Exc1    bool     `json:"exc1"`
	Lint1   string   `json:"lint1"`
	Lint2   string   `json:"lint2"`
	LintTop string   `json:"lintTop"`
	Br1     string   `json:"br1"`
	BrTop   string   `json:"brTop"`
	Modules []modRec `json:"modules"`
}
type yamlInput struct {
	Cases   []yamlCase `json:"cases"`
	Corrupt bool       `json:"corrupt"`
}

func dirStr(d []string) string {
	if len(d) == 0 {
		return "."
	}
	return strings.Join(d, "/")
}

func joinDir(d []string, rest string) string {
	if len(d) == 0 {
		return rest
	}
	return strings.Join(d, "/") + "/" + rest
}

func section(indent, name, kind string, d []string, dir2 []string) string {
	in := indent
	switch kind {
	case "c1":
		return in + name + ":\n" + in + "  use:\n" + in + "    - MINIMAL\n"
	case "c2":
		return in + name + ":\n" + in + "  use:\n" + in + "    - BASIC\n" + in + "  ignore:\n" + in + "    - " + joinDir(d, "ign") + "\n"
	case "off":
		return in + name + ":\n" + in + "  ignore:\n" + in + "    - " + dirStr(d) + "\n"
	case "b1":
		return in + name + ":\n" + in + "  use:\n" + in + "    - WIRE\n"
	case "b2":
		return in + name + ":\n" + in + "  use:\n" + in + "    - FILE\n" + in + "  ignore:\n" + in + "    - " + joinDir(d, "ign") + "\n" +
			in + "  ignore_only:\n" + in + "    FIELD_NO_DELETE:\n" + in + "      - " + joinDir(d, "legacy") + "\n"
	case "b2top":
		m2 := dir2
		if len(dir2) == 1 && dir2[0] == "-" {
			m2 = []string{"b"}
		}
		return in + name + ":\n" + in + "  use:\n" + in + "    - FILE\n" + in + "  ignore:\n" + in + "    - " + joinDir(m2, "ign2") + "\n" +
			in + "  ignore_only:\n" + in + "    FIELD_NO_DELETE:\n" + in + "      - " + joinDir(m2, "legacy") + "\n"
	case "c2top":
		m2 := dir2
		if len(dir2) == 1 && dir2[0] == "-" {
			m2 = []string{"b"}
		}
		return in + name + ":\n" + in + "  use:\n" + in + "    - BASIC\n" + in + "  ignore:\n" + in + "    - " + joinDir(m2, "ign2") + "\n" +
			in + "  ignore_only:\n" + in + "    ENUM_PASCAL_CASE:\n" + in + "      - " + joinDir(m2, "legacy") + "\n"
	}
	return ""
}

func renderYAML(c yamlCase) string {
	var sb strings.Builder
	sb.WriteString("version: v2\nmodules:\n")
	sb.WriteString("  - path: " + dirStr(c.Dir1) + "\n")
	if c.Named1 {
		sb.WriteString("    name: buf.test/verif/m1\n")
	}
	if c.Inc1 {
		sb.WriteString("    includes:\n      - " + joinDir(c.Dir1, "inc1") + "\n")
	}
	if c.Exc1 {
		if c.Inc1 {
			sb.WriteString("    excludes:\n      - " + joinDir(c.Dir1, "inc1/ex") + "\n")
		} else {
			sb.WriteString("    excludes:\n      - " + joinDir(c.Dir1, "ex") + "\n")
		}
	}
	sb.WriteString(section("    ", "lint", c.Lint1, c.Dir1, c.Dir2))
	sb.WriteString(section("    ", "breaking", c.Br1, c.Dir1, c.Dir2))
	if !(len(c.Dir2) == 1 && c.Dir2[0] == "-") {
		sb.WriteString("  - path: " + dirStr(c.Dir2) + "\n")
		sb.WriteString(section("    ", "lint", c.Lint2, c.Dir2, c.Dir2))
	}
	sb.WriteString(section("", "lint", c.LintTop, nil, c.Dir2))
	sb.WriteString(section("", "breaking", c.BrTop, nil, c.Dir2))
	return sb.String()
}

// dumpCheck renders the accessor values of a check config canonically.
func dumpCheck(cc bufconfig.CheckConfig) string {
	if cc == nil {
		return "<nil>"
	}
	if cc.Disabled() {
		return "disabled"
	}
	use := append([]string{}, cc.UseIDsAndCategories()...)
	sort.Strings(use)
	exc := append([]string{}, cc.ExceptIDsAndCategories()...)
	sort.Strings(exc)
	ign := append([]string{}, cc.IgnorePaths()...)
	sort.Strings(ign)
	var io []string
	for k, v := range cc.IgnoreIDOrCategoryToPaths() {
		vv := append([]string{}, v...)
		sort.Strings(vv)
		io = append(io, k+"="+strings.Join(vv, "+"))
	}
	sort.Strings(io)
	return fmt.Sprintf("use=%v except=%v ignore=%v ignore_only=%v", use, exc, ign, io)
}

func dumpLint(lc bufconfig.LintConfig) string {
	if lc == nil {
		return "<nil>"
	}
	return dumpCheck(lc) + fmt.Sprintf(" suffix=%q/%q same=%v emptyreq=%v emptyresp=%v comments=%v", lc.EnumZeroValueSuffix(), lc.ServiceSuffix(),
		lc.RPCAllowSameRequestResponse(), lc.RPCAllowGoogleProtobufEmptyRequests(), lc.RPCAllowGoogleProtobufEmptyResponses(), lc.AllowCommentIgnores())
}

func dumpBreaking(bc bufconfig.BreakingConfig) string {
	if bc == nil {
		return "<nil>"
	}
	return dumpCheck(bc) + fmt.Sprintf(" unstable=%v", bc.IgnoreUnstablePackages())
}

func dumpModule(m bufconfig.ModuleConfig) string {
	name := ""
	if m.FullName() != nil {
		name = m.FullName().String()
	}
	rm := func(mm map[string][]string) string {
		var l []string
		for k, v := range mm {
			vv := append([]string{}, v...)
			sort.Strings(vv)
			l = append(l, k+":"+strings.Join(vv, "+"))
		}
		sort.Strings(l)
		return strings.Join(l, ",")
	}
	return fmt.Sprintf("dir=%s name=%s includes={%s} excludes={%s}\n    lint: %s\n    breaking: %s", m.DirPath(), name, rm(m.RootToIncludes()), rm(m.RootToExcludes()),
		dumpLint(m.LintConfig()), dumpBreaking(m.BreakingConfig()))
}

func dumpFile(f bufconfig.BufYAMLFile) string {
	var l []string
	for _, m := range f.ModuleConfigs() {
		l = append(l, dumpModule(m))
	}
	sort.Strings(l)
	var deps []string
	for _, d := range f.ConfiguredDepModuleRefs() {
		deps = append(deps, d.String())
	}
	return strings.Join(l, "\n") + fmt.Sprintf("\ndeps=%v plugins=%d", deps, len(f.PluginConfigs()))
}

// expectEff renders the specification's effective config in the same canonical form as dumpCheck.
func expectEff(e effRec, defaultUse string) string {
	switch e.Kind {
	case "disabled":
		return "disabled"
	case "default":
		return fmt.Sprintf("use=%v except=[] ignore=[] ignore_only=[]", defaultUse)
	}
	use := append([]string{}, e.Use...)
	sort.Strings(use)
	var ign []string
	for _, p := range e.Ignore {
		ign = append(ign, strings.Join(p, "/"))
	}
	sort.Strings(ign)
	var io []string
	for _, x := range e.IgnoreOnly {
		var parts []string
		for _, comp := range x[1].([]any) {
			parts = append(parts, comp.(string))
		}
		io = append(io, x[0].(string)+"="+strings.Join(parts, "/"))
	}
	sort.Strings(io)
	u := fmt.Sprint(use)
	if len(use) == 0 {
		u = defaultUse
	}
	return fmt.Sprintf("use=%v except=[] ignore=%v ignore_only=%v", u, ign, io)
}

func runBufYAML(in []byte) (*reg.Result, error) {
	var inp yamlInput
	if err := reg.Decode(in, &inp); err != nil {
		return nil, err
	}
	if inp.Corrupt {
		for i := range inp.Cases {
			if inp.Cases[i].Modules[0].Lint.Kind == "enabled" {
				inp.Cases[i].Modules[0].Lint.Kind = "disabled"
				inp.Cases = inp.Cases[i : i+1]
				break
			}
		}
	}
	res := &reg.Result{}
	const workers = 16
	var wg sync.WaitGroup
	for wk := 0; wk < workers; wk++ {
		wg.Add(1)
		go func(wk int) {
			defer wg.Done()
			for i := wk; i < len(inp.Cases); i += workers {
				c := inp.Cases[i]
				text := renderYAML(c)
				caseInfo := map[string]any{"buf.yaml": text}
				res.Count(1, 0)
				f, err := bufconfig.ReadBufYAMLFile(strings.NewReader(text), "buf.yaml")
				if err != nil {
					res.Violate("rejected/"+shape(c), caseInfo, "a document accepted by the specification is rejected by the reader: %v", err)
					continue
				}
				// (1) the reader produces the effective configuration of the specification
				byDir := map[string]bufconfig.ModuleConfig{}
				for _, m := range f.ModuleConfigs() {
					byDir[m.DirPath()] = m
				}
				for _, mr := range c.Modules {
					m := byDir[dirStr(mr.Dir)]
					if m == nil {
						res.Violate("read/module-missing/"+shape(c), caseInfo, "module %s is missing after reading", dirStr(mr.Dir))
						continue
					}
					gotL := strings.SplitN(dumpLint(m.LintConfig()), " suffix=", 2)[0]
					gotB := strings.SplitN(dumpBreaking(m.BreakingConfig()), " unstable=", 2)[0]
					// the default sections are compared by their use lists only
					wantL := expectEff(mr.Lint, fmt.Sprint(defaultUse(m.LintConfig(), mr.Lint)))
					wantB := expectEff(mr.Breaking, fmt.Sprint(defaultUse(m.BreakingConfig(), mr.Breaking)))
					if gotL != wantL {
						res.Violate("read/lint/"+shape(c), caseInfo, "module %s: lint configuration after reading is\n  %s\nthe specification says\n  %s", dirStr(mr.Dir), gotL, wantL)
					}
					if gotB != wantB {
						res.Violate("read/breaking/"+shape(c), caseInfo, "module %s: breaking configuration after reading is\n  %s\nthe specification says\n  %s", dirStr(mr.Dir), gotB, wantB)
					}
				}
				// (2) write, read again: the same configuration; (3) writing is idempotent
				var w1 bytes.Buffer
				if err := bufconfig.WriteBufYAMLFile(&w1, f); err != nil {
					res.Violate("write-error/"+shape(c), caseInfo, "writing failed: %v", err)
					continue
				}
				f2, err := bufconfig.ReadBufYAMLFile(bytes.NewReader(w1.Bytes()), "buf.yaml")
				if err != nil {
					res.Violate("reread-error/"+shape(c), caseInfo, "the written file cannot be read: %v\n%s", err, w1.String())
					continue
				}
				if d1, d2 := dumpFile(f), dumpFile(f2); d1 != d2 {
					res.Violate("roundtrip/"+roundTripClass(c, d1, d2), map[string]any{"buf.yaml": text, "written": w1.String()},
						"read, write, read changes the configuration:\n before:\n%s\n after:\n%s", d1, d2)
					continue
				}
				var w2 bytes.Buffer
				if err := bufconfig.WriteBufYAMLFile(&w2, f2); err == nil && w1.String() != w2.String() {
					res.Violate("not-idempotent/"+shape(c), map[string]any{"first": w1.String(), "second": w2.String()}, "writing what was written and read gives a different file")
				}
				if i < 2 {
					res.Sample(map[string]any{"buf.yaml": text})
				}
			}
		}(wk)
	}
	wg.Wait()
	res.Distinct = len(inp.Cases)
	return res, nil
}

func defaultUse(cc bufconfig.CheckConfig, e effRec) []string {
	if cc == nil {
		return nil
	}
	u := append([]string{}, cc.UseIDsAndCategories()...)
	sort.Strings(u)
	if e.Kind == "default" || len(e.Use) == 0 {
		return u
	}
	return nil
}

func shape(c yamlCase) string {
	n := 2
	if len(c.Dir2) == 1 && c.Dir2[0] == "-" {
		n = 1
	}
	return fmt.Sprintf("modules=%d/dir1=%s/lint=%s,%s,top=%s/breaking=%s,top=%s/inc=%v/exc=%v", n, dirStr(c.Dir1), c.Lint1, c.Lint2, c.LintTop, c.Br1, c.BrTop, c.Inc1, c.Exc1)
}

// roundTripClass names the known ways in which the round trip loses information, else the document shape.
func roundTripClass(c yamlCase, before, after string) string {
	single := len(c.Dir2) == 1 && c.Dir2[0] == "-"
	strip := func(s string) string {
		// drop include information
		var out []string
		for _, l := range strings.Split(s, "\n") {
			if i := strings.Index(l, " includes={"); i >= 0 {
				l = l[:i]
			}
			out = append(out, l)
		}
		return strings.Join(out, "\n")
	}
	if single && len(c.Dir1) == 0 && c.Inc1 && !c.Exc1 && strip(before) == strip(after) {
		return "includes-of-single-root-module-dropped"
	}
	if strings.Contains(before, "disabled") && !strings.Contains(after, "disabled") {
		return "disabled-check-config-written-as-default"
	}
	return shape(c)
}

package configmodel

import (
	"bytes"
	"context"
	"errors"
	"fmt"
	"io/fs"
	"os"
	"path/filepath"
	"sort"
	"strings"

	"github.com/bufbuild/buf/private/buf/bufmigrate"
	"github.com/bufbuild/buf/private/buf/buftarget"
	"github.com/bufbuild/buf/private/buf/bufworkspace"
	"github.com/bufbuild/buf/private/bufpkg/bufconfig"
	"github.com/bufbuild/buf/private/bufpkg/bufmodule"
	"github.com/bufbuild/buf/private/bufpkg/bufmodule/bufmoduletesting"
	"github.com/bufbuild/buf/private/bufpkg/bufparse"
	"github.com/bufbuild/buf/private/bufpkg/bufplugin"
	"github.com/bufbuild/buf/private/pkg/storage/storageos"
	"github.com/bufbuild/verifharness/internal/bufx"
	"github.com/bufbuild/verifharness/internal/reg"
	"github.com/google/uuid"
)

type migCase struct {
	Layout      string   `json:"layout"`
	Version     string   `json:"version"`
	LintUse     string   `json:"lintUse"`
	EmptyReq    bool     `json:"emptyReq"`
	EmptyResp   bool     `json:"emptyResp"`
	IgnoreFile  bool     `json:"ignoreFile"`
	BreakingUse string   `json:"breakingUse"`
	Second      string   `json:"second"`
	Deps        string   `json:"deps"`
	Build       string   `json:"build"`
	Pins        []string `json:"pins"`
	Declared    []string `json:"declared"`
}
type migInput struct {
	Cases   []migCase `json:"cases"`
	Corrupt bool      `json:"corrupt"`
}

func moduleSource(pkg string) map[string]string {
	return map[string]string{
		pkg + "/v1/svc.proto": `syntax = "proto3";
package ` + pkg + `.v1;
import "google/protobuf/empty.proto";
message GetRequest { string id = 1; }
message GetResponse { string id = 1; }
service ThingService {
  rpc TakesEmpty(google.protobuf.Empty) returns (GetResponse);
  rpc GivesEmpty(GetRequest) returns (google.protobuf.Empty);
}
`,
		pkg + "/v1/ignored.proto": `syntax = "proto3";
package ` + pkg + `.v1;
message bad_name { string BadField = 1; }
`,
	}
}

func v1BufYAML(version, lintUse string, emptyReq, emptyResp, ignoreFile bool, breakingUse, pkg string) string {
	var sb strings.Builder
	sb.WriteString("version: " + version + "\n")
	if lintUse != "default" || emptyReq || emptyResp || ignoreFile {
		sb.WriteString("lint:\n")
		if lintUse != "default" {
			sb.WriteString("  use:\n    - " + lintUse + "\n")
		}
		if emptyReq {
			sb.WriteString("  rpc_allow_google_protobuf_empty_requests: true\n")
		}
		if emptyResp {
			sb.WriteString("  rpc_allow_google_protobuf_empty_responses: true\n")
		}
		if ignoreFile {
			sb.WriteString("  ignore:\n    - " + pkg + "/v1/ignored.proto\n")
		}
	}
	if breakingUse != "default" {
		sb.WriteString("breaking:\n  use:\n    - " + breakingUse + "\n")
	}
	return sb.String()
}

const directName, transitiveName = "buf.test/acme/direct", "buf.test/acme/transitive"

// depsProvider serves the two remote modules of the dependency dimension (direct imports transitive).
func depsProvider() (bufmoduletesting.OmniProvider, error) {
	return bufmoduletesting.NewOmniProvider(
		bufmoduletesting.ModuleData{Name: transitiveName, CommitID: uuid.MustParse("55555555-5555-4555-8555-555555555555"), PathToData: map[string][]byte{
			"transitive/v1/transitive.proto": []byte("syntax = \"proto3\";\npackage transitive.v1;\nmessage Transitive {}\n")}},
		bufmoduletesting.ModuleData{Name: directName, CommitID: uuid.MustParse("66666666-6666-4666-8666-666666666666"), PathToData: map[string][]byte{
			"direct/v1/direct.proto": []byte("syntax = \"proto3\";\npackage direct.v1;\nimport \"transitive/v1/transitive.proto\";\nmessage Direct { transitive.v1.Transitive t = 1; }\n")}},
	)
}

// writeDeps adds `deps:` to the buf.yaml of the first module and writes its buf.lock (b4 digests, as v1 locks have them).
func writeDeps(ctx context.Context, root string, c migCase) error {
	if c.Deps == "" || c.Deps == "none" {
		return nil
	}
	dir := root
	if c.Layout != "single" {
		dir = filepath.Join(root, "m1")
	}
	yamlPath := filepath.Join(dir, "buf.yaml")
	data, err := os.ReadFile(yamlPath)
	if err != nil {
		return err
	}
	if err := os.WriteFile(yamlPath, append(data, []byte("deps:\n  - "+directName+"\n")...), 0o644); err != nil {
		return err
	}
	omni, err := depsProvider()
	if err != nil {
		return err
	}
	var refs []bufparse.Ref
	names := []string{directName}
	if c.Deps == "transitive" {
		names = append(names, transitiveName)
	}
	for _, n := range names {
		ref, err := bufparse.ParseRef(n)
		if err != nil {
			return err
		}
		refs = append(refs, ref)
	}
	keys, err := omni.GetModuleKeysForModuleRefs(ctx, refs, bufmodule.DigestTypeB4)
	if err != nil {
		return err
	}
	version := bufconfig.FileVersionV1
	if c.Version == "v1beta1" {
		version = bufconfig.FileVersionV1Beta1
	}
	lock, err := bufconfig.NewBufLockFile(version, keys, nil)
	if err != nil {
		return err
	}
	bucket, err := storageos.NewProvider().NewReadWriteBucket(dir)
	if err != nil {
		return err
	}
	return bufconfig.PutBufLockFileForPrefix(ctx, bucket, ".", lock)
}

// pins reads name -> commit of the buf.lock in dir ("" if there is none).
func pins(ctx context.Context, dir string) (map[string]string, error) {
	bucket, err := storageos.NewProvider().NewReadWriteBucket(dir)
	if err != nil {
		return nil, err
	}
	lock, err := bufconfig.GetBufLockFileForPrefix(ctx, bucket, ".")
	if err != nil {
		if errors.Is(err, fs.ErrNotExist) {
			return map[string]string{}, nil
		}
		return nil, err
	}
	out := map[string]string{}
	for _, k := range lock.DepModuleKeys() {
		out[k.FullName().String()] = k.CommitID().String()
	}
	return out, nil
}

// buildSection is the build section of the first module: an excluded directory (with a proto file in it that must
// stay out of the module) and, for v1beta1, an explicit root.
func buildSection(c migCase) string {
	switch c.Build {
	case "excludes":
		return "build:\n  excludes:\n    - acme/internal\n"
	case "roots":
		return "build:\n  roots:\n    - .\n"
	case "roots+excludes":
		return "build:\n  roots:\n    - .\n  excludes:\n    - acme/internal\n"
	}
	return ""
}

func materialize(root string, c migCase) error {
	if err := os.RemoveAll(root); err != nil {
		return err
	}
	write := func(rel, content string) error {
		p := filepath.Join(root, filepath.FromSlash(rel))
		if err := os.MkdirAll(filepath.Dir(p), 0o755); err != nil {
			return err
		}
		return os.WriteFile(p, []byte(content), 0o644)
	}
	if c.Layout == "single" {
		for p, s := range moduleSource("acme") {
			if err := write(p, s); err != nil {
				return err
			}
		}
		if c.Build == "excludes" || c.Build == "roots+excludes" {
			// (the file does not even compile together with the others: it only stays harmless while it is excluded)
			if err := write("acme/internal/scratch.proto", "syntax = \"proto3\";\npackage acme.v1;\nmessage GetRequest { string scratch = 1; }\n"); err != nil {
				return err
			}
		}
		return write("buf.yaml", v1BufYAML(c.Version, c.LintUse, c.EmptyReq, c.EmptyResp, c.IgnoreFile, c.BreakingUse, "acme")+buildSection(c))
	}
	if err := write("buf.work.yaml", "version: v1\ndirectories:\n  - m1\n  - m2\n"); err != nil {
		return err
	}
	for p, s := range moduleSource("acme") {
		if err := write("m1/"+p, s); err != nil {
			return err
		}
	}
	if c.Build == "excludes" || c.Build == "roots+excludes" {
		if err := write("m1/acme/internal/scratch.proto", "syntax = \"proto3\";\npackage acme.v1;\nmessage GetRequest { string scratch = 1; }\n"); err != nil {
			return err
		}
	}
	if err := write("m1/buf.yaml", v1BufYAML(c.Version, c.LintUse, c.EmptyReq, c.EmptyResp, c.IgnoreFile, c.BreakingUse, "acme")+buildSection(c)); err != nil {
		return err
	}
	for p, s := range moduleSource("other") {
		if err := write("m2/"+p, s); err != nil {
			return err
		}
	}
	if c.Second == "configured" {
		return write("m2/buf.yaml", v1BufYAML("v1", "MINIMAL", false, true, false, "default", "other"))
	}
	return nil
}

// evaluate loads the workspace at root and returns, per module directory, the files built, the lint
// annotations and the breaking configuration in effect.
func evaluate(ctx context.Context, root string, withDeps bool) (map[string]string, error) {
	bucket, err := storageos.NewProvider(storageos.ProviderWithSymlinks()).NewReadWriteBucket(root, storageos.ReadWriteBucketWithSymlinksIfSupported())
	if err != nil {
		return nil, err
	}
	targeting, err := buftarget.NewBucketTargeting(ctx, bufx.Logger, bucket, ".", nil, nil, buftarget.TerminateAtControllingWorkspace)
	if err != nil {
		return nil, err
	}
	var graphs bufmodule.GraphProvider = bufmodule.NopGraphProvider
	var datas bufmodule.ModuleDataProvider = bufmodule.NopModuleDataProvider
	var commits bufmodule.CommitProvider = bufmodule.NopCommitProvider
	if withDeps {
		omni, err := depsProvider()
		if err != nil {
			return nil, err
		}
		graphs, datas, commits = omni, omni, omni
	}
	ws, err := bufworkspace.NewWorkspaceProvider(bufx.Logger, graphs, datas, commits, bufplugin.NopPluginKeyProvider).
		GetWorkspaceForBucket(ctx, bucket, targeting)
	if err != nil {
		return nil, err
	}
	client, err := bufx.CheckClient(ctx)
	if err != nil {
		return nil, err
	}
	out := map[string]string{}
	for _, m := range ws.Modules() {
		if !m.IsLocal() {
			continue
		}
		id := m.OpaqueID()
		one, err := ws.WithTargetOpaqueIDs(id)
		if err != nil {
			return nil, err
		}
		image, err := bufx.BuildImageForModuleSet(ctx, one)
		if err != nil {
			return nil, fmt.Errorf("build %s: %w", id, err)
		}
		var files []string
		for _, f := range image.Files() {
			files = append(files, fmt.Sprintf("%s(import=%v)", f.Path(), f.IsImport()))
		}
		lintErr := client.Lint(ctx, ws.GetLintConfigForOpaqueID(id), image)
		as, ok := bufx.Annotations(lintErr)
		if !ok {
			return nil, fmt.Errorf("lint %s: %w", id, lintErr)
		}
		var lint []string
		for _, a := range as {
			lint = append(lint, fmt.Sprintf("%s:%d:%d:%s", a.Path, a.StartLine, a.StartCol, a.Type))
		}
		sort.Strings(lint)
		bc := ws.GetBreakingConfigForOpaqueID(id)
		rules, err := client.ConfiguredRules(ctx, 2, bc) // check.RuleTypeBreaking
		if err != nil {
			return nil, err
		}
		var br []string
		for _, r := range rules {
			br = append(br, r.ID())
		}
		sort.Strings(br)
		out[strings.TrimSuffix(id, "/")] = fmt.Sprintf("files=%v\nlint=%v\nbreaking-rules=%v", files, lint, br)
	}
	return out, nil
}

type nopKeys struct{}

func (nopKeys) GetModuleKeysForModuleRefs(context.Context, []bufparse.Ref, bufmodule.DigestType) ([]bufmodule.ModuleKey, error) {
	return nil, os.ErrNotExist
}

func runMigrate(in []byte) (*reg.Result, error) {
	var inp migInput
	if err := reg.Decode(in, &inp); err != nil {
		return nil, err
	}
	res := &reg.Result{}
	ctx := context.Background()
	work := reg.WorkDir()
	root := filepath.Join(work, "migrate", "ws")
	defer os.RemoveAll(filepath.Join(work, "migrate"))
	for i, c := range inp.Cases {
		if err := materialize(root, c); err != nil {
			return nil, err
		}
		if err := writeDeps(ctx, root, c); err != nil {
			return nil, err
		}
		// the v1 / v1beta1 documents themselves round-trip: read, write in their own version, read again
		for _, rel := range []string{"buf.yaml", "m1/buf.yaml", "m2/buf.yaml"} {
			data, err := os.ReadFile(filepath.Join(root, filepath.FromSlash(rel)))
			if err != nil {
				continue
			}
			f1, err := bufconfig.ReadBufYAMLFile(bytes.NewReader(data), "buf.yaml")
			if err != nil {
				continue // judged by the migration itself
			}
			var out bytes.Buffer
			info := map[string]any{"file": rel, "document": string(data)}
			sig := fmt.Sprintf("version=%s/build=%s", f1.FileVersion(), c.Build)
			if err := bufconfig.WriteBufYAMLFile(&out, f1); err != nil {
				res.Violate("roundtrip-old-version/write-error/"+sig, info, "writing a %s buf.yaml failed: %v", f1.FileVersion(), err)
				continue
			}
			info["written"] = out.String()
			f2, err := bufconfig.ReadBufYAMLFile(bytes.NewReader(out.Bytes()), "buf.yaml")
			if err != nil {
				res.Violate("roundtrip-old-version/reread-error/"+sig, info, "the written %s buf.yaml is rejected: %v", f1.FileVersion(), err)
				continue
			}
			if a, b := dumpFile(f1), dumpFile(f2); a != b || f1.FileVersion() != f2.FileVersion() {
				res.Violate("roundtrip-old-version/changed/"+sig, info, "read-write-read of a %s buf.yaml changes the configuration:\nbefore\n%s\nafter\n%s", f1.FileVersion(), a, b)
			}
		}
		withDeps := c.Deps != "" && c.Deps != "none"
		lockDir := root
		if c.Layout != "single" {
			lockDir = filepath.Join(root, "m1")
		}
		pinsBefore, err := pins(ctx, lockDir)
		if err != nil {
			return nil, err
		}
		caseInfo := map[string]any{"workspace": c}
		before, err := evaluate(ctx, root, withDeps)
		if err != nil {
			return nil, fmt.Errorf("case %v before migration: %w", c, err)
		}
		bucket, err := storageos.NewProvider().NewReadWriteBucket(root)
		if err != nil {
			return nil, err
		}
		migrator := bufmigrate.NewMigrator(bufx.Logger, nopKeys{}, bufmodule.NopCommitProvider)
		if withDeps {
			omni, err := depsProvider()
			if err != nil {
				return nil, err
			}
			migrator = bufmigrate.NewMigrator(bufx.Logger, omni, omni)
		}
		res.Count(1, 1)
		sig := fmt.Sprintf("layout=%s/version=%s/lint=%s/req=%v/resp=%v/ignore=%v/breaking=%s/second=%s/deps=%s", c.Layout, c.Version, c.LintUse, c.EmptyReq, c.EmptyResp, c.IgnoreFile, c.BreakingUse, c.Second, c.Deps)
		if err := bufmigrate.MigrateAll(ctx, migrator, bucket, nil); err != nil {
			res.Violate("migrate-error/"+sig, caseInfo, "migration failed: %v", err)
			continue
		}
		// the pins of the old buf.lock are the pins of the new one (at the workspace root), same commits
		pinsAfter, err := pins(ctx, root)
		if err != nil {
			res.Violate("lock-unreadable/"+sig, caseInfo, "the migrated buf.lock cannot be read: %v", err)
			continue
		}
		if inp.Corrupt && withDeps {
			delete(pinsAfter, directName)
		}
		for name, commit := range pinsBefore {
			if pinsAfter[name] != commit {
				res.Violate(fmt.Sprintf("pin-lost/deps=%s/layout=%s/version=%s", c.Deps, c.Layout, c.Version), map[string]any{"workspace": c, "before": pinsBefore, "after": pinsAfter},
					"the old buf.lock pins %s at %s, the migrated one has %q", name, commit, pinsAfter[name])
			}
		}
		if len(pinsAfter) != len(c.Pins) {
			res.Violate(fmt.Sprintf("pin-count/deps=%s/layout=%s/version=%s", c.Deps, c.Layout, c.Version), map[string]any{"workspace": c, "before": pinsBefore, "after": pinsAfter},
				"the migrated buf.lock has %d pins, the specification expects %v", len(pinsAfter), c.Pins)
		}
		after, err := evaluate(ctx, root, withDeps)
		if err != nil {
			asig := "after-error/" + sig
			if c.Version == "v1beta1" && strings.Contains(err.Error(), "\"FIELD_NO_DESCRIPTOR\" is not a known rule") {
				asig = "migrated-config-unusable/v1beta1-lint-selection-contains-FIELD_NO_DESCRIPTOR"
			}
			res.Violate(asig, caseInfo, "the migrated workspace cannot be evaluated: %v", err)
			continue
		}
		if inp.Corrupt && i == 0 {
			for k := range after {
				after[k] += "corrupted"
			}
		}
		// module ids change with the layout (".", "m1"); compare in sorted order of ids
		var kb, ka []string
		for k := range before {
			kb = append(kb, k)
		}
		for k := range after {
			ka = append(ka, k)
		}
		sort.Strings(kb)
		sort.Strings(ka)
		if len(kb) != len(ka) {
			res.Violate("modules/"+sig, caseInfo, "modules before %v, after %v", kb, ka)
			continue
		}
		yaml, _ := os.ReadFile(filepath.Join(root, "buf.yaml"))
		for j := range kb {
			if before[kb[j]] != after[ka[j]] {
				class := "lint"
				bl, al := strings.Split(before[kb[j]], "\n"), strings.Split(after[ka[j]], "\n")
				if bl[0] != al[0] {
					class = "files"
				} else if bl[1] == al[1] {
					class = "breaking"
				}
				known := ""
				if class == "lint" && c.Version == "v1beta1" && c.LintUse == "default" {
					known = "/v1beta1-default-lint"
				}
				res.Violate(fmt.Sprintf("behaviour-changed/%s%s/%s", class, known, sig), map[string]any{"workspace": c, "migrated buf.yaml": string(yaml)},
					"module %s behaves differently after migration:\n before:\n%s\n after:\n%s", kb[j], before[kb[j]], after[ka[j]])
			}
		}
		if i < 2 {
			res.Sample(map[string]any{"workspace": c, "migrated buf.yaml": string(yaml)})
		}
	}
	res.Distinct = len(inp.Cases)
	return res, nil
}

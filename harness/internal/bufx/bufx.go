// Package bufx holds helpers shared by the replay packages: building module sets and images from
// path -> data maps in process, creating check clients and configs, printing annotations.
package bufx

import (
	"context"
	"errors"
	"io"
	"log/slog"
	"sort"
	"strings"
	"sync"

	"github.com/bufbuild/buf/private/bufpkg/bufanalysis"
	"github.com/bufbuild/buf/private/bufpkg/bufcheck"
	"github.com/bufbuild/buf/private/bufpkg/bufconfig"
	"github.com/bufbuild/buf/private/bufpkg/bufimage"
	"github.com/bufbuild/buf/private/bufpkg/bufmodule"
	"github.com/bufbuild/buf/private/bufpkg/bufmodule/bufmoduletesting"
	"github.com/bufbuild/buf/private/bufpkg/bufplugin"
	"github.com/bufbuild/buf/private/pkg/protoencoding"
	"github.com/bufbuild/buf/private/pkg/storage"
	"github.com/bufbuild/buf/private/pkg/storage/storagemem"
	"github.com/bufbuild/buf/private/pkg/wasm"
)

// Logger discards everything.
var Logger = slog.New(slog.NewTextHandler(io.Discard, nil))

// ModuleSet builds a module set from testing module datas.
func ModuleSet(moduleDatas ...bufmoduletesting.ModuleData) (bufmodule.ModuleSet, error) {
	return bufmoduletesting.NewModuleSet(moduleDatas...)
}

// BuildImageForModuleSet builds the image of the targeted modules of a module set.
func BuildImageForModuleSet(ctx context.Context, ms bufmodule.ModuleSet, opts ...bufimage.BuildImageOption) (bufimage.Image, error) {
	return bufimage.BuildImage(ctx, Logger, bufmodule.ModuleSetToModuleReadBucketWithOnlyProtoFiles(ms), opts...)
}

// BuildImage builds an image from one anonymous module given as path -> data.
func BuildImage(ctx context.Context, files map[string]string, opts ...bufimage.BuildImageOption) (bufimage.Image, error) {
	b, err := Bucket(files)
	if err != nil {
		return nil, err
	}
	return BuildImageForBucket(ctx, b, opts...)
}

// BuildImageForBucket builds an image from one anonymous module given as a bucket.
func BuildImageForBucket(ctx context.Context, b storage.ReadBucket, opts ...bufimage.BuildImageOption) (bufimage.Image, error) {
	ms, err := bufmoduletesting.NewModuleSetForBucket(b)
	if err != nil {
		return nil, err
	}
	return BuildImageForModuleSet(ctx, ms, opts...)
}

// Bucket makes a memory bucket.
func Bucket(files map[string]string) (storage.ReadBucket, error) {
	m := make(map[string][]byte, len(files))
	for k, v := range files {
		m[k] = []byte(v)
	}
	return storagemem.NewReadBucket(m)
}

// MarshalImage gives the deterministic wire bytes of an image.
func MarshalImage(image bufimage.Image) ([]byte, error) {
	p, err := bufimage.ImageToProtoImage(image)
	if err != nil {
		return nil, err
	}
	return protoencoding.NewWireMarshaler().Marshal(p)
}

var (
	clientOnce sync.Once
	client     bufcheck.Client
	clientErr  error
)

// CheckClient returns a process-wide check client (builtin rules only).
func CheckClient(ctx context.Context) (bufcheck.Client, error) {
	clientOnce.Do(func() {
		rt, err := wasm.NewRuntime(ctx)
		if err != nil {
			clientErr = err
			return
		}
		client, clientErr = bufcheck.NewClient(Logger, bufcheck.NewLocalRunnerProvider(rt, bufplugin.NopPluginKeyProvider, bufplugin.NopPluginDataProvider))
	})
	return client, clientErr
}

// Annotation is a flattened file annotation.
type Annotation struct {
	Path      string `json:"path"`
	StartLine int    `json:"start_line"`
	StartCol  int    `json:"start_column"`
	EndLine   int    `json:"end_line"`
	EndCol    int    `json:"end_column"`
	Type      string `json:"type"`
	Message   string `json:"message"`
}

// Annotations extracts the annotations of a check error (nil error -> none). ok=false if err is something else.
func Annotations(err error) ([]Annotation, bool) {
	if err == nil {
		return nil, true
	}
	var fas bufanalysis.FileAnnotationSet
	if !errors.As(err, &fas) {
		return nil, false
	}
	var out []Annotation
	for _, a := range fas.FileAnnotations() {
		p := ""
		if a.FileInfo() != nil {
			p = a.FileInfo().Path()
		}
		out = append(out, Annotation{p, a.StartLine(), a.StartColumn(), a.EndLine(), a.EndColumn(), a.Type(), a.Message()})
	}
	return out, true
}

// AnnotationText prints annotations one per line (in the order given).
func AnnotationText(as []Annotation) string {
	var sb strings.Builder
	for _, a := range as {
		sb.WriteString(a.Path + ":" + itoa(a.StartLine) + ":" + itoa(a.StartCol) + ":" + a.Type + ":" + a.Message + "\n")
	}
	return sb.String()
}

func itoa(i int) string {
	return strings.TrimSpace(strings.Join([]string{intToString(i)}, ""))
}

func intToString(i int) string {
	if i == 0 {
		return "0"
	}
	neg := i < 0
	if neg {
		i = -i
	}
	var b []byte
	for i > 0 {
		b = append([]byte{byte('0' + i%10)}, b...)
		i /= 10
	}
	if neg {
		b = append([]byte{'-'}, b...)
	}
	return string(b)
}

// SortedKeys returns the sorted keys of a map.
func SortedKeys[V any](m map[string]V) []string {
	out := make([]string, 0, len(m))
	for k := range m {
		out = append(out, k)
	}
	sort.Strings(out)
	return out
}

// LintConfig builds a lint config.
func LintConfig(version bufconfig.FileVersion, use, except, ignore []string, ignoreOnly map[string][]string, allowCommentIgnores bool) (bufconfig.LintConfig, error) {
	cc, err := bufconfig.NewEnabledCheckConfig(version, use, except, ignore, ignoreOnly, false)
	if err != nil {
		return nil, err
	}
	return bufconfig.NewLintConfig(cc, "", false, false, false, "", allowCommentIgnores), nil
}

// BreakingConfig builds a breaking config.
func BreakingConfig(version bufconfig.FileVersion, use, except, ignore []string, ignoreOnly map[string][]string, ignoreUnstable bool) (bufconfig.BreakingConfig, error) {
	cc, err := bufconfig.NewEnabledCheckConfig(version, use, except, ignore, ignoreOnly, false)
	if err != nil {
		return nil, err
	}
	return bufconfig.NewBreakingConfig(cc, ignoreUnstable), nil
}

// Package authmodel replays specs/auth/Auth.tla (C19) against the real credential path:
// bufcli.NewConnectClientConfig (BUF_TOKEN parsing, the .netrc provider over a real file, the
// authorization interceptor provider) -> connectclient.Make -> a real connect client whose transport
// records the Authorization header each registry host would receive.
package authmodel

import (
	"context"
	"fmt"
	"io"
	"net/http"
	"os"
	"path/filepath"
	"sort"
	"strings"
	"sync"

	modulev1connect "buf.build/gen/go/bufbuild/registry/connectrpc/go/buf/registry/module/v1/modulev1connect"
	modulev1 "buf.build/gen/go/bufbuild/registry/protocolbuffers/go/buf/registry/module/v1"
	"connectrpc.com/connect"
	"github.com/bufbuild/buf/private/buf/bufcli"
	"github.com/bufbuild/buf/private/pkg/app"
	"github.com/bufbuild/buf/private/pkg/app/appext"
	"github.com/bufbuild/buf/private/pkg/connectclient"
	"github.com/bufbuild/verifharness/internal/bufx"
	"github.com/bufbuild/verifharness/internal/reg"
)

func init() { reg.Register("auth-replay", run) }

type caseRec struct {
	Tok  []string            `json:"tok"`
	Kind string              `json:"kind"`
	Env  map[string][]string `json:"env"`
}

type netrcEntry struct {
	Machine  string `json:"machine"`
	Password string `json:"password"`
}
type netrcRec struct {
	Entries []netrcEntry      `json:"entries"`
	Expect  map[string]string `json:"expect"`
}

type input struct {
	Cases   []caseRec  `json:"cases"`
	Netrcs  []netrcRec `json:"netrcs"`
	Corrupt bool       `json:"corrupt"`
}

// rendering of symbols and hosts
var hostName = map[string]string{
	"h1":  "registry-one.test",
	"h2":  "registry-two.test:8443",
	"h3":  "registry-three.test",
	"xh1": "evil-registry-one.test",
	"h1x": "registry-one.test.evil.test",
	"h1p": "registry-one.test:8443",
	"h2n": "registry-two.test",
}
var symText = map[string]string{"t": "tA", "u": "uB", "@": "@", ",": ",", ":": ":", "h1": hostName["h1"], "h2": hostName["h2"]}
var pwText = map[string]string{"n1": "netrc-pw-one", "n2": "netrc-pw-two", "nd": "netrc-pw-default", "": ""}
var reqHosts = []string{"h1", "h2", "h3", "xh1", "h1x", "h1p", "h2n"}

func render(syms []string) string {
	var sb strings.Builder
	for _, s := range syms {
		sb.WriteString(symText[s])
	}
	return sb.String()
}

// recorder is the transport of the connect clients: it records the Authorization header per URL host.
type recorder struct {
	mu   sync.Mutex
	seen map[string][]string
}

func (r *recorder) Do(req *http.Request) (*http.Response, error) {
	r.mu.Lock()
	r.seen[req.URL.Host] = append(r.seen[req.URL.Host], req.Header.Get("Authorization"))
	r.mu.Unlock()
	return &http.Response{StatusCode: 404, Status: "404 Not Found", Header: http.Header{"Content-Type": []string{"text/plain"}},
		Body: io.NopCloser(strings.NewReader("not found")), Request: req, Proto: "HTTP/1.1", ProtoMajor: 1, ProtoMinor: 1}, nil
}

func container(home string, token string, netrcPath string) (appext.Container, error) {
	env := map[string]string{"HOME": home, "BUF_TOKEN": token, "NETRC": netrcPath, "BUF_CONFIG_DIR": filepath.Join(home, "cfg"), "BUF_CACHE_DIR": filepath.Join(home, "cache")}
	base := app.NewContainer(env, nil, io.Discard, io.Discard)
	nc, err := appext.NewNameContainer(base, "buf")
	if err != nil {
		return nil, err
	}
	return appext.NewContainer(nc, bufx.Logger), nil
}

// ask makes one request to host through a client made from cfg and returns the Authorization header seen.
func ask(ctx context.Context, cfg *connectclient.Config, rec *recorder, host string) string {
	client := connectclient.Make(cfg, hostName[host], func(_ connect.HTTPClient, address string, opts ...connect.ClientOption) modulev1connect.ModuleServiceClient {
		return modulev1connect.NewModuleServiceClient(rec, address, opts...)
	})
	rec.mu.Lock()
	before := len(rec.seen[hostName[host]])
	rec.mu.Unlock()
	_, _ = client.GetModules(ctx, connect.NewRequest(&modulev1.GetModulesRequest{}))
	rec.mu.Lock()
	defer rec.mu.Unlock()
	l := rec.seen[hostName[host]]
	if len(l) <= before {
		return "<no request reached the transport>"
	}
	return l[len(l)-1]
}

// writeNetrc writes the entries in an order that depends on variant: as given, reversed, or with the default entry
// first (a .netrc is a list: the entry of a host counts wherever it stands, the default entry only when none does).
func writeNetrc(path string, n netrcRec, variant int) error {
	var sb strings.Builder
	entries := append([]netrcEntry{}, n.Entries...)
	switch variant % 3 {
	case 1:
		for l, r := 0, len(entries)-1; l < r; l, r = l+1, r-1 {
			entries[l], entries[r] = entries[r], entries[l]
		}
	case 2:
		sort.SliceStable(entries, func(i, j int) bool { return entries[i].Machine == "default" && entries[j].Machine != "default" })
	}
	for _, e := range entries {
		if e.Machine == "default" {
			fmt.Fprintf(&sb, "default\n  login user\n  password %s\n", pwText[e.Password])
			continue
		}
		if pwText[e.Password] == "" {
			fmt.Fprintf(&sb, "machine %s\n  login user\n", hostName[e.Machine])
			continue
		}
		fmt.Fprintf(&sb, "machine %s\n  login user\n  password %s\n", hostName[e.Machine], pwText[e.Password])
	}
	return os.WriteFile(path, []byte(sb.String()), 0o600)
}

func perms(rot int) []string {
	all := [][]string{
		{"h1", "h2", "h3", "xh1", "h1x", "h1p", "h2n"}, {"h1p", "h3", "h1", "xh1", "h2n", "h2", "h1x"}, {"xh1", "h1x", "h2n", "h3", "h2", "h1p", "h1"},
		{"h2", "h2n", "h3", "h1", "h1p", "h1x", "xh1"}, {"h1x", "h3", "h1p", "h2", "xh1", "h1", "h2n"}, {"h3", "h2n", "h2", "h1p", "h1", "xh1", "h1x"},
	}
	return all[rot%len(all)]
}

func run(in []byte) (*reg.Result, error) {
	var inp input
	if err := reg.Decode(in, &inp); err != nil {
		return nil, err
	}
	if inp.Corrupt {
		for i := range inp.Cases {
			if inp.Cases[i].Kind == "multi" {
				// claim the host-keyed token of h1 must also go to h3
				for _, h := range []string{"h1", "h2"} {
					if len(inp.Cases[i].Env[h]) > 0 {
						inp.Cases[i].Env["h3"] = inp.Cases[i].Env[h]
						inp.Cases = inp.Cases[i : i+1]
						goto done
					}
				}
			}
		}
	done:
	}
	res := &reg.Result{}
	ctx := context.Background()
	work := reg.WorkDir()
	const workers = 16
	var wg sync.WaitGroup
	var emu sync.Mutex
	var firstErr error
	for wk := 0; wk < workers; wk++ {
		wg.Add(1)
		go func(wk int) {
			defer wg.Done()
			home := filepath.Join(work, fmt.Sprintf("auth-%d", wk))
			_ = os.MkdirAll(home, 0o755)
			defer os.RemoveAll(home)
			netrcPath := filepath.Join(home, "netrc")
			for i := wk; i < len(inp.Cases); i += workers {
				c := inp.Cases[i]
				tokStr := render(c.Tok)
				var nets []netrcRec
				if i%40 == 0 {
					nets = inp.Netrcs
				} else {
					nets = []netrcRec{inp.Netrcs[i%len(inp.Netrcs)]}
				}
				for ni, n := range nets {
					if err := writeNetrc(netrcPath, n, i+ni); err != nil {
						emu.Lock()
						firstErr = err
						emu.Unlock()
						return
					}
					cont, err := container(home, tokStr, netrcPath)
					if err != nil {
						emu.Lock()
						firstErr = err
						emu.Unlock()
						return
					}
					cfg, err := bufcli.NewConnectClientConfig(cont)
					res.Count(1, 0)
					caseInfo := map[string]any{"BUF_TOKEN": tokStr, "syms": c.Tok, "kind": c.Kind, "netrc": n.Entries}
					if c.Kind == "error" {
						if err == nil {
							res.Violate("malformed-accepted/"+strings.Join(c.Tok, " "), caseInfo, "BUF_TOKEN %q is malformed per the specification but was accepted", tokStr)
						}
						continue
					}
					if err != nil {
						// over-rejection is not what the property is about; count only
						res.SetExtra("rejected_wellformed_example", tokStr)
						continue
					}
					rec := &recorder{seen: map[string][]string{}}
					for _, h := range perms(i + ni) {
						got := ask(ctx, cfg, rec, h)
						want := ""
						src := "none"
						if env := c.Env[h]; len(env) > 0 {
							want = "Bearer " + render(env)
							src = "env"
						} else if pw := pwText[n.Expect[h]]; pw != "" {
							want = "Bearer " + pw
							src = "netrc"
						}
						res.Count(1, 0)
						if got != want {
							ci := map[string]any{"BUF_TOKEN": tokStr, "syms": c.Tok, "netrc": n.Entries, "host": hostName[h], "order": perms(i + ni), "got": got, "want": want}
							class := "wrong-credential"
							if want == "" {
								class = "leak"
							} else if got == "" {
								class = "missing"
							}
							res.Violate(fmt.Sprintf("%s/host=%s/expected-source=%s", class, h, src), ci,
								"request to %s carried Authorization %q, the specification requires %q (BUF_TOKEN=%q)", hostName[h], got, want, tokStr)
						}
					}
				}
				if i < 3 {
					res.Sample(map[string]any{"BUF_TOKEN": tokStr, "kind": c.Kind, "env": c.Env})
				}
			}
		}(wk)
	}
	wg.Wait()
	if firstErr != nil {
		return nil, firstErr
	}
	// concurrent construction of clients for two registries from one configuration
	if !inp.Corrupt {
		home := filepath.Join(work, "auth-conc")
		_ = os.MkdirAll(home, 0o755)
		defer os.RemoveAll(home)
		netrcPath := filepath.Join(home, "netrc")
		_ = os.WriteFile(netrcPath, nil, 0o600)
		tok := "tA@" + hostName["h1"] + ",uB@" + hostName["h2"]
		rounds := 400
		if reg.Thorough() {
			rounds = 4000
		}
		for r := 0; r < rounds; r++ {
			cont, err := container(home, tok, netrcPath)
			if err != nil {
				return nil, err
			}
			cfg, err := bufcli.NewConnectClientConfig(cont)
			if err != nil {
				return nil, err
			}
			rec := &recorder{seen: map[string][]string{}}
			var cw sync.WaitGroup
			start := make(chan struct{})
			got := make([]string, 2)
			for k, h := range []string{"h1", "h2"} {
				cw.Add(1)
				go func(k int, h string) {
					defer cw.Done()
					<-start
					got[k] = ask(ctx, cfg, rec, h)
				}(k, h)
			}
			close(start)
			cw.Wait()
			res.Count(1, 0)
			if got[0] != "Bearer tA" || got[1] != "Bearer uB" {
				res.Violate("leak/concurrent-clients", map[string]any{"BUF_TOKEN": tok, "got_h1": got[0], "got_h2": got[1], "round": r},
					"clients for two registries made concurrently from one configuration: %s received %q, %s received %q", hostName["h1"], got[0], hostName["h2"], got[1])
				break
			}
		}
	}
	res.Distinct = len(inp.Cases)
	return res, nil
}

// Package faults binds specs/storage/StorageFaults.tla (C15) to the real code.
//
// "faults-replay": every terminal state emitted by TLC (fault plan -> outcome) is replayed on the real
// compound operations with a fault-injecting WriteBucket wrapper keyed by (object, step, occurrence).
// "faults-atomic": the real storageos atomic writer is observed at every primitive step through the
// verif hooks (visibility), with real rename failures, real write failures (RLIMIT_FSIZE, in a child
// process) and real SIGKILLs at every kill point (child process).
package faults

import (
	"archive/tar"
	"bytes"
	"context"
	"errors"
	"fmt"
	"io"
	"io/fs"
	"log/slog"
	"os"
	"os/exec"
	"os/signal"
	"path/filepath"
	"sort"
	"strings"
	"sync"
	"syscall"

	"github.com/bufbuild/buf/private/bufpkg/bufcas"
	"github.com/bufbuild/buf/private/bufpkg/bufprotoplugin"
	"github.com/bufbuild/buf/private/pkg/storage"
	"github.com/bufbuild/buf/private/pkg/storage/storagearchive"
	"github.com/bufbuild/buf/private/pkg/storage/storagemem"
	"github.com/bufbuild/buf/private/pkg/storage/storageos"
	"github.com/bufbuild/buf/private/pkg/thread"
	"github.com/bufbuild/buf/private/pkg/verifhook"
	"github.com/bufbuild/verifharness/internal/reg"
	"github.com/klauspost/compress/zip"
	"google.golang.org/protobuf/proto"
	"google.golang.org/protobuf/types/pluginpb"
)

func init() {
	reg.Register("faults-replay", runReplay)
	reg.Register("faults-atomic", runAtomic)
	reg.Register("faults-child", runChild)
}

var errInjected = errors.New("injected fault")

// ---------------------------------------------------------------- fault-injecting wrapper

type faultKey struct {
	file  int
	step  string
	chunk int
}

// injectedError is the error a failing primitive returns, by identity kind: the specification abstracts from the
// identity of a failure (ErrKinds); whatever it is, it must be reported.
func injectedError(kind, what, path string) error {
	switch kind {
	case "notexist":
		return &fs.PathError{Op: what, Path: path, Err: syscall.ENOENT}
	case "exist":
		return &fs.PathError{Op: what, Path: path, Err: syscall.EEXIST}
	case "permission":
		return &fs.PathError{Op: what, Path: path, Err: syscall.EACCES}
	case "eof":
		return io.EOF
	case "unexpected-eof":
		return fmt.Errorf("%s %s: %w", what, path, io.ErrUnexpectedEOF)
	case "canceled":
		return context.Canceled
	case "deadline":
		return fmt.Errorf("%s %s: %w", what, path, context.DeadlineExceeded)
	case "closed":
		return fmt.Errorf("%s %s: %w", what, path, fs.ErrClosed)
	}
	return fmt.Errorf("%s %s: %w", what, path, errInjected)
}

type faultBucket struct {
	storage.WriteBucket
	kind     string
	mu       sync.Mutex
	plan     map[faultKey]bool
	consumed map[faultKey]bool
	fileOf   func(path string) int
}

func (b *faultBucket) hit(k faultKey) bool {
	b.mu.Lock()
	defer b.mu.Unlock()
	if b.plan[k] {
		b.consumed[k] = true
		return true
	}
	return false
}

func (b *faultBucket) Put(ctx context.Context, path string, opts ...storage.PutOption) (storage.WriteObjectCloser, error) {
	f := b.fileOf(path)
	if b.hit(faultKey{f, "put", 0}) {
		return nil, injectedError(b.kind, "put", path)
	}
	w, err := b.WriteBucket.Put(ctx, path, opts...)
	if err != nil {
		return nil, err
	}
	return &faultWriter{WriteObjectCloser: w, b: b, file: f}, nil
}

type faultWriter struct {
	storage.WriteObjectCloser
	b      *faultBucket
	file   int
	writes int
}

func (w *faultWriter) Write(p []byte) (int, error) {
	w.writes++
	if w.b.hit(faultKey{w.file, "write", w.writes}) {
		// a failing write that got half of the data out (a short write with its error)
		n, _ := w.WriteObjectCloser.Write(p[:len(p)/2])
		return n, injectedError(w.b.kind, "write", "")
	}
	return w.WriteObjectCloser.Write(p)
}

func (w *faultWriter) Close() error {
	if w.b.hit(faultKey{w.file, "close", 0}) {
		return injectedError(w.b.kind, "close", "")
	}
	return w.WriteObjectCloser.Close()
}

// ---------------------------------------------------------------- cases

// Case is one terminal state emitted by TLC.
type Case struct {
	Mode    string   `json:"mode"`
	Kind    string   `json:"kind"`
	Atomic  bool     `json:"atomic"`
	NChunks int      `json:"nchunks"`
	Init    []string `json:"init"`
	Plan    [][]any  `json:"plan"`
	Ret     string   `json:"ret"`
	JobErr  []bool   `json:"jobErr"`
	Dest    []string `json:"dest"`
	Tmp     []bool   `json:"tmp"`
	Count   int      `json:"count"`
	Started []bool   `json:"started"`
	// ErrKinds: the identities of the injected failure the plan is replayed with
	ErrKinds []string `json:"errKinds"`
}

func (c Case) planKey() string {
	var l []string
	for _, p := range c.Plan {
		l = append(l, fmt.Sprint(p...))
	}
	sort.Strings(l)
	return strings.Join(l, ",")
}

func content(f int, nchunks int) []byte {
	if nchunks <= 1 {
		return []byte(fmt.Sprintf("NEW-content-of-file-%d", f))
	}
	// two io.Copy chunks: 32768 + rest
	return bytes.Repeat([]byte(fmt.Sprintf("%d-0123456789abcde", f%10)), 40000/17)
}

func prevContent(f int) []byte { return []byte(fmt.Sprintf("PREV-%d", f)) }

func fileName(f int) string { return fmt.Sprintf("f%d.txt", f) }

func fileOf(path string) int {
	var f int
	_, _ = fmt.Sscanf(filepath.Base(path), "f%d.txt", &f)
	return f
}

type dest struct {
	kind string
	dir  string
	b    storage.ReadWriteBucket
}

func newDest(kind, dir string) (*dest, error) {
	d := &dest{kind: kind, dir: dir}
	if kind == "mem" {
		d.b = storagemem.NewReadWriteBucket()
		return d, nil
	}
	if err := os.RemoveAll(dir); err != nil {
		return nil, err
	}
	if err := os.MkdirAll(dir, 0o755); err != nil {
		return nil, err
	}
	b, err := storageos.NewProvider().NewReadWriteBucket(dir)
	if err != nil {
		return nil, err
	}
	d.b = b
	return d, nil
}

// classify says what a reader of the path sees.
func (d *dest) classify(ctx context.Context, f int, nchunks int) string {
	var data []byte
	var err error
	if d.kind == "mem" {
		data, err = storage.ReadPath(ctx, d.b, fileName(f))
	} else {
		data, err = os.ReadFile(filepath.Join(d.dir, fileName(f)))
	}
	if err != nil {
		return "none"
	}
	switch {
	case bytes.Equal(data, content(f, nchunks)):
		return "new"
	case bytes.Equal(data, prevContent(f)):
		return "prev"
	default:
		return "partial"
	}
}

func (d *dest) temps() []string {
	if d.kind == "mem" {
		return nil
	}
	var out []string
	entries, _ := os.ReadDir(d.dir)
	for _, e := range entries {
		if !strings.HasPrefix(e.Name(), "f") || !strings.HasSuffix(e.Name(), ".txt") || fileOf(e.Name()) == 0 || e.Name() != fileName(fileOf(e.Name())) {
			out = append(out, e.Name())
		}
	}
	return out
}

// opsFor lists the real operations that realise a (mode, nfiles, nchunks) shape.
func opsFor(c Case) []string {
	n := len(c.Init)
	var ops []string
	if c.Mode == "all" {
		ops = append(ops, "copy")
		if n == 1 {
			ops = append(ops, "copypath", "copyreader", "copyreadobject")
			if c.NChunks == 1 {
				ops = append(ops, "putpath")
			}
		}
	} else {
		ops = append(ops, "untar", "unzip")
		if c.NChunks == 1 {
			ops = append(ops, "fileset", "response")
		}
	}
	return ops
}

func runOp(ctx context.Context, op string, c Case, src storage.ReadBucket, dst storage.WriteBucket) (error, int) {
	n := len(c.Init)
	var copyOpts []storage.CopyOption
	var putOpts []storage.PutOption
	if c.Atomic {
		copyOpts = append(copyOpts, storage.CopyWithAtomic())
		putOpts = append(putOpts, storage.PutWithAtomic())
	}
	switch op {
	case "copy":
		cnt, err := storage.Copy(ctx, src, dst, copyOpts...)
		return err, cnt
	case "copypath":
		return storage.CopyPath(ctx, src, fileName(1), dst, fileName(1), copyOpts...), -1
	case "copyreader":
		return storage.CopyReader(ctx, dst, onlyReader{bytes.NewReader(content(1, c.NChunks))}, fileName(1)), -1
	case "copyreadobject":
		r, err := src.Get(ctx, fileName(1))
		if err != nil {
			return err, -1
		}
		defer r.Close()
		return storage.CopyReadObject(ctx, dst, r, copyOpts...), -1
	case "putpath":
		return storage.PutPath(ctx, dst, fileName(1), content(1, c.NChunks), putOpts...), -1
	case "neg-swallow":
		_ = storage.PutPath(ctx, dst, fileName(1), content(1, c.NChunks), putOpts...)
		return nil, -1
	case "untar":
		var buf bytes.Buffer
		tw := tar.NewWriter(&buf)
		for f := 1; f <= n; f++ {
			data := content(f, c.NChunks)
			_ = tw.WriteHeader(&tar.Header{Typeflag: tar.TypeReg, Name: fileName(f), Size: int64(len(data)), Mode: 0o644})
			_, _ = tw.Write(data)
		}
		_ = tw.Close()
		return storagearchive.Untar(ctx, &buf, dst), -1
	case "unzip":
		var buf bytes.Buffer
		zw := zip.NewWriter(&buf)
		for f := 1; f <= n; f++ {
			w, _ := zw.CreateHeader(&zip.FileHeader{Name: fileName(f), Method: zip.Store})
			_, _ = w.Write(content(f, c.NChunks))
		}
		_ = zw.Close()
		return storagearchive.Unzip(ctx, bytes.NewReader(buf.Bytes()), int64(buf.Len()), dst), -1
	case "fileset":
		fs, err := bufcas.NewFileSetForBucket(ctx, src)
		if err != nil {
			return fmt.Errorf("harness: %w", err), -2
		}
		return bufcas.PutFileSetToBucket(ctx, fs, dst), -1
	case "response":
		resp := &pluginpb.CodeGeneratorResponse{}
		for f := 1; f <= n; f++ {
			resp.File = append(resp.File, &pluginpb.CodeGeneratorResponse_File{Name: proto.String(fileName(f)), Content: proto.String(string(content(f, c.NChunks)))})
		}
		return bufprotoplugin.NewResponseWriter(slog.New(slog.NewTextHandler(io.Discard, nil))).WriteResponse(ctx, dst, resp), -1
	}
	return fmt.Errorf("harness: unknown op %s", op), -2
}

// opKinds is the product of operations and error identities.
func opKinds(ops, kinds []string) [][2]string {
	var out [][2]string
	for _, o := range ops {
		for _, k := range kinds {
			out = append(out, [2]string{o, k})
		}
	}
	return out
}

type onlyReader struct{ r io.Reader }

func (o onlyReader) Read(p []byte) (int, error) { return o.r.Read(p) }

type replayInput struct {
	Cases   []Case `json:"cases"`
	Corrupt bool   `json:"corrupt"`
	// Parallelism > 0: thread.Parallelism for this run (only the operations built on thread.Parallelize are replayed)
	Parallelism int `json:"parallelism"`
}

func runReplay(in []byte) (*reg.Result, error) {
	var inp replayInput
	if err := reg.Decode(in, &inp); err != nil {
		return nil, err
	}
	res := &reg.Result{}
	ctx := context.Background()
	work := reg.WorkDir()
	if inp.Parallelism > 0 {
		thread.SetParallelism(inp.Parallelism)
		defer thread.SetParallelism(16)
	}
	const workers = 16
	var wg sync.WaitGroup
	var emu sync.Mutex
	var firstErr error
	divergences := map[string]int{}
	skipped := 0
	distinct := map[string]bool{}
	for wk := 0; wk < workers; wk++ {
		wg.Add(1)
		go func(wk int) {
			defer wg.Done()
			dir := filepath.Join(work, fmt.Sprintf("faults-%d", wk))
			defer os.RemoveAll(dir)
			for i := wk; i < len(inp.Cases); i += workers {
				c := inp.Cases[i]
				if c.Ret == "killed" {
					continue
				}
				n := len(c.Init)
				ops := opsFor(c)
				if inp.Parallelism > 0 {
					ops = nil
					if c.Mode == "all" {
						ops = []string{"copy"}
					}
				}
				if inp.Corrupt {
					// negative control: an operation that swallows the error (the oracle must object)
					ops = []string{"neg-swallow"}
				}
				kinds := c.ErrKinds
				if len(kinds) == 0 || len(c.Plan) == 0 || inp.Corrupt {
					kinds = []string{"plain"}
				}
				for _, opk := range opKinds(ops, kinds) {
					op, errKind := opk[0], opk[1]
					// source
					srcMap := map[string][]byte{}
					for f := 1; f <= n; f++ {
						srcMap[fileName(f)] = content(f, c.NChunks)
					}
					src, err := storagemem.NewReadBucket(srcMap)
					if err != nil {
						emu.Lock()
						firstErr = err
						emu.Unlock()
						return
					}
					d, err := newDest(c.Kind, filepath.Join(dir, "dst"))
					if err != nil {
						emu.Lock()
						firstErr = err
						emu.Unlock()
						return
					}
					for f := 1; f <= n; f++ {
						if c.Init[f-1] == "prev" {
							if err := storage.PutPath(ctx, d.b, fileName(f), prevContent(f)); err != nil {
								emu.Lock()
								firstErr = err
								emu.Unlock()
								return
							}
						}
					}
					fb := &faultBucket{WriteBucket: d.b, kind: errKind, plan: map[faultKey]bool{}, consumed: map[faultKey]bool{}, fileOf: fileOf}
					for _, p := range c.Plan {
						fb.plan[faultKey{int(p[0].(float64)), p[1].(string), int(p[2].(float64))}] = true
					}
					opErr, cnt := runOp(ctx, op, c, src, fb)
					if cnt == -2 {
						emu.Lock()
						firstErr = opErr
						emu.Unlock()
						return
					}
					res.Count(1, 0)
					if len(fb.consumed) != len(fb.plan) {
						emu.Lock()
						skipped++
						emu.Unlock()
						continue
					}
					got := make([]string, n)
					for f := 1; f <= n; f++ {
						got[f-1] = d.classify(ctx, f, c.NChunks)
					}
					ret := "ok"
					if opErr != nil {
						ret = "err"
					}
					caseInfo := map[string]any{"op": op, "case": c, "got_ret": ret, "got_dest": got, "got_count": cnt, "err": fmt.Sprint(opErr)}
					sig := fmt.Sprintf("%s/%s/atomic=%v/plan=%s", op, c.Kind, c.Atomic, c.planKey())
					if inp.Parallelism > 0 {
						sig += fmt.Sprintf("/parallelism=%d", inp.Parallelism)
					}
					if errKind != "plain" {
						sig += "/error=" + errKind
						caseInfo["error_identity"] = errKind
					}
					emu.Lock()
					distinct[sig+fmt.Sprint(c.Init)] = true
					emu.Unlock()
					// the property: success is never reported while output is missing or truncated,
					// and a consumed fault is reported
					if ret == "ok" && c.Ret == "err" {
						res.Violate("unreported/"+sig, caseInfo, "%s with faults %s returned nil; the specification requires an error (destination: %v)", op, c.planKey(), got)
					}
					if ret == "ok" {
						for f := 1; f <= n; f++ {
							if got[f-1] != "new" {
								res.Violate("success-but-incomplete/"+sig, caseInfo, "%s returned nil but %s is %s", op, fileName(f), got[f-1])
							}
						}
						if op == "copy" && cnt != n {
							res.Violate("count/"+sig, caseInfo, "Copy returned nil and count %d for %d objects", cnt, n)
						}
					}
					if op == "copy" {
						complete := 0
						for _, g := range got {
							if g == "new" {
								complete++
							}
						}
						if cnt > complete {
							res.Violate("count/"+sig, caseInfo, "Copy reported %d copied objects but only %d are complete at the destination", cnt, complete)
						}
					}
					// everything else is a divergence between model and code that the property does not forbid
					if ret != c.Ret || fmt.Sprint(got) != fmt.Sprint(c.Dest) || (op == "copy" && cnt != c.Count) {
						emu.Lock()
						divergences[fmt.Sprintf("%s/%s spec(ret=%s dest=%v) code(ret=%s dest=%v)", op, c.Kind, c.Ret, c.Dest, ret, got)]++
						emu.Unlock()
					}
				}
			}
		}(wk)
	}
	wg.Wait()
	if firstErr != nil {
		return nil, firstErr
	}
	res.Distinct = len(distinct)
	res.SetExtra("model_divergences_not_forbidden_by_property", divergences)
	res.SetExtra("plans_not_applicable_to_operation", skipped)
	for i := 0; i < len(inp.Cases) && i < 3; i++ {
		res.Sample(inp.Cases[len(inp.Cases)-1-i])
	}
	return res, nil
}

// ---------------------------------------------------------------- the real disk atomic writer

type atomicInput struct {
	Exe string `json:"exe"`
}

type obs struct {
	Point string `json:"point"`
	Dest  string `json:"dest"`
	Temps int    `json:"temps"`
}

func observeDir(dir string, f int, nchunks int) (string, int) {
	d := &dest{kind: "os", dir: dir}
	return d.classify(context.Background(), f, nchunks), len(d.temps())
}

// atomicPutObserved performs one atomic put on a real disk bucket and observes the directory at every step.
// fault: "", "rename-enoent" (temp removed before rename), "rename-dir" (target is a directory)
func atomicPutObserved(dir string, initPrev bool, nchunks int, fault string, via string) (error, []obs, error) {
	ctx := context.Background()
	if err := os.RemoveAll(dir); err != nil {
		return nil, nil, err
	}
	if err := os.MkdirAll(dir, 0o755); err != nil {
		return nil, nil, err
	}
	target := filepath.Join(dir, fileName(1))
	if initPrev {
		if err := os.WriteFile(target, prevContent(1), 0o644); err != nil {
			return nil, nil, err
		}
	}
	if fault == "rename-dir" {
		if err := os.Mkdir(target, 0o755); err != nil {
			return nil, nil, err
		}
	}
	base, err := storageos.NewProvider().NewReadWriteBucket(dir)
	if err != nil {
		return nil, nil, err
	}
	var b storage.WriteBucket = base
	switch via {
	case "map":
		// the bucket is reached through a prefix view of the parent directory, as the module store does
		parent, err := storageos.NewProvider().NewReadWriteBucket(filepath.Dir(dir))
		if err != nil {
			return nil, nil, err
		}
		b = storage.MapWriteBucket(parent, storage.MapOnPrefix(filepath.Base(dir)))
	case "limit":
		b = storage.LimitWriteBucket(base, 1<<30)
	}
	var log []obs
	var mu sync.Mutex
	look := func(point string) {
		d, t := observeDir(dir, 1, nchunks)
		mu.Lock()
		log = append(log, obs{point, d, t})
		mu.Unlock()
	}
	verifhook.Set(func(point string, args ...any) {
		if !strings.HasPrefix(point, "storageos.atomic.") {
			return
		}
		if point == "storageos.atomic.tempclosed" && fault == "rename-enoent" {
			_ = os.Remove(args[0].(string))
		}
		look(strings.TrimPrefix(point, "storageos.atomic."))
	})
	defer verifhook.Set(nil)
	w, err := b.Put(ctx, fileName(1), storage.PutWithAtomic())
	if err != nil {
		return err, log, nil
	}
	look("put")
	data := content(1, nchunks)
	var werr error
	for off := 0; off < len(data) && werr == nil; off += 32768 {
		end := min(off+32768, len(data))
		_, werr = w.Write(data[off:end])
		look("write")
	}
	cerr := w.Close()
	look("closed")
	return errors.Join(werr, cerr), log, nil
}

func runAtomic(in []byte) (*reg.Result, error) {
	var inp atomicInput
	if err := reg.Decode(in, &inp); err != nil {
		return nil, err
	}
	res := &reg.Result{}
	work := reg.WorkDir()
	dir := filepath.Join(work, "atomic", "bucket")
	defer os.RemoveAll(filepath.Join(work, "atomic"))
	// 1. in-process: visibility at every primitive step, with and without real rename failures
	for _, via := range []string{"direct", "map", "limit"} {
		for _, initPrev := range []bool{false, true} {
			for _, nchunks := range []int{1, 2} {
				for _, fault := range []string{"", "rename-enoent", "rename-dir"} {
					if fault == "rename-dir" && initPrev {
						continue
					}
					opErr, log, err := atomicPutObserved(dir, initPrev, nchunks, fault, via)
					if err != nil {
						return nil, err
					}
					res.Count(1, 1)
					init := "none"
					if initPrev {
						init = "prev"
					}
					caseInfo := map[string]any{"via": via, "init": init, "nchunks": nchunks, "fault": fault, "log": log, "err": fmt.Sprint(opErr)}
					sig := fmt.Sprintf("atomic-os/%s/fault=%s/init=%s", via, fault, init)
					renamed := false
					sawTempClosed := false
					for _, o := range log {
						if o.Point == "renamed" {
							renamed = true
						}
						if o.Point == "tempclosed" {
							sawTempClosed = true
						}
						want := init
						if renamed {
							want = "new"
						}
						if fault == "rename-dir" {
							want = "none" // a directory is not an object
						}
						if o.Dest != want {
							res.Violate("visible/"+sig, caseInfo, "at step %q a reader sees %q, the specification allows only %q (AtomicVisible)", o.Point, o.Dest, want)
						}
					}
					if fault == "" {
						if opErr != nil || !renamed {
							res.Violate("spurious/"+sig, caseInfo, "atomic put without faults failed: %v", opErr)
						}
						if !sawTempClosed {
							res.Violate("notatomic/"+sig, caseInfo, "an atomic put through %s never reached the disk bucket's atomic path (no temp-file step observed): the object was written in place", via)
						}
					} else {
						if opErr == nil {
							res.Violate("unreported/"+sig, caseInfo, "rename failed but the atomic put returned nil")
						}
						_, leftTemps := observeDir(dir, 1, nchunks)
						if leftTemps != 0 {
							res.Violate("leftover/"+sig, caseInfo, "a failed atomic put left %d temp object(s) behind", leftTemps)
						}
						if fault == "rename-dir" {
							if st, err := os.Stat(filepath.Join(dir, fileName(1))); err != nil || !st.IsDir() {
								res.Violate("clobbered/"+sig, caseInfo, "a failed atomic put removed what was at the target")
							}
						}
					}
					if len(res.Samples) < 2 {
						res.Sample(caseInfo)
					}
				}
			}
		}
	}
	// 2. child processes: real write failure (RLIMIT_FSIZE) and real SIGKILL at every kill point
	exe := inp.Exe
	if exe == "" {
		exe, _ = os.Executable()
	}
	for _, via := range []string{"direct", "map"} {
		for _, initPrev := range []bool{false, true} {
			init := "none"
			if initPrev {
				init = "prev"
			}
			for _, mode := range []string{"fsize:putpath", "fsize:copy", "fsize:copypath", "fsize:buflock-like",
				"kill:put", "kill:write1", "kill:write2", "kill:tempclosed", "kill:renamed", "kill:closed"} {
				if err := os.RemoveAll(dir); err != nil {
					return nil, err
				}
				if err := os.MkdirAll(dir, 0o755); err != nil {
					return nil, err
				}
				if initPrev {
					if err := os.WriteFile(filepath.Join(dir, fileName(1)), prevContent(1), 0o644); err != nil {
						return nil, err
					}
				}
				cmd := exec.Command(exe, "faults-child", "/dev/null", filepath.Join(work, "atomic", "child.json"))
				cmd.Env = append(os.Environ(), "VH_CHILD_MODE="+mode, "VH_CHILD_DIR="+dir, "VH_CHILD_VIA="+via)
				out, runErr := cmd.CombinedOutput()
				res.Count(1, 1)
				dst, temps := observeDir(dir, 1, 2)
				caseInfo := map[string]any{"mode": mode, "via": via, "init": init, "dest": dst, "temps": temps, "child": strings.TrimSpace(string(out)), "exit": fmt.Sprint(runErr)}
				sig := fmt.Sprintf("atomic-os-child/%s/%s/init=%s", via, mode, init)
				if strings.HasPrefix(mode, "fsize:") {
					// the child reports "ERR" or "OK" for the operation
					if runErr != nil {
						return nil, fmt.Errorf("child %s failed: %v: %s", mode, runErr, out)
					}
					if !strings.Contains(string(out), "RESULT=ERR") {
						res.Violate("unreported/"+sig, caseInfo, "the write hit the file size limit but the operation reported success")
					}
					if dst != init {
						res.Violate("visible/"+sig, caseInfo, "after a failed atomic put a reader sees %q (before: %q)", dst, init)
					}
					if temps != 0 {
						res.Violate("leftover/"+sig, caseInfo, "a failed atomic put left %d temp object(s) behind", temps)
					}
				} else {
					// killed: either previous or complete new content; new only from the rename on
					want := init
					if mode == "kill:renamed" || mode == "kill:closed" {
						want = "new"
					}
					if !strings.Contains(fmt.Sprint(runErr), "killed") {
						if strings.Contains(string(out), "not reached") {
							res.Violate("notatomic/"+sig, caseInfo, "an atomic put through %s never reached the disk bucket's atomic path (step %s not observed): the object was written in place", via, mode)
							continue
						}
						return nil, fmt.Errorf("child %s was not killed: %v: %s", mode, runErr, out)
					}
					if dst != want {
						res.Violate("visible/"+sig, caseInfo, "after a kill at %s a reader sees %q, the specification allows %q", mode, dst, want)
					}
				}
			}
		}
	}
	return res, nil
}

// runChild is the body of the child process of runAtomic.
func runChild(_ []byte) (*reg.Result, error) {
	mode, dir, via := os.Getenv("VH_CHILD_MODE"), os.Getenv("VH_CHILD_DIR"), os.Getenv("VH_CHILD_VIA")
	ctx := context.Background()
	base, err := storageos.NewProvider().NewReadWriteBucket(dir)
	if err != nil {
		return nil, err
	}
	var b storage.WriteBucket = base
	if via == "map" {
		parent, err := storageos.NewProvider().NewReadWriteBucket(filepath.Dir(dir))
		if err != nil {
			return nil, err
		}
		b = storage.MapWriteBucket(parent, storage.MapOnPrefix(filepath.Base(dir)))
	}
	data := content(1, 2)
	kind, what, _ := strings.Cut(mode, ":")
	if kind == "fsize" {
		signal.Ignore(syscall.SIGXFSZ)
		lim := syscall.Rlimit{Cur: 20000, Max: 20000}
		if err := syscall.Setrlimit(syscall.RLIMIT_FSIZE, &lim); err != nil {
			return nil, err
		}
		var opErr error
		switch what {
		case "putpath":
			opErr = storage.PutPath(ctx, b, fileName(1), data, storage.PutWithAtomic())
		case "copy":
			src, _ := storagemem.NewReadBucket(map[string][]byte{fileName(1): data})
			_, opErr = storage.Copy(ctx, src, b, storage.CopyWithAtomic())
		case "copypath":
			src, _ := storagemem.NewReadBucket(map[string][]byte{fileName(1): data})
			opErr = storage.CopyPath(ctx, src, fileName(1), b, fileName(1), storage.CopyWithAtomic())
		case "buflock-like":
			// the shape of bufconfig.putFileForPrefix: atomic put, deferred close joined into the result
			opErr = func() (retErr error) {
				w, err := b.Put(ctx, fileName(1), storage.PutWithAtomic())
				if err != nil {
					return err
				}
				defer func() { retErr = errors.Join(retErr, w.Close()) }()
				_, err = w.Write(data)
				return err
			}()
		}
		if opErr != nil {
			fmt.Println("RESULT=ERR", opErr)
		} else {
			fmt.Println("RESULT=OK")
		}
		os.Exit(0)
	}
	// kill points
	die := func() { _ = syscall.Kill(os.Getpid(), syscall.SIGKILL); select {} }
	verifhook.Set(func(point string, args ...any) {
		if point == "storageos.atomic."+what {
			die()
		}
	})
	w, err := b.Put(ctx, fileName(1), storage.PutWithAtomic())
	if err != nil {
		return nil, err
	}
	if what == "put" {
		die()
	}
	_, _ = w.Write(data[:32768])
	if what == "write1" {
		die()
	}
	_, _ = w.Write(data[32768:])
	if what == "write2" {
		die()
	}
	_ = w.Close()
	if what == "closed" {
		die()
	}
	return nil, fmt.Errorf("kill point %q not reached", what)
}

module github.com/bufbuild/verifharness

go 1.23.4

require (
	github.com/bufbuild/buf v0.0.0
	github.com/klauspost/compress v1.18.0
)

require (
	golang.org/x/crypto v0.37.0 // indirect
	golang.org/x/sys v0.32.0 // indirect
)

replace github.com/bufbuild/buf => /repo
